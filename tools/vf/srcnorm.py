"""Source normalisation for the translators: robustness against COSMETIC rewrites of /repo.

Every translator in tools/vf reads the library source through `parse_file(path)`.  Besides `ast.parse` it does one thing: a function
(module level or method) of the current source that is ALPHA-EQUIVALENT to the function of the same qualified name in the reference
snapshot `tools/vf/refsrc/` (a committed copy of `copulas/` at the commit the translators were written against) is replaced by the
reference function's AST.  Alpha-equivalent means: identical abstract syntax after

  * consistent (bijective) renaming of names BOUND INSIDE the function: its local variables, the names/parameters/locals of nested
    functions and lambdas, comprehension variables, `except ... as` / `with ... as` / `import ... as` names - never its own parameters
    (callers may pass them by keyword), never attributes, keyword-argument names, globals or builtins;
  * removal of docstrings and of type annotations (`x: T = v` becomes `x = v`);
  * masking of the message argument of `raise Exc(msg)` and of `warnings.warn(msg, ...)` / `LOGGER.<level>(msg, ...)` calls
    (f-string versus `.format` versus `%`: the text of a message is not part of any property; the exception CLASS and the
    warning category stay in the key).

Such a function denotes the same computation as the reference function, so handing the translators the reference AST changes nothing
except the spelling they see: translators written against particular local names keep working after a rename / re-documentation /
re-annotation commit.  Anything else (a changed operator, constant, call, statement order, attribute, decorator, parameter) makes the
keys differ and the translators get the CURRENT function untouched, exactly as before this layer existed.  The layer is conservative:
functions containing `global`, `nonlocal`, a nested class, a walrus, or calls of `locals`/`vars`/`eval`/`exec` are never substituted.

`python -m vf.srcnorm selftest` checks the layer against every seeded change under /verif/seeded: a function a seeded change touches
must NOT be considered equivalent to its reference (unless the change is confined to text the key masks on purpose).
"""
import ast
import copy
import os

HERE = os.path.dirname(os.path.abspath(__file__))
REFROOT = os.path.join(HERE, 'refsrc')
ENABLED = os.environ.get('VERIF_NO_SRCNORM', '') == ''

_FORBIDDEN_CALLS = {'locals', 'vars', 'eval', 'exec', 'globals', 'dir'}
_LOG_LEVELS = {'debug', 'info', 'warning', 'warn', 'error', 'exception', 'critical', 'log'}


class NotNormalisable(Exception):
    pass


def _strip_doc(body):
    if body and isinstance(body[0], ast.Expr) and isinstance(body[0].value, ast.Constant) and isinstance(body[0].value.value, str):
        return body[1:]
    return body


def _is_scope(n):
    return isinstance(n, (ast.FunctionDef, ast.AsyncFunctionDef, ast.Lambda, ast.ListComp, ast.SetComp, ast.DictComp, ast.GeneratorExp))


def _params(fn):
    a = fn.args
    out = [x.arg for x in a.posonlyargs + a.args + a.kwonlyargs]
    if a.vararg:
        out.append(a.vararg.arg)
    if a.kwarg:
        out.append(a.kwarg.arg)
    return out


def _targets(t, out):
    if isinstance(t, ast.Name):
        out.add(t.id)
    elif isinstance(t, (ast.Tuple, ast.List)):
        for e in t.elts:
            _targets(e, out)
    elif isinstance(t, ast.Starred):
        _targets(t.value, out)
    # attribute / subscript targets bind nothing


def _bound_in(scope):
    """names bound in the scope's OWN block (not in nested scopes)"""
    out = set()

    def visit(n, top=False):
        if not top and _is_scope(n):
            if isinstance(n, (ast.FunctionDef, ast.AsyncFunctionDef)):
                out.add(n.name)
                for d in n.decorator_list:
                    visit(d)
                for d in n.args.defaults + [k for k in n.args.kw_defaults if k is not None]:
                    visit(d)
            elif isinstance(n, ast.Lambda):
                for d in n.args.defaults + [k for k in n.args.kw_defaults if k is not None]:
                    visit(d)
            else:
                visit(n.generators[0].iter)      # evaluated in the enclosing scope
            return
        if isinstance(n, ast.ClassDef):
            raise NotNormalisable('nested class')
        if isinstance(n, (ast.Global, ast.Nonlocal)):
            raise NotNormalisable('global / nonlocal')
        if isinstance(n, ast.NamedExpr):
            raise NotNormalisable('walrus')
        if isinstance(n, ast.Call) and isinstance(n.func, ast.Name) and n.func.id in _FORBIDDEN_CALLS:
            raise NotNormalisable('reflective call')
        if isinstance(n, (ast.Assign,)):
            for t in n.targets:
                _targets(t, out)
        elif isinstance(n, (ast.AugAssign, ast.AnnAssign)):
            _targets(n.target, out)
        elif isinstance(n, (ast.For, ast.AsyncFor)):
            _targets(n.target, out)
        elif isinstance(n, (ast.With, ast.AsyncWith)):
            for it in n.items:
                if it.optional_vars is not None:
                    _targets(it.optional_vars, out)
        elif isinstance(n, ast.ExceptHandler):
            if n.name:
                out.add(n.name)
        elif isinstance(n, (ast.Import, ast.ImportFrom)):
            for al in n.names:
                out.add((al.asname or al.name).split('.')[0])
        elif isinstance(n, ast.Delete):
            for t in n.targets:
                _targets(t, out)
        elif isinstance(n, ast.comprehension):
            pass
        for c in ast.iter_child_nodes(n):
            visit(c)
    if isinstance(scope, (ast.FunctionDef, ast.AsyncFunctionDef)):
        for s in scope.body:
            visit(s)
    elif isinstance(scope, ast.Lambda):
        visit(scope.body)
    else:       # comprehension: targets of all generators are bound in its own scope
        for g in scope.generators:
            _targets(g.target, out)
        for i, g in enumerate(scope.generators):
            if i > 0:
                visit(g.iter)
            for c in g.ifs:
                visit(c)
        if isinstance(scope, ast.DictComp):
            visit(scope.key)
            visit(scope.value)
        else:
            visit(scope.elt)
    return out


def _masked_message_call(n):
    """raise Exc(msg, ...) is handled at the Raise node; here: warnings.warn(msg, ...), LOGGER.<level>(msg, ...)"""
    if not isinstance(n, ast.Call):
        return False
    f = n.func
    if isinstance(f, ast.Attribute) and isinstance(f.value, ast.Name):
        if f.value.id == 'warnings' and f.attr == 'warn':
            return True
        if f.value.id in ('LOGGER', 'logger', 'log') and f.attr in _LOG_LEVELS:
            return True
    return False


def _simple_message_value(v):
    """a message text: str constant, f-string / .format / % over names, attributes and constants only (no other calls)"""
    def simple(e):
        if isinstance(e, ast.Constant):
            return True
        if isinstance(e, ast.Name):
            return True
        if isinstance(e, ast.Attribute):
            return simple(e.value)
        if isinstance(e, ast.FormattedValue):
            return simple(e.value) and (e.format_spec is None or simple(e.format_spec))
        if isinstance(e, ast.JoinedStr):
            return all(simple(x) for x in e.values)
        if isinstance(e, (ast.Tuple,)):
            return all(simple(x) for x in e.elts)
        return False
    if isinstance(v, ast.Constant) and isinstance(v.value, str):
        return True
    if isinstance(v, ast.JoinedStr):
        return simple(v)
    if isinstance(v, ast.Call) and isinstance(v.func, ast.Attribute) and v.func.attr == 'format' and _simple_message_value(v.func.value):
        return all(simple(a) for a in v.args) and all(simple(k.value) for k in v.keywords)
    if isinstance(v, ast.BinOp) and isinstance(v.op, ast.Mod) and _simple_message_value(v.left):
        return simple(v.right)
    if isinstance(v, ast.BinOp) and isinstance(v.op, ast.Add):
        return _simple_message_value(v.left) and _simple_message_value(v.right)
    return False


def _message_only_names(fn):
    """locals assigned exactly once, to a message text, and read only as the message of `raise Exc(name)` / warnings.warn(name, ...) /
    LOGGER.<level>(name, ...): binding the text to a local before raising is the same as writing it inline (the key masks messages)"""
    assigns, loads, ok_loads = {}, {}, {}
    for n in ast.walk(fn):
        if isinstance(n, ast.Assign) and len(n.targets) == 1 and isinstance(n.targets[0], ast.Name):
            assigns.setdefault(n.targets[0].id, []).append(n)
        elif isinstance(n, ast.Name) and isinstance(n.ctx, ast.Load):
            loads[n.id] = loads.get(n.id, 0) + 1
        if isinstance(n, ast.Raise) and isinstance(n.exc, ast.Call) and not n.exc.keywords:
            for a in n.exc.args:
                if isinstance(a, ast.Name):
                    ok_loads[a.id] = ok_loads.get(a.id, 0) + 1
        if _masked_message_call(n) and n.args and isinstance(n.args[0], ast.Name):
            ok_loads[n.args[0].id] = ok_loads.get(n.args[0].id, 0) + 1
    stores = {}
    for n in ast.walk(fn):
        if isinstance(n, ast.Name) and isinstance(n.ctx, (ast.Store, ast.Del)):
            stores[n.id] = stores.get(n.id, 0) + 1
    out = set()
    for name, lst in assigns.items():
        if len(lst) == 1 and stores.get(name, 0) == 1 and _simple_message_value(lst[0].value) \
                and loads.get(name, 0) >= 1 and loads.get(name, 0) == ok_loads.get(name, 0) and name not in _params(fn):
            out.add(name)
    return out


def alpha_key(fn):
    """(key, names): key = hashable structure of the function with bound names abstracted to indices; names = the bound names in order
    of first occurrence.  Raises NotNormalisable for functions the layer does not touch."""
    index = {}       # (scope id, name) -> int
    names = []
    out = []
    msg_only = _message_only_names(fn) if isinstance(fn, (ast.FunctionDef, ast.AsyncFunctionDef)) else set()

    def keep(stmts):
        return [s_ for s_ in stmts if not (isinstance(s_, ast.Assign) and len(s_.targets) == 1 and isinstance(s_.targets[0], ast.Name)
                                            and s_.targets[0].id in msg_only)]

    def binding(scopes, name):
        for sid, bound in reversed(scopes):
            if name in bound:
                return (sid, name)
        return None

    def emit_name(scopes, name):
        b = binding(scopes, name)
        if b is None:
            out.append(('N', name))
        else:
            if b not in index:
                index[b] = len(names)
                names.append(name)
            out.append(('L', index[b]))

    def visit_args(a, scopes_inner, scopes_outer, rename_params):
        for group, lst in (('po', a.posonlyargs), ('a', a.args), ('k', a.kwonlyargs)):
            out.append(('args', group, len(lst)))
            for x in lst:
                if rename_params:
                    emit_name(scopes_inner, x.arg)
                else:
                    out.append(('P', x.arg))
        for tag, x in (('va', a.vararg), ('kw', a.kwarg)):
            out.append((tag, x is not None))
            if x is not None:
                if rename_params:
                    emit_name(scopes_inner, x.arg)
                else:
                    out.append(('P', x.arg))
        out.append(('defaults', len(a.defaults), tuple(k is None for k in a.kw_defaults)))
        for d in a.defaults + [k for k in a.kw_defaults if k is not None]:
            visit(d, scopes_outer)

    def visit_body(body, scopes):
        body = keep(_strip_doc(body))
        out.append(('body', len(body)))
        for s in body:
            visit(s, scopes)

    def visit(n, scopes):
        if isinstance(n, (ast.FunctionDef, ast.AsyncFunctionDef)):      # nested function
            out.append((type(n).__name__,))
            emit_name(scopes, n.name)
            for d in n.decorator_list:
                visit(d, scopes)
            bound = _bound_in(n) | set(_params(n))
            inner = scopes + [(id(n), bound)]
            visit_args(n.args, inner, scopes, True)
            visit_body(n.body, inner)
            return
        if isinstance(n, ast.Lambda):
            out.append(('Lambda',))
            bound = _bound_in(n) | set(_params(n))
            inner = scopes + [(id(n), bound)]
            visit_args(n.args, inner, scopes, True)
            visit(n.body, inner)
            return
        if isinstance(n, (ast.ListComp, ast.SetComp, ast.DictComp, ast.GeneratorExp)):
            out.append((type(n).__name__, len(n.generators)))
            inner = scopes + [(id(n), _bound_in(n))]
            for i, g in enumerate(n.generators):
                visit(g.iter, scopes if i == 0 else inner)
                visit(g.target, inner)
                out.append(('ifs', len(g.ifs), g.is_async))
                for c in g.ifs:
                    visit(c, inner)
            if isinstance(n, ast.DictComp):
                visit(n.key, inner)
                visit(n.value, inner)
            else:
                visit(n.elt, inner)
            return
        if isinstance(n, ast.Name):
            out.append(('ctx', type(n.ctx).__name__))
            emit_name(scopes, n.id)
            return
        if isinstance(n, ast.ExceptHandler):
            out.append(('ExceptHandler', n.name is not None))
            if n.type is not None:
                visit(n.type, scopes)
            if n.name:
                emit_name(scopes, n.name)
            hb = keep(n.body)
            out.append(('body', len(hb)))
            for s in hb:
                visit(s, scopes)
            return
        if isinstance(n, (ast.Import, ast.ImportFrom)):
            out.append((type(n).__name__, getattr(n, 'module', None), getattr(n, 'level', None), len(n.names)))
            for al in n.names:
                out.append(('alias', al.name))
                emit_name(scopes, (al.asname or al.name).split('.')[0])
            return
        if isinstance(n, ast.AnnAssign):
            if n.value is None:
                out.append(('AnnOnly',))
                return
            out.append(('Assign', 1))
            visit(n.target, scopes)
            visit(n.value, scopes)
            return
        if isinstance(n, ast.Assign):
            out.append(('Assign', len(n.targets)))
            for t in n.targets:
                visit(t, scopes)
            visit(n.value, scopes)
            return
        if isinstance(n, ast.Raise) and isinstance(n.exc, ast.Call) and not n.exc.keywords:
            out.append(('RaiseCall', n.cause is not None))
            visit(n.exc.func, scopes)
            out.append(('MSG',))           # message arguments masked
            if n.cause is not None:
                visit(n.cause, scopes)
            return
        if _masked_message_call(n):
            out.append(('MsgCall', len(n.args), tuple(k.arg for k in n.keywords)))
            visit(n.func, scopes)
            out.append(('MSG',))
            for a in n.args[1:]:
                visit(a, scopes)
            for k in n.keywords:
                if k.arg not in ('message', 'msg'):
                    visit(k.value, scopes)
            return
        out.append((type(n).__name__,))
        for field, value in ast.iter_fields(n):
            if field in ('lineno', 'col_offset', 'end_lineno', 'end_col_offset', 'type_comment', 'ctx', 'kind'):
                continue
            if isinstance(value, list):
                if value and isinstance(value[0], ast.stmt):
                    value = keep(value)
                out.append((field, len(value)))
                for v in value:
                    if isinstance(v, ast.AST):
                        visit(v, scopes)
                    else:
                        out.append(('v', repr(v)))
            elif isinstance(value, ast.AST):
                out.append((field,))
                visit(value, scopes)
            else:
                out.append((field, repr(value)))

    if not isinstance(fn, (ast.FunctionDef, ast.AsyncFunctionDef)):
        raise NotNormalisable('not a function')
    bound = _bound_in(fn) - set(_params(fn))
    top = [(id(fn), bound)]
    out.append((type(fn).__name__, fn.name))
    for d in fn.decorator_list:
        visit(d, [])
    visit_args(fn.args, top, [], False)
    visit_body(fn.body, top)
    return tuple(out), names


def functions_of(tree):
    """qualified name -> (container list, index, node) for module-level functions and methods of module-level classes"""
    out = {}
    for i, n in enumerate(tree.body):
        if isinstance(n, (ast.FunctionDef, ast.AsyncFunctionDef)):
            out[n.name] = (tree.body, i, n)
        elif isinstance(n, ast.ClassDef):
            for j, m in enumerate(n.body):
                if isinstance(m, (ast.FunctionDef, ast.AsyncFunctionDef)):
                    key = f'{n.name}.{m.name}'
                    if key in out:          # property setters etc.: ambiguous, leave alone
                        out[key] = None
                    else:
                        out[key] = (n.body, j, m)
    return {k: v for k, v in out.items() if v is not None}


def ref_path_of(path):
    p = os.path.realpath(path)
    parts = p.split(os.sep)
    if 'copulas' not in parts:
        return None
    i = len(parts) - 1 - parts[::-1].index('copulas')
    # the package directory is the FIRST 'copulas' component that has an __init__.py sibling chain; use the last occurrence that is a dir
    # of the repository root: .../<root>/copulas/<rel>
    for k in range(len(parts)):
        if parts[k] == 'copulas' and os.path.exists(os.sep.join(parts[:k + 1] + ['__init__.py'])):
            i = k
            break
    rel = os.sep.join(parts[i:])
    ref = os.path.join(REFROOT, rel)
    return ref if os.path.exists(ref) else None


_STATS = {'substituted': 0, 'kept': 0, 'skipped': 0}


def normalise(tree, ref_tree):
    """substitute reference functions for alpha-equivalent current ones (in place); returns the list of substituted qualified names"""
    cur, ref = functions_of(tree), functions_of(ref_tree)
    done = []
    for q, (container, i, node) in cur.items():
        if q not in ref:
            _STATS['kept'] += 1
            continue
        rnode = ref[q][2]
        try:
            kc, _ = alpha_key(node)
            kr, _ = alpha_key(rnode)
        except NotNormalisable:
            _STATS['skipped'] += 1
            continue
        if kc == kr:
            if ast.dump(node) != ast.dump(rnode):
                new = copy.deepcopy(rnode)
                ast.copy_location(new, node)
                container[i] = new
                done.append(q)
                _STATS['substituted'] += 1
        else:
            _STATS['kept'] += 1
    return done


def parse_file(path):
    """ast.parse of a library source file, with alpha-equivalent functions replaced by their reference spelling"""
    with open(path) as f:
        tree = ast.parse(f.read())
    if not ENABLED:
        return tree
    ref = ref_path_of(path)
    if ref is None:
        return tree
    with open(ref) as f:
        ref_tree = ast.parse(f.read())
    normalise(tree, ref_tree)
    return tree


# ------------------------------------------------------------------------------------------------------------------------------
def _selftest():
    """every function touched by a seeded change must be told apart from its reference (or the change is confined to masked text);
    every function of the reference is equivalent to itself."""
    import glob
    import json
    import subprocess
    import tempfile
    import shutil
    verif = os.path.dirname(os.path.dirname(HERE))
    bad, n_changed, n_equiv = [], 0, 0
    for py in glob.glob(os.path.join(REFROOT, '**', '*.py'), recursive=True):
        t = ast.parse(open(py).read())
        for q, (_, _, node) in functions_of(t).items():
            try:
                k1, _ = alpha_key(node)
                k2, _ = alpha_key(copy.deepcopy(node))
                assert k1 == k2
            except NotNormalisable:
                pass
    for d in sorted(glob.glob(os.path.join(verif, 'seeded', '*'))):
        patch = os.path.join(d, 'patch.diff')
        if not os.path.exists(patch):
            continue
        tmp = tempfile.mkdtemp(prefix='srcnorm_')
        try:
            shutil.copytree(os.path.join(REFROOT, 'copulas'), os.path.join(tmp, 'copulas'))
            r = subprocess.run(['patch', '-p1', '-s', '-f', '--no-backup-if-mismatch', '-i', patch], cwd=tmp, capture_output=True, text=True)
            if r.returncode != 0:
                print(f'{os.path.basename(d)}: patch does not apply to the reference snapshot (seed written against an older tree) - skipped')
                continue
            for py in glob.glob(os.path.join(tmp, 'copulas', '**', '*.py'), recursive=True):
                rel = os.path.relpath(py, tmp)
                refpy = os.path.join(REFROOT, rel)
                if not os.path.exists(refpy):
                    continue
                src, rsrc = open(py).read(), open(refpy).read()
                if src == rsrc:
                    continue
                t, rt = ast.parse(src), ast.parse(rsrc)
                cf, rf = functions_of(t), functions_of(rt)
                for q in cf:
                    if q in rf and ast.dump(cf[q][2]) != ast.dump(rf[q][2]):
                        n_changed += 1
                        try:
                            same = alpha_key(cf[q][2])[0] == alpha_key(rf[q][2])[0]
                        except NotNormalisable:
                            same = False
                        if same:
                            n_equiv += 1
                            bad.append(f'{os.path.basename(d)}: {rel}:{q} changed by the seed but alpha-equivalent to the reference')
        finally:
            shutil.rmtree(tmp, ignore_errors=True)
    print(json.dumps({'functions_changed_by_seeds': n_changed, 'considered_equivalent': n_equiv}, indent=1))
    for b in bad:
        print('EQUIVALENT:', b)
    return 1 if bad else 0


if __name__ == '__main__':
    import sys
    if sys.argv[1:] == ['selftest']:
        sys.exit(_selftest())
