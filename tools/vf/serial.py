"""Helpers of the C14 check (serialisation round trips).

 1. AST facts: the keys every `to_dict` emits and every `from_dict` / `_set_params` consumes (fail-closed).
 2. Python value -> Coq `jv` literal (exact rationals), abstraction of the REAL model objects into the
    states of coq/Model/Lifecycle.v (sinst / uobj / binst / ginst / bworld).
 3. Canonical forms (floats by bit pattern) and bitwise behaviour comparison used by the oracles.
"""
import ast
from . import srcnorm as _srcnorm
import enum
import os
import sys
from fractions import Fraction

import numpy as np

from .core import REPO

PKG = os.path.join(REPO, 'copulas')

FAM = {'GaussianUnivariate': 'FGaussian', 'UniformUnivariate': 'FUniform', 'BetaUnivariate': 'FBeta',
       'GammaUnivariate': 'FGamma', 'StudentTUnivariate': 'FStudentT', 'LogLaplace': 'FLogLaplace',
       'TruncatedGaussian': 'FTrunc', 'GaussianKDE': 'FKDE'}
FAM_FILES = {'GaussianUnivariate': 'gaussian', 'UniformUnivariate': 'uniform', 'BetaUnivariate': 'beta',
             'GammaUnivariate': 'gamma', 'StudentTUnivariate': 'student_t', 'LogLaplace': 'log_laplace',
             'TruncatedGaussian': 'truncated_gaussian', 'GaussianKDE': 'gaussian_kde'}
# order of Model.Lifecycle.family constructors
FAM_ORDER = ['GaussianUnivariate', 'UniformUnivariate', 'BetaUnivariate', 'GammaUnivariate', 'StudentTUnivariate',
             'LogLaplace', 'TruncatedGaussian', 'GaussianKDE']
CTYPE = {'Clayton': 'Clayton', 'Frank': 'Frank', 'Gumbel': 'Gumbel', 'Independence': 'Independence'}


class Unsupported(Exception):
    """a construct outside the shapes the fact extractor understands (fail-closed)"""


# =====================================================================================================
# 1. AST facts
# =====================================================================================================
def _parse(rel):
    path = os.path.join(PKG, rel)
    return _srcnorm.parse_file(path), path


def _cls(tree, name, rel):
    for n in tree.body:
        if isinstance(n, ast.ClassDef) and n.name == name:
            return n
    raise Unsupported(f'class {name} not found in copulas/{rel}')


def _meth(cls, name, required=True):
    for n in cls.body:
        if isinstance(n, ast.FunctionDef) and n.name == name:
            return n
    if required:
        raise Unsupported(f'method {cls.name}.{name} not found')
    return None


def _const_keys(d, where):
    if not isinstance(d, ast.Dict):
        raise Unsupported(f'{where}: expected a dict literal, found `{ast.unparse(d)[:60]}`')
    out = []
    for k in d.keys:
        if not (isinstance(k, ast.Constant) and isinstance(k.value, str)):
            raise Unsupported(f'{where}: non-constant dict key `{ast.unparse(k) if k is not None else "**"}`')
        out.append(k.value)
    return out


def _dict_set(keys, k):
    return keys if k in keys else keys + [k]


def _is_self_params(node):
    return isinstance(node, ast.Attribute) and node.attr == '_params' and isinstance(node.value, ast.Name) \
        and node.value.id == 'self'


def _params_writes(fn, fit_keys, where):
    """symbolic execution of the writes to self._params in a straight-line method body"""
    keys = None
    for st in fn.body:
        if isinstance(st, ast.Expr) and isinstance(st.value, ast.Constant):
            continue
        if isinstance(st, ast.Assign) and len(st.targets) == 1 and _is_self_params(st.targets[0]):
            keys = _const_keys(st.value, where)
            continue
        if isinstance(st, ast.Assign) and len(st.targets) == 1 and isinstance(st.targets[0], ast.Subscript) \
                and _is_self_params(st.targets[0].value):
            k = st.targets[0].slice
            if not (isinstance(k, ast.Constant) and isinstance(k.value, str)) or keys is None:
                raise Unsupported(f'{where}: unsupported write `{ast.unparse(st)[:60]}`')
            keys = _dict_set(keys, k.value)
            continue
        if isinstance(st, ast.Expr) and ast.unparse(st.value) == 'self._fit(X)':
            if fit_keys is None:
                raise Unsupported(f'{where}: calls self._fit before its keys are known')
            keys = list(fit_keys)
            continue
        # any other statement must not store into self._params
        for n in ast.walk(st):
            if _is_self_params(n) and isinstance(getattr(n, 'ctx', None), ast.Store):
                raise Unsupported(f'{where}: unsupported write to self._params in `{ast.unparse(st)[:60]}`')
            if isinstance(n, ast.Subscript) and _is_self_params(n.value) and isinstance(n.ctx, (ast.Store, ast.Del)):
                raise Unsupported(f'{where}: unsupported write to self._params in `{ast.unparse(st)[:60]}`')
            if isinstance(n, ast.Call) and isinstance(n.func, ast.Attribute) and _is_self_params(n.func.value):
                if n.func.attr not in ('copy', 'get', 'keys', 'values', 'items'):
                    raise Unsupported(f'{where}: unsupported call on self._params `{ast.unparse(n)[:60]}`')
    if keys is None:
        raise Unsupported(f'{where}: no assignment to self._params found')
    return keys


def _params_reads(fn, where):
    out = []
    for n in ast.walk(fn):
        if isinstance(n, ast.Subscript) and _is_self_params(n.value):
            if not (isinstance(n.slice, ast.Constant) and isinstance(n.slice.value, str)):
                raise Unsupported(f'{where}: non-constant subscript `{ast.unparse(n)[:60]}`')
            if n.slice.value not in out:
                out.append(n.slice.value)
    return out


def _sub_reads(fn, var, where, lists=None):
    """constant keys read as var['k'] (Load); `var[key]` inside `for key in <name>` resolved through `lists`"""
    out = []
    for n in ast.walk(fn):
        if isinstance(n, ast.Subscript) and isinstance(n.value, ast.Name) and n.value.id == var \
                and isinstance(n.ctx, ast.Load):
            if isinstance(n.slice, ast.Constant) and isinstance(n.slice.value, str):
                if n.slice.value not in out:
                    out.append(n.slice.value)
            elif isinstance(n.slice, ast.Name) and lists is not None and n.slice.id in lists:
                for k in lists[n.slice.id]:
                    if k not in out:
                        out.append(k)
            else:
                raise Unsupported(f'{where}: non-constant key `{ast.unparse(n)[:60]}`')
        if isinstance(n, ast.Call) and isinstance(n.func, ast.Attribute) and isinstance(n.func.value, ast.Name) \
                and n.func.value.id == var and n.func.attr in ('pop', 'get'):
            a = n.args[0] if n.args else None
            if not (isinstance(a, ast.Constant) and isinstance(a.value, str)):
                raise Unsupported(f'{where}: non-constant key in `{ast.unparse(n)[:60]}`')
            if a.value not in out:
                out.append(a.value)
    return out


def _loop_lists(fn):
    """{loop variable: constant list it iterates over} for `name = [consts]; for key in name:`"""
    consts = {}
    for n in ast.walk(fn):
        if isinstance(n, ast.Assign) and len(n.targets) == 1 and isinstance(n.targets[0], ast.Name) \
                and isinstance(n.value, ast.List) and all(isinstance(e, ast.Constant) and isinstance(e.value, str) for e in n.value.elts):
            consts[n.targets[0].id] = [e.value for e in n.value.elts]
    out = {}
    for n in ast.walk(fn):
        if isinstance(n, ast.For) and isinstance(n.target, ast.Name) and isinstance(n.iter, ast.Name) and n.iter.id in consts:
            out[n.target.id] = consts[n.iter.id]
    return out


def _return_dict_keys(fn, where):
    rets = [n for n in ast.walk(fn) if isinstance(n, ast.Return) and n.value is not None]
    dicts = [r for r in rets if isinstance(r.value, ast.Dict)]
    if len(dicts) != 1:
        raise Unsupported(f'{where}: expected exactly one `return {{...}}`')
    return _const_keys(dicts[0].value, where), dicts[0].value


def _result_update_keys(fn, where):
    """`result = {..}` ... `if not fitted: return result` ... `result.update({..})`"""
    base = upd = None
    for n in ast.walk(fn):
        if isinstance(n, ast.Assign) and len(n.targets) == 1 and isinstance(n.targets[0], ast.Name) \
                and n.targets[0].id == 'result' and isinstance(n.value, ast.Dict):
            if base is not None:
                raise Unsupported(f'{where}: two assignments to result')
            base = _const_keys(n.value, where)
        if isinstance(n, ast.Call) and ast.unparse(n.func) == 'result.update':
            if upd is not None or len(n.args) != 1:
                raise Unsupported(f'{where}: unsupported result.update')
            upd = (_const_keys(n.args[0], where), n.args[0])
    if base is None or upd is None:
        raise Unsupported(f'{where}: expected `result = {{..}}` and `result.update({{..}})`')
    early = any(isinstance(n, ast.If) and any(isinstance(s, ast.Return) and ast.unparse(s.value) == 'result' for s in n.body)
                for n in ast.walk(fn))
    if not early:
        raise Unsupported(f'{where}: expected the early `return result` for unfitted objects')
    return base, upd[0], upd[1]


def _attr_sets(fn, var):
    out = []
    for n in ast.walk(fn):
        if isinstance(n, ast.Assign):
            for t in n.targets:
                if isinstance(t, ast.Attribute) and isinstance(t.value, ast.Name) and t.value.id == var and t.attr not in out:
                    out.append(t.attr)
    return out


def _init_args(cls):
    init = _meth(cls, '__init__', required=False)
    if init is None:
        return None, False
    names = [a.arg for a in init.args.args[1:]]
    if init.args.vararg or init.args.kwarg or init.args.kwonlyargs:
        raise Unsupported(f'{cls.name}.__init__: *args/**kwargs/keyword-only arguments')
    decs = [ast.unparse(d).split('(')[0].split('.')[-1] for d in init.decorator_list]
    REQUIRED[cls.name] = names[:len(names) - len(init.args.defaults)]
    return names, 'store_args' in decs


REQUIRED = {}


def serial_facts():
    """returns (facts dict, problems list).  Every entry is extracted from the current source."""
    F, problems = {}, []
    REQUIRED.clear()

    def guard(name, fn):
        try:
            fn()
        except Unsupported as ex:
            problems.append((name, str(ex)))
        except (OSError, SyntaxError) as ex:
            problems.append((name, f'{type(ex).__name__}: {ex}'))

    # ---- univariate families ----
    F['fit'], F['const'], F['isconst'], F['extract'], F['init'], F['store_args'], F['own_set_params'] = {}, {}, {}, {}, {}, {}, {}

    def base():
        tree, _ = _parse('univariate/base.py')
        U = _cls(tree, 'Univariate', 'univariate/base.py')
        S = _cls(tree, 'ScipyModel', 'univariate/base.py')
        td = _meth(U, 'to_dict')
        adds = []
        for n in ast.walk(td):
            if isinstance(n, ast.Assign):
                for t in n.targets:
                    if isinstance(t, ast.Subscript) and isinstance(t.value, ast.Name) and t.value.id == 'params':
                        if not (isinstance(t.slice, ast.Constant) and isinstance(t.slice.value, str)):
                            raise Unsupported('Univariate.to_dict: non-constant key')
                        if t.slice.value not in adds:
                            adds.append(t.slice.value)
        src = ast.unparse(td)
        if 'params = self._get_params()' not in src or 'return params' not in src:
            raise Unsupported('Univariate.to_dict: expected `params = self._get_params()` ... `return params`')
        F['uni_to_dict_adds'] = adds
        F['uni_to_dict_checks_fit'] = 'self.check_fit()' in src
        F['uni_wrapper_type_is_instance'] = 'get_qualified_name(self._instance)' in src
        fd = _meth(U, 'from_dict')
        F['uni_from_dict_pops'] = _sub_reads(fd, 'params', 'Univariate.from_dict')
        fsrc = ast.unparse(fd)
        F['uni_from_dict_sets_fitted'] = 'distribution.fitted = True' in fsrc
        F['uni_from_dict_calls_set_params'] = 'distribution._set_params(params)' in fsrc
        F['uni_save_pickle'] = 'pickle.dump(self' in ast.unparse(_meth(U, 'save')) and 'pickle.load(' in ast.unparse(_meth(U, 'load'))
        gp = ast.unparse(_meth(S, '_get_params'))
        F['scipy_get_params_copies'] = 'return self._params.copy()' in gp
        sp = ast.unparse(_meth(S, '_set_params'))
        F['scipy_set_params_shape'] = all(x in sp for x in ('self._params = params.copy()', 'self._is_constant()',
                                                              'self._extract_constant()', 'self._set_constant_value('))
        F['init']['ScipyModel'], _ = _init_args(S)
        F['init']['Univariate'], F['store_args']['Univariate'] = _init_args(U)
    guard('univariate-base', base)

    for cname in FAM_ORDER:
        def fam(cname=cname):
            rel = f'univariate/{FAM_FILES[cname]}.py'
            tree, _ = _parse(rel)
            C = _cls(tree, cname, rel)
            if not any(ast.unparse(b) == 'ScipyModel' for b in C.bases):
                raise Unsupported(f'{cname}: not a direct subclass of ScipyModel')
            fit_keys = _params_writes(_meth(C, '_fit'), None, f'{cname}._fit')
            F['fit'][cname] = fit_keys
            F['const'][cname] = _params_writes(_meth(C, '_fit_constant'), fit_keys, f'{cname}._fit_constant')
            F['isconst'][cname] = _params_reads(_meth(C, '_is_constant'), f'{cname}._is_constant')
            F['extract'][cname] = _params_reads(_meth(C, '_extract_constant'), f'{cname}._extract_constant')
            ia, sa = _init_args(C)
            F['init'][cname] = ia if ia is not None else F['init'].get('ScipyModel')
            F['store_args'][cname] = sa
            F['own_set_params'][cname] = _meth(C, '_set_params', required=False) is not None
            if _meth(C, '_get_params', required=False) is not None or _meth(C, 'to_dict', required=False) is not None \
                    or _meth(C, 'from_dict', required=False) is not None:
                raise Unsupported(f'{cname}: overrides _get_params/to_dict/from_dict (not modelled)')
            if F['own_set_params'][cname]:
                sp = ast.unparse(_meth(C, '_set_params'))
                if not all(x in sp for x in ('self._params = params.copy()', 'self._is_constant()', 'self._extract_constant()',
                                             'self._set_constant_value(', 'self._model = self._get_model()')):
                    raise Unsupported(f'{cname}._set_params: unexpected shape')
        guard(f'univariate-{cname}', fam)

    # ---- bivariate ----
    def biv():
        tree, _ = _parse('bivariate/base.py')
        B = _cls(tree, 'Bivariate', 'bivariate/base.py')
        F['biv_to_dict'], _ = _return_dict_keys(_meth(B, 'to_dict'), 'Bivariate.to_dict')
        F['biv_to_dict_checks_fit'] = 'check_fit' in ast.unparse(_meth(B, 'to_dict'))
        fd = _meth(B, 'from_dict')
        F['biv_from_dict_reads'] = _sub_reads(fd, 'copula_dict', 'Bivariate.from_dict')
        F['biv_from_dict_sets'] = _attr_sets(fd, 'instance')
        F['biv_from_dict_via_base'] = "instance = Bivariate(copula_type=copula_dict['copula_type'])" in ast.unparse(fd)
        F['biv_save_json'] = 'json.dump(' in ast.unparse(_meth(B, 'save')) and 'json.load(' in ast.unparse(_meth(B, 'load')) \
            and 'cls.from_dict(' in ast.unparse(_meth(B, 'load'))
        for sub, f in (('Clayton', 'clayton'), ('Frank', 'frank'), ('Gumbel', 'gumbel'), ('Independence', 'independence')):
            t2, _ = _parse(f'bivariate/{f}.py')
            c2 = _cls(t2, sub, f'bivariate/{f}.py')
            for mname in ('to_dict', 'from_dict', 'save', 'load', '__new__'):
                if _meth(c2, mname, required=False) is not None:
                    raise Unsupported(f'{sub} overrides {mname} (not modelled)')
        init = _srcnorm.parse_file(os.path.join(PKG, 'bivariate', '__init__.py'))
        imported = []
        for n in init.body:
            if isinstance(n, ast.ImportFrom) and n.module and n.module.startswith('copulas.bivariate.'):
                imported.append(n.module.rsplit('.', 1)[1])
        F['biv_package_imports'] = sorted(set(imported) & {'clayton', 'frank', 'gumbel', 'independence'})
    guard('bivariate', biv)

    # ---- multivariate ----
    def mv():
        tree, _ = _parse('multivariate/base.py')
        M = _cls(tree, 'Multivariate', 'multivariate/base.py')
        F['mv_from_dict_reads'] = _sub_reads(_meth(M, 'from_dict'), 'params', 'Multivariate.from_dict')
        F['mv_save_pickle'] = 'pickle.dump(self' in ast.unparse(_meth(M, 'save')) and 'pickle.load(' in ast.unparse(_meth(M, 'load'))
        tree, _ = _parse('multivariate/gaussian.py')
        G = _cls(tree, 'GaussianMultivariate', 'multivariate/gaussian.py')
        F['gm_to_dict'], _ = _return_dict_keys(_meth(G, 'to_dict'), 'GaussianMultivariate.to_dict')
        F['gm_to_dict_checks_fit'] = 'self.check_fit()' in ast.unparse(_meth(G, 'to_dict'))
        fd = _meth(G, 'from_dict')
        F['gm_from_dict_reads'] = _sub_reads(fd, 'copula_dict', 'GaussianMultivariate.from_dict')
        F['gm_from_dict_sets'] = _attr_sets(fd, 'instance')
        F['init']['GaussianMultivariate'], F['store_args']['GaussianMultivariate'] = _init_args(G)
    guard('multivariate-gaussian', mv)

    def vine():
        tree, _ = _parse('multivariate/vine.py')
        V = _cls(tree, 'VineCopula', 'multivariate/vine.py')
        F['vine_to_dict_unfitted'], F['vine_to_dict_fitted'], _ = _result_update_keys(_meth(V, 'to_dict'), 'VineCopula.to_dict')
        fd = _meth(V, 'from_dict')
        F['vine_from_dict_reads'] = _sub_reads(fd, 'vine_dict', 'VineCopula.from_dict')
        F['vine_from_dict_sets'] = _attr_sets(fd, 'instance')
        F['init']['VineCopula'], F['store_args']['VineCopula'] = _init_args(V)
        ds = ast.unparse(_meth(V, '_deserialize_trees'))
        F['vine_relinks'] = all(x in ds for x in ('previous = Tree.from_dict(tree_list[0])', 'Tree.from_dict(tree_dict, previous)', 'previous = tree'))
        tree, _ = _parse('multivariate/tree.py')
        T = _cls(tree, 'Tree', 'multivariate/tree.py')
        F['tree_to_dict_unfitted'], F['tree_to_dict_fitted'], _ = _result_update_keys(_meth(T, 'to_dict'), 'Tree.to_dict')
        reads = _sub_reads(_meth(T, 'from_dict'), 'tree_dict', 'Tree.from_dict')
        for k in _sub_reads(_meth(T, '_deserialize_previous_tree'), 'tree_dict', 'Tree._deserialize_previous_tree'):
            if k not in reads:
                reads.append(k)
        F['tree_from_dict_reads'] = reads
        F['tree_from_dict_sets'] = _attr_sets(_meth(T, 'from_dict'), 'instance')
        E = _cls(tree, 'Edge', 'multivariate/tree.py')
        keys, lit = _return_dict_keys(_meth(E, 'to_dict'), 'Edge.to_dict')
        F['edge_to_dict'] = keys
        vals = {k.value: ast.unparse(v) for k, v in zip(lit.keys, lit.values)}
        F['edge_raw_attrs'] = [k for k in keys if vals[k] == f'self.{k}']
        efd = _meth(E, 'from_dict')
        F['edge_from_dict_reads'] = _sub_reads(efd, 'edge_dict', 'Edge.from_dict', lists=_loop_lists(efd))
        init = _meth(E, '__init__')
        F['edge_set_attrs'] = [t.attr for n in ast.walk(init) if isinstance(n, ast.Assign) for t in n.targets
                               if isinstance(t, ast.Attribute) and ast.unparse(n.value) == 'set()']
    guard('multivariate-vine', vine)
    F['init_required'] = {k: v for k, v in REQUIRED.items()}
    for c in FAM_ORDER:
        if c not in F['init_required'] and 'ScipyModel' in F['init_required'] and c in F['init']:
            F['init_required'][c] = F['init_required']['ScipyModel']
    return F, problems


def _cs(s):
    return '"' + s.replace('"', '""') + '"'


def _cl(l):
    return '[' + '; '.join(_cs(x) for x in l) + ']'


def _cb(b):
    return 'true' if b else 'false'


def gen_facts_coq(F):
    L = ['(* GENERATED by tools/vf/serial.py from the AST of the tree under test -- regenerated on every run *)',
         'From Coq Require Import List String Bool.', 'Import ListNotations.', 'Open Scope string_scope.', '']

    def assoc(name, d, order):
        L.append(f'Definition {name} : list (string * list string) := [')
        L.append(';\n'.join(f'  ({_cs(c)}, {_cl(d[c])})' for c in order if c in d))
        L.append('].')

    def assocb(name, d, order):
        L.append(f'Definition {name} : list (string * bool) := [' + '; '.join(f'({_cs(c)}, {_cb(d[c])})' for c in order if c in d) + '].')
    assoc('gen_fit_keys', F['fit'], FAM_ORDER)
    assoc('gen_const_keys', F['const'], FAM_ORDER)
    assoc('gen_isconst_reads', F['isconst'], FAM_ORDER)
    assoc('gen_extract_reads', F['extract'], FAM_ORDER)
    assoc('gen_init_args', F['init'], FAM_ORDER + ['Univariate', 'GaussianMultivariate', 'VineCopula'])
    assoc('gen_init_required', F['init_required'], FAM_ORDER + ['Univariate', 'GaussianMultivariate', 'VineCopula'])
    assocb('gen_store_args', F['store_args'], FAM_ORDER + ['Univariate', 'GaussianMultivariate', 'VineCopula'])
    assocb('gen_own_set_params', F['own_set_params'], FAM_ORDER)
    for k in ('uni_to_dict_adds', 'uni_from_dict_pops', 'biv_to_dict', 'biv_from_dict_reads', 'biv_from_dict_sets',
              'biv_package_imports', 'mv_from_dict_reads', 'gm_to_dict', 'gm_from_dict_reads', 'gm_from_dict_sets',
              'vine_to_dict_unfitted', 'vine_to_dict_fitted', 'vine_from_dict_reads', 'vine_from_dict_sets',
              'tree_to_dict_unfitted', 'tree_to_dict_fitted', 'tree_from_dict_reads', 'tree_from_dict_sets',
              'edge_to_dict', 'edge_raw_attrs', 'edge_from_dict_reads', 'edge_set_attrs'):
        L.append(f'Definition gen_{k} : list string := {_cl(F[k])}.')
    for k in ('uni_to_dict_checks_fit', 'uni_wrapper_type_is_instance', 'uni_from_dict_sets_fitted', 'uni_from_dict_calls_set_params',
              'uni_save_pickle', 'scipy_get_params_copies', 'scipy_set_params_shape', 'biv_to_dict_checks_fit', 'biv_save_json', 'biv_from_dict_via_base',
              'mv_save_pickle', 'gm_to_dict_checks_fit', 'vine_relinks'):
        L.append(f'Definition gen_{k} : bool := {_cb(F[k])}.')
    return '\n'.join(L) + '\n'


# =====================================================================================================
# 2. Python values -> Coq literals; abstraction of the real objects into Model.Lifecycle states
# =====================================================================================================
class Unmodelled(Exception):
    """a real value/state that has no counterpart in the model (fail-closed: the obligation fails)"""


def q_of(x):
    f = Fraction(x)
    return f'({f.numerator} # {f.denominator})' if f >= 0 else f'(-{-f.numerator} # {f.denominator})'


def coq_str(s):
    if any(ord(c) > 126 or ord(c) < 32 for c in s):
        raise Unmodelled(f'non-printable string {s!r}')
    return '"' + s.replace('"', '""') + '"'


def has_enum(x):
    import pandas as pd
    if isinstance(x, enum.Enum):
        return True
    if isinstance(x, dict):
        return any(has_enum(v) for v in x.values())
    if isinstance(x, (list, tuple)):
        return any(has_enum(v) for v in x)
    if isinstance(x, np.ndarray) and x.dtype == object:
        return any(has_enum(v) for v in x.ravel().tolist())
    if isinstance(x, pd.Index):
        return False
    return False


def jv(x):
    """exact Coq `jv` literal of a Python value (floats as rationals, nan/inf as JNaN/JInf)"""
    import pandas as pd
    if x is None:
        return 'JNone'
    if isinstance(x, (bool, np.bool_)):
        return f'(JBool {"true" if x else "false"})'
    if isinstance(x, (int, np.integer)):
        return f'(JNum {q_of(int(x))})'
    if isinstance(x, (float, np.floating)):
        x = float(x)
        if x != x:
            return 'JNaN'
        if x in (float('inf'), float('-inf')):
            return f'(JInf {"true" if x > 0 else "false"})'
        return f'(JNum {q_of(x)})'
    if isinstance(x, str):
        return f'(JStr {coq_str(x)})'
    if isinstance(x, (np.ndarray, pd.Index, pd.Series)):
        return jv(x.tolist())
    if isinstance(x, (list, tuple)):
        return '(JList [' + '; '.join(jv(v) for v in x) + '])'
    if isinstance(x, dict):
        items = []
        for k, v in x.items():
            if not isinstance(k, str):
                raise Unmodelled(f'non-string dict key {k!r}')
            items.append(f'({coq_str(k)}, {jv(v)})')
        return '(JDict [' + '; '.join(items) + '])'
    if isinstance(x, (set, frozenset)):
        if not all(isinstance(v, (int, np.integer)) and v >= 0 for v in x):
            raise Unmodelled(f'set of non-naturals {x!r}')
        return '(JSet [' + '; '.join(f'{int(v)}%nat' for v in sorted(x)) + '])'
    raise Unmodelled(f'value of type {type(x).__name__}')


ARRAY_KEYS = ('U', 'u_matrix', 'tau_mat', 'tau_matrix', 'previous_tree')


def arr_token(x):
    """vine payload arrays (edge U, u-matrix, tau matrices) are opaque to the model (passed through unchanged): they are
    abstracted to a token that is injective on (shape, float64 bit patterns); None and small arrays stay exact"""
    import hashlib
    if x is None:
        return 'JNone'
    a = np.asarray(x)
    if a.dtype == object:
        if a.shape == () and a.item() is None:
            return 'JNone'
        raise Unmodelled('object array payload')
    a = np.ascontiguousarray(a, dtype=np.float64)
    if a.size < 8:
        return jv(a.tolist())
    h = hashlib.sha1(a.tobytes()).hexdigest()[:20]
    return f'(JStr "f64{list(a.shape)}:{h}")'.replace(', ', 'x')


def pv(x, key=None):
    """Coq `pv` literal (vine dicts): jv payloads, Enum members, lists/dicts that contain Enum members"""
    if key in ARRAY_KEYS:
        return f'(PJ {arr_token(x)})'
    if isinstance(x, enum.Enum):
        return f'(PEnum {coq_str(type(x).__name__)} {coq_str(x.name)})'
    if not has_enum(x):
        return f'(PJ {jv(x)})'
    if isinstance(x, dict):
        return '(PDict [' + '; '.join(f'({coq_str(k)}, {pv(v, k)})' for k, v in x.items()) + '])'
    if isinstance(x, (list, tuple)):
        return '(PList [' + '; '.join(pv(v) for v in x) + '])'
    raise Unmodelled(f'value of type {type(x).__name__} containing Enum members')


def pv_dict(d):
    """a vine / tree / edge dict itself is always a PDict (even when, unfitted, it holds no Enum member)"""
    return '(PDict [' + '; '.join(f'({coq_str(k)}, {pv(v, k)})' for k, v in d.items()) + '])'


KNOWN_SEEDS = [0, 1, 2, 3, 4, 5, 7, 9, 11, 42, 99, 123]
_SEED_STATES = {}


def rs_term(rs):
    """model random state `option rstate` of a real RandomState that has not been drawn from"""
    if rs is None:
        return 'None'
    st = rs.get_state()
    for s in KNOWN_SEEDS:
        if s not in _SEED_STATES:
            _SEED_STATES[s] = np.random.RandomState(s).get_state()
        ref = _SEED_STATES[s]
        if st[0] == ref[0] and np.array_equal(st[1], ref[1]) and st[2:] == ref[2:]:
            return f'(Some ({s}%Z, []))'
    raise Unmodelled('random state that is not a fresh RandomState(seed) of a known seed')


OV_NAMES = ('cumulative_distribution', 'percent_point', 'probability_density', 'sample')


def _b(x):
    return 'true' if x else 'false'


def _opt(x, f=lambda v: v):
    return 'None' if x is None else f'(Some {f(x)})'


def _params_term(p):
    if p is None:
        return 'None'
    if not isinstance(p, dict):
        raise Unmodelled('_params is not a dict')
    return '(Some [' + '; '.join(f'({coq_str(k)}, {jv(v)})' for k, v in p.items()) + '])'


def alpha_s(m, rs='real'):
    """sinst of a real ScipyModel instance.  rs='real' | 'none' (seed forgotten, for the behaviour comparison
    under equal random states)"""
    name = type(m).__name__
    if name not in FAM:
        raise Unmodelled(f'class {name}')
    d = m.__dict__
    const = getattr(m, '_constant_value', None)
    ov = 'mkOv ' + ' '.join(_b(k in d) for k in OV_NAMES)
    is_tg, is_kde = name == 'TruncatedGaussian', name == 'GaussianKDE'
    smin = jv(m.min) if is_tg else 'JNone'
    smax = jv(m.max) if is_tg else 'JNone'
    ss = jv(m._sample_size) if is_kde else 'JNone'
    bw = jv(m.bw_method) if is_kde else 'JNone'
    w = jv(m.weights) if is_kde else 'JNone'
    model = 'None'
    if '_model' in d:
        rec = getattr(d['_model'], '_vf_ctor', None)
        if rec is None:
            raise Unmodelled('scipy gaussian_kde object built outside the recording window')
        model = f'(Some (mkKm {jv(rec[0])} {jv(rec[1])} {jv(rec[2])}))'
    if '__args__' in d:
        stored = ('(Some ([' + '; '.join(jv(a) for a in d['__args__']) + '], [' +
                  '; '.join(f'({coq_str(k)}, {jv(v)})' for k, v in d['__kwargs__'].items()) + ']))')
    else:
        stored = 'None'
    rst = 'None' if rs == 'none' else rs_term(getattr(m, 'random_state', None))
    return (f'(mkS {FAM[name]} {_b(m.fitted)} {_params_term(m._params)} {_opt(const, jv)} ({ov}) {rst} '
            f'{smin} {smax} {ss} {bw} {w} {model} {stored})')


def _cand(c):
    if isinstance(c, str):
        return f'(CName {coq_str(c)})'
    if isinstance(c, type):
        if c.__name__ not in FAM:
            raise Unmodelled(f'candidate class {c.__name__}')
        return f'(CClass {FAM[c.__name__]})'
    return f'(CInst {alpha_s(c)})'


def _uarg(v):
    from copulas.univariate.base import BoundedType, ParametricType
    if isinstance(v, ParametricType):
        return '(UPar Parametric)' if v is ParametricType.PARAMETRIC else '(UPar NonParametric)'
    if isinstance(v, BoundedType):
        return {'UNBOUNDED': '(UBnd Unbounded)', 'SEMI_BOUNDED': '(UBnd SemiBounded)', 'BOUNDED': '(UBnd Bounded)'}[v.name]
    if isinstance(v, list) and v and all(isinstance(c, (str, type)) or hasattr(c, '_params') for c in v):
        return '(UCands [' + '; '.join(_cand(c) for c in v) + '])'
    return f'(UJ {jv(v)})'


def alpha_u(m, rs='real'):
    """uobj of a real Univariate object (family instance or selecting wrapper)"""
    if type(m).__name__ in FAM:
        return f'(OS {alpha_s(m, rs)})'
    if type(m).__name__ != 'Univariate':
        raise Unmodelled(f'class {type(m).__name__}')
    d = m.__dict__
    cands = '[' + '; '.join(_cand(c) for c in m.candidates) + ']'
    inst = m._instance
    stored = ('([' + '; '.join(_uarg(a) for a in d['__args__']) + '], [' +
              '; '.join(f'({coq_str(k)}, {_uarg(v)})' for k, v in d['__kwargs__'].items()) + '])')
    rst = 'None' if rs == 'none' else rs_term(m.random_state)
    return (f'(OU (mkU {cands} {rst} {jv(m.selection_sample_size)} {_b(m.fitted)} '
            f'{_opt(inst, lambda i: alpha_s(i, rs))} {stored}))')


def alpha_b(b, rs='real'):
    name = type(b).__name__
    cls = 'None' if name == 'Bivariate' else f'(Some {CTYPE[name]})'
    has_rs = 'random_state' in b.__dict__
    rst = 'None' if (rs == 'none' or not has_rs) else rs_term(b.random_state)
    return f'(mkB {cls} {jv(b.theta)} {jv(b.tau)} {rst} {_b(has_rs)})'


def world_term():
    """bworld of the CURRENT interpreter state of the bivariate package"""
    from copulas.bivariate import Bivariate, Clayton, Frank, Gumbel
    subs = [('Clayton', Clayton), ('Frank', Frank), ('Gumbel', Gumbel)]
    if 'copulas.bivariate.independence' in sys.modules:
        subs.append(('Independence', sys.modules['copulas.bivariate.independence'].Independence))
    own = [n for n, c in subs if '_subclasses' in c.__dict__]
    for n, c in subs:
        if '_subclasses' in c.__dict__ and c.__dict__['_subclasses']:
            raise Unmodelled(f'{n} owns a non-empty subclass cache')
    return (f'(mkBW {_b(bool(Bivariate.__dict__.get("_subclasses")))} [{"; ".join(own)}] '
            f'{_b("copulas.bivariate.independence" in sys.modules)})')


WORLD_SHOW = ('(fun w => (bw_base_cached w, map (fun t => existsb (ctype_eqb t) (bw_own_empty w)) '
              '[Clayton; Frank; Gumbel; Independence], bw_indep_imported w))')


def world_show_literal():
    """what WORLD_SHOW prints for the current interpreter state"""
    from copulas.bivariate import Bivariate, Clayton, Frank, Gumbel
    own = ['_subclasses' in c.__dict__ for c in (Clayton, Frank, Gumbel)]
    ind = sys.modules.get('copulas.bivariate.independence')
    own.append(bool(ind) and '_subclasses' in ind.Independence.__dict__)
    return (f'({_b(bool(Bivariate.__dict__.get("_subclasses")))}, [{"; ".join(_b(x) for x in own)}], {_b(bool(ind))})')


def _proto(p):
    if isinstance(p, str):
        return f'(PName {coq_str(p)})'
    if isinstance(p, type):
        if p.__name__ == 'Univariate':
            return 'PWrapperCls'
        if p.__name__ in FAM:
            return f'(PFamCls {FAM[p.__name__]})'
        raise Unmodelled(f'distribution class {p.__name__}')
    if type(p).__name__ in FAM:
        return f'(PInstS {alpha_s(p)})'
    raise Unmodelled(f'distribution prototype {type(p).__name__}')


def _dist(d):
    if isinstance(d, dict):
        return '(DMap [' + '; '.join(f'({jv(k)}, {_proto(v)})' for k, v in d.items()) + '])'
    return f'(DOne {_proto(d)})'


def _garg(k, v):
    if k == 'distribution':
        if isinstance(v, str):
            return f'(GJ {jv(v)})'
        return f'(GDist {_dist(v)})'
    return f'(GJ {jv(v)})'


def alpha_g(g, rs='real'):
    d = g.__dict__
    cols = 'None' if g.columns is None else '(Some [' + '; '.join(jv(c) for c in g.columns) + '])'
    us = 'None' if g.univariates is None else '(Some [' + '; '.join(alpha_u(u, rs) for u in g.univariates) + '])'
    if g.correlation is None:
        corr = 'None'
    else:
        rows = g.correlation.to_numpy().tolist()
        corr = '(Some [' + '; '.join('[' + '; '.join(jv(x) for x in r) + ']' for r in rows) + '])'
    names = ['distribution', 'random_state']
    stored = ('([' + '; '.join(_garg(names[i], a) for i, a in enumerate(d['__args__'])) + '], [' +
              '; '.join(f'({coq_str(k)}, {_garg(k, v)})' for k, v in d['__kwargs__'].items()) + '])')
    rst = 'None' if rs == 'none' else rs_term(g.random_state)
    return f'(mkG {_dist(g.distribution)} {rst} {_b(g.fitted)} {cols} {us} {corr} {stored})'


TTYPE = {'CenterTree': 'Center', 'DirectTree': 'Direct', 'RegularTree': 'Regular'}


def alpha_edge(e):
    ps = 'None' if e.parents is None else '(Some [' + '; '.join(alpha_edge(p) for p in e.parents) + '])'
    name = e.name.name if isinstance(e.name, enum.Enum) else e.name
    if not isinstance(name, str):
        raise Unmodelled('edge name')
    return (f'(mkE {int(e.index)} {int(e.L)} {int(e.R)} [{"; ".join(str(int(x)) for x in sorted(e.D))}] {ps} '
            f'[{"; ".join(str(int(x)) for x in e.neighbors)}] {coq_str(name)} {jv(e.theta)} {jv(e.tau)} '
            f'{arr_token(e.U)} {jv(e.likelihood)})')


def alpha_tree(t, trees):
    ty = TTYPE[type(t).__name__]
    if not t.fitted:
        return f'(mkTree {ty} None)'
    pt = t.previous_tree
    if pt is None:
        prev = 'PrevNone'
    elif isinstance(pt, np.ndarray):
        prev = f'(PrevArr {arr_token(pt)})'
    else:
        idx = [i for i, x in enumerate(trees) if x is pt]
        if len(idx) != 1:
            raise Unmodelled('previous_tree is not an object of the vine\'s tree list')
        prev = f'(PrevObj {idx[0]})'
    return (f'(mkTree {ty} (Some (mkTB {int(t.level)} {int(t.n_nodes)} {arr_token(t.tau_matrix)} {prev} '
            f'[{"; ".join(alpha_edge(e) for e in t.edges)}])))')


def alpha_v(v, rs='real'):
    rst = 'None' if rs == 'none' else rs_term(v.random_state)
    if not v.fitted:
        return f'(mkVine {jv(v.vine_type)} {rst} None)'
    trees = '[' + '; '.join(alpha_tree(t, v.trees) for t in v.trees) + ']'
    unis = '[' + '; '.join(alpha_s(u) for u in v.unis) + ']'
    return (f'(mkVine {jv(v.vine_type)} {rst} (Some (mkVB {int(v.n_sample)} {int(v.n_var)} {int(v.depth)} '
            f'{int(v.truncated)} {trees} {arr_token(v.tau_mat)} {arr_token(v.u_matrix)} {unis} {jv(v.columns)})))')


ERR = {'NotFittedError': 'NotFitted', 'ValueError': 'ValueErr', 'TypeError': 'TypeErr', 'AttributeError': 'AttributeErr',
       'NotImplementedError': 'NotImplementedErr', 'KeyError': 'KeyErr', 'ImportError': 'ImportErr',
       'ModuleNotFoundError': 'ImportErr', 'LinAlgError': 'LinAlgErr'}


def result_term(fn, show, ty):
    """run fn(); Coq `result ty` literal: Ok (show value) | Err <class>"""
    try:
        v = fn()
    except Exception as ex:       # noqa: BLE001 - the exception class IS the observation
        name = type(ex).__name__
        if name not in ERR:
            raise Unmodelled(f'exception {name}: {ex}')
        return f'(@Err {ty} {ERR[name]})', ex
    return f'(Ok {show(v)})', v


# ---------- recording subclass of scipy's gaussian_kde (what the scipy object was built from) ----------
from scipy.stats import gaussian_kde as _scipy_gaussian_kde  # noqa: E402


class RecKDE(_scipy_gaussian_kde):
    """records its constructor arguments; otherwise scipy's class (picklable: module-level)"""

    def __init__(self, dataset, bw_method=None, weights=None):
        self._vf_ctor = (np.array(dataset, dtype=float).tolist() if not isinstance(dataset, list) else
                         [list(r) if isinstance(r, (list, tuple)) else r for r in dataset],
                         bw_method if not isinstance(bw_method, np.ndarray) else bw_method.tolist(),
                         None if weights is None else np.asarray(weights, dtype=float).tolist())
        super().__init__(dataset, bw_method=bw_method, weights=weights)


class record_kde:
    """context manager: copulas.univariate.gaussian_kde.gaussian_kde := RecKDE (restored on exit)"""

    def __enter__(self):
        import copulas.univariate.gaussian_kde as mod
        self.mod, self.orig = mod, mod.gaussian_kde
        mod.gaussian_kde = RecKDE
        return self

    def __exit__(self, *a):
        self.mod.gaussian_kde = self.orig
        return False


# =====================================================================================================
# 3. Canonical forms and bitwise behaviour comparison (the oracles)
# =====================================================================================================
def canon(x):
    """hashable canonical form: dict order kept, sets sorted, floats by bit pattern (nan == nan, -0.0 != 0.0),
    numpy scalars/arrays/Index as Python numbers/lists, Enum members by name"""
    import pandas as pd
    if isinstance(x, dict):
        return ('dict', tuple((canon(k), canon(v)) for k, v in x.items()))
    if isinstance(x, (np.ndarray, pd.Index, pd.Series)):
        return canon(x.tolist())
    if isinstance(x, pd.DataFrame):
        return canon(x.to_numpy().tolist())
    if isinstance(x, (list, tuple)):
        return ('list', tuple(canon(v) for v in x))
    if isinstance(x, (set, frozenset)):
        return ('set', tuple(sorted(canon(v) for v in x)))
    if isinstance(x, enum.Enum):
        return ('enum', type(x).__name__, x.name)
    if isinstance(x, (bool, np.bool_)):
        return ('bool', bool(x))
    if isinstance(x, (int, np.integer)):
        return ('int', int(x))
    if isinstance(x, (float, np.floating)):
        return ('float', float(x).hex())
    if x is None:
        return ('none',)
    if isinstance(x, str):
        return ('str', x)
    return ('other', type(x).__name__, repr(x))


def canon_unordered(c):
    """canonical form with dict keys sorted (Python dict equality ignores the order)"""
    if c[0] == 'dict':
        return ('dict', tuple(sorted((k, canon_unordered(v)) for k, v in c[1])))
    if c[0] in ('list', 'set'):
        return (c[0], tuple(canon_unordered(v) for v in c[1]))
    return c


def canon_diff(a, b, path=''):
    """first differences between two canonical forms (for messages)"""
    if a == b:
        return []
    if a[0] != b[0]:
        return [(path, str(a)[:80], str(b)[:80])]
    if a[0] == 'dict':
        ka, kb = [k for k, _ in a[1]], [k for k, _ in b[1]]
        if ka != kb:
            return [(path + '/<keys>', str([k[1] for k in ka])[:120], str([k[1] for k in kb])[:120])]
        out = []
        for (k, va), (_, vb) in zip(a[1], b[1]):
            out += canon_diff(va, vb, f'{path}/{k[1]}')
        return out[:4]
    if a[0] in ('list', 'set'):
        if len(a[1]) != len(b[1]):
            return [(path + '/<len>', len(a[1]), len(b[1]))]
        out = []
        for i, (va, vb) in enumerate(zip(a[1], b[1])):
            out += canon_diff(va, vb, f'{path}[{i}]')
            if len(out) >= 4:
                break
        return out
    return [(path, str(a)[:80], str(b)[:80])]


def call(fn, *args):
    """('ok', shape, bytes) of the float64 result, or ('err', exception class)"""
    import warnings
    try:
        with np.errstate(all='ignore'), warnings.catch_warnings():
            warnings.simplefilter('ignore')
            r = fn(*args)
    except Exception as ex:       # noqa: BLE001
        return ('err', type(ex).__name__)
    import pandas as pd
    if isinstance(r, (pd.DataFrame, pd.Series)):
        r = r.to_numpy()
    a = np.ascontiguousarray(np.asarray(r, dtype=np.float64))
    return ('ok', a.shape, a.tobytes())


def show_call(c):
    if c[0] == 'err':
        return f'raises {c[1]}'
    a = np.frombuffer(c[2], dtype=np.float64)
    return 'values ' + ', '.join(repr(float(x)) for x in a[:6]) + (' ...' if len(a) > 6 else '')


class _NanEmptyNumpy:
    """numpy proxy whose `empty` is NaN-filled: reads of cells that were never written (Tree.get_likelihood, F8/F10 of
    C17) become deterministic NaNs instead of memory garbage"""

    def __getattr__(self, name):
        return getattr(np, name)

    @staticmethod
    def empty(shape, *a, **k):
        return np.full(shape, np.nan)


class nan_empty:
    """context manager: inside copulas.multivariate.{tree,vine} `np.empty` returns NaN-filled arrays (restored on exit)"""

    def __enter__(self):
        import copulas.multivariate.tree as t
        import copulas.multivariate.vine as v
        self.mods = [(t, t.np), (v, v.np)]
        for m, _ in self.mods:
            m.np = _NanEmptyNumpy()
        return self

    def __exit__(self, *a):
        for m, orig in self.mods:
            m.np = orig
        return False
