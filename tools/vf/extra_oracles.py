"""History / recovery oracles added after seeded changes were missed (see DESIGN.md section 0, seeded-change log).
They state the property on the real classes for multi-step histories and for tables with a known generating law."""
import numpy as np


def _tables(seed):
    import pandas as pd
    rs = np.random.RandomState(seed)
    z1 = rs.multivariate_normal([0, 0, 0], [[1, .85, .3], [.85, 1, .4], [.3, .4, 1]], 400)
    z2 = rs.multivariate_normal([0, 0, 0], [[1, -.85, -.2], [-.85, 1, .5], [-.2, .5, 1]], 400)
    cols = ['z', 'm', 'a']      # deliberately not alphabetical
    return pd.DataFrame(z1, columns=cols), pd.DataFrame(z2, columns=cols)


def _capture_cond(g, n, conditions):
    rec = {}
    orig = np.random.multivariate_normal

    def fake(mean, cov, size=None, *a, **k):
        rec['mean'], rec['cov'] = np.array(mean, dtype=float), np.array(cov, dtype=float)
        return orig(mean, cov, size, *a, **k)
    np.random.multivariate_normal = fake
    try:
        out = g.sample(n, conditions=conditions)
    finally:
        np.random.multivariate_normal = orig
    return out, rec


def gm_refit_history(ctx, which):
    """fit(data1); query; fit(data2); query  must equal  fresh fit(data2); query   (pdf/cdf for C13, conditional law for C12)."""
    from copulas.multivariate import GaussianMultivariate
    from copulas.univariate import GaussianUnivariate
    d1, d2 = _tables(ctx.seed + 77)
    pts = d2.iloc[:7]
    cond = {'m': 0.8}
    rep = ("import numpy as np, pandas as pd\nfrom vf.extra_oracles import _tables, _capture_cond\nfrom copulas.multivariate import GaussianMultivariate\n"
           "from copulas.univariate import GaussianUnivariate\n"
           f"d1,d2=_tables({ctx.seed + 77})\npts=d2.iloc[:7]\n"
           "g=GaussianMultivariate(distribution=GaussianUnivariate, random_state=3); g.fit(d1); g.probability_density(pts); g.sample(4, conditions={'m':0.8}); g.fit(d2)\n"
           "f=GaussianMultivariate(distribution=GaussianUnivariate, random_state=3); f.fit(d2)\n"
           "assert np.allclose(g.probability_density(pts), f.probability_density(pts), rtol=1e-12, atol=0)\n"
           "a=_capture_cond(g,4,{'m':0.8})[1]; b=_capture_cond(f,4,{'m':0.8})[1]\nassert np.allclose(a['mean'],b['mean'],atol=1e-12) and np.allclose(a['cov'],b['cov'],atol=1e-12)\n")
    g = GaussianMultivariate(distribution=GaussianUnivariate, random_state=3)
    g.fit(d1)
    g.probability_density(pts)
    g.cumulative_distribution(pts.iloc[:2])
    g.sample(4, conditions=cond)
    g.fit(d2)
    f = GaussianMultivariate(distribution=GaussianUnivariate, random_state=3)
    f.fit(d2)
    ctx.case(('refit-history', which), {'history': 'fit(d1); pdf; cdf; sample(cond); fit(d2); queries vs fresh fit(d2)'})
    if which == 'C13':
        a, b = g.probability_density(pts), f.probability_density(pts)
        la, lb = g.log_probability_density(pts), f.log_probability_density(pts)
        ok = np.allclose(a, b, rtol=1e-12, atol=0) and np.allclose(la, lb, rtol=1e-12, atol=1e-12)
        ctx.obligation('oracle:refit-history:pdf', ok, 'correspondence', f'{a} vs {b}')
        if not ok:
            ctx.violation('oracle:refit-history:density-uses-stale-state',
                          f'probability_density after fit(d1); query; fit(d2) differs from a fresh model fitted on d2: {a[:3]} vs {b[:3]}',
                          {'refit': a.tolist(), 'fresh': b.tolist(), 'repro': rep})
    else:
        (_, ra), (_, rb) = _capture_cond(g, 4, cond), _capture_cond(f, 4, cond)
        ok = np.allclose(ra['mean'], rb['mean'], atol=1e-12) and np.allclose(ra['cov'], rb['cov'], atol=1e-12)
        ctx.obligation('oracle:refit-history:conditional-law', ok, 'correspondence', f"{ra} vs {rb}")
        if not ok:
            ctx.violation('oracle:refit-history:conditional-law-uses-stale-state',
                          f"conditional mean/covariance after fit(d1); sample(cond); fit(d2) differ from a fresh model fitted on d2: mean {ra['mean']} vs {rb['mean']}",
                          {'refit_mean': ra['mean'].tolist(), 'fresh_mean': rb['mean'].tolist(), 'repro': rep})


def gm_recovery(ctx):
    """C01 (search only): a table drawn from a known Gaussian copula, with a constant column FIRST and a column with a large offset and
    a small spread: the fitted correlation must be within a 7-sigma band of the generating one, the small-spread column must not be
    collapsed to a constant, the constant column must be reproduced exactly."""
    import pandas as pd
    from copulas.multivariate import GaussianMultivariate
    from copulas.univariate import GaussianUnivariate
    rs = np.random.RandomState(ctx.seed + 101)
    n = 2000
    rho = np.array([[1, .8, -.5], [.8, 1, -.3], [-.5, -.3, 1]])
    z = rs.multivariate_normal([0, 0, 0], rho, n)
    X = pd.DataFrame({'batch': np.full(n, 7.0), 'x': z[:, 0], 'y': 1e6 + 0.5 * z[:, 1], 'w': np.exp(z[:, 2])})
    g = GaussianMultivariate(distribution=GaussianUnivariate, random_state=5)
    g.fit(X)
    C = g.correlation
    S = g.sample(500)
    band = 0.15          # normal-scores correlation estimator: sd <= 1/sqrt(n) = 0.022; 0.15 is > 6.7 sd
    rep = ("import numpy as np, pandas as pd\nfrom copulas.multivariate import GaussianMultivariate\nfrom copulas.univariate import GaussianUnivariate\n"
           f"rs=np.random.RandomState({ctx.seed + 101}); n=2000\nrho=np.array([[1,.8,-.5],[.8,1,-.3],[-.5,-.3,1]])\nz=rs.multivariate_normal([0,0,0],rho,n)\n"
           "X=pd.DataFrame({'batch':np.full(n,7.0),'x':z[:,0],'y':1e6+0.5*z[:,1],'w':np.exp(z[:,2])})\n"
           "g=GaussianMultivariate(distribution=GaussianUnivariate, random_state=5); g.fit(X); C=g.correlation; S=g.sample(500)\nprint(C)\n"
           "assert abs(C.loc['x','y']-0.8)<0.15 and abs(C.loc['x','w']+0.5)<0.2 and S['y'].std()>0.1 and (S['batch']==7.0).all()\n")
    bad = []
    if abs(C.loc['x', 'y'] - 0.8) > band:
        bad.append(f"fitted corr(x,y)={C.loc['x','y']:.3f} vs generating 0.8")
    if abs(C.loc['x', 'w'] + 0.5) > band + 0.05:      # exp() marginal fitted by a Gaussian: scores only monotone-related
        bad.append(f"fitted corr(x,w)={C.loc['x','w']:.3f} vs generating -0.5")
    if not (S['y'].std() > 0.1):
        bad.append(f"column y (1e6 + 0.5 z, {X['y'].nunique()} distinct values) is sampled with std {S['y'].std():.2e}: collapsed to a constant")
    if not (S['batch'] == 7.0).all():
        bad.append('constant column not reproduced exactly')
    if list(S.columns) != list(X.columns) or S.isna().any().any():
        bad.append('schema / missing values')
    ctx.case(('recovery', 'const-first+small-spread'), {'columns': list(X.columns), 'n': n})
    ctx.obligation('oracle:recovery:const-first-small-spread', not bad, 'correspondence', '; '.join(bad))
    if bad:
        ctx.violation('search:recovery:const-first-small-spread', 'Gaussian-copula table [const, x, 1e6+0.5z, exp(z)]: ' + '; '.join(bad), {'problems': bad, 'repro': rep})


def unfitted_edge_inputs(ctx):
    """C19: every query of every UNFITTED univariate model must raise NotFittedError also for unusual but valid inputs
    (boundary-only probabilities, empty arrays, a single value) — added after seed C19_b (check_fit moved behind an early return)."""
    from copulas import univariate as U
    from copulas.errors import NotFittedError
    inputs = {'boundary': np.array([0.0, 1.0]), 'eps': np.array([1e-9, 1 - 1e-9]), 'interior': np.array([0.25, 0.5]),
              'single': np.array([0.5]), 'empty': np.array([])}
    classes = [U.GaussianUnivariate, U.UniformUnivariate, U.GammaUnivariate, U.BetaUnivariate, U.StudentTUnivariate,
               U.TruncatedGaussian, U.GaussianKDE, U.LogLaplace, U.Univariate]
    for cls in classes:
        for meth in ('cumulative_distribution', 'probability_density', 'percent_point', 'log_probability_density', 'cdf', 'pdf', 'ppf'):
            for kind, x in inputs.items():
                m = cls()
                if not hasattr(m, meth):
                    continue
                try:
                    r = getattr(m, meth)(x.copy())
                    outcome = f'returned {np.asarray(r).tolist()!r}'
                except NotFittedError:
                    outcome = None
                except Exception as ex:
                    outcome = f'raised {type(ex).__name__}: {ex}'
                ctx.case(('unfitted-edge', cls.__name__, meth, kind), None)
                if outcome is not None:
                    ctx.obligation(f'oracle:unfitted-edge:{cls.__name__}.{meth}:{kind}', False, 'correspondence', outcome)
                    ctx.violation(f'unfitted:{cls.__name__}.{meth}:{kind}-input', f'unfitted {cls.__name__}().{meth}({x.tolist()}) {outcome} instead of raising NotFittedError',
                                  {'class': cls.__name__, 'method': meth, 'input': x.tolist(),
                                   'repro': (f"import numpy as np\nfrom copulas import univariate as U\nfrom copulas.errors import NotFittedError\n"
                                             f"try:\n    U.{cls.__name__}().{meth}(np.array({x.tolist()!r}))\n    raise SystemExit(1)\nexcept NotFittedError:\n    pass\n")})
    ctx.obligation('oracle:unfitted-edge-inputs', True, 'correspondence')


def constant_roundtrip(ctx):
    """C14: models fitted on CONSTANT data whose value is not exactly representable (0.1 x 100, 2.7 x 50, ...: the mean of n copies
    is not the value, np.std is ~1e-17) must survive to_dict/from_dict and JSON as the same point mass — added after seed C14_a."""
    import json
    from copulas import univariate as U
    probes = np.array([-1.0, 0.05, 0.1, 0.3, 2.7, 5.0])
    qs = np.array([0.1, 0.5, 0.9])
    for cls in (U.GaussianUnivariate, U.UniformUnivariate, U.GammaUnivariate, U.BetaUnivariate, U.StudentTUnivariate,
                U.TruncatedGaussian, U.GaussianKDE, U.LogLaplace):
        for c, n in ((0.1, 100), (2.7, 50), (0.1, 3), (1.0 / 3.0, 7)):
            m = cls()
            try:
                m.fit(np.full(n, c))
                d = m.to_dict()
                copies = {'dict': U.Univariate.from_dict(d), 'json': U.Univariate.from_dict(json.loads(json.dumps(d)))}
            except Exception as ex:
                ctx.violation(f'rt-const:{cls.__name__}:raises:{type(ex).__name__}', f'{cls.__name__} fitted on {n} copies of {c!r}: round trip raised {type(ex).__name__}: {ex}',
                              {'class': cls.__name__, 'constant': c, 'n': n, 'repro': f"import numpy as np\nfrom copulas import univariate as U\nm=U.{cls.__name__}(); m.fit(np.full({n},{c!r})); U.Univariate.from_dict(m.to_dict())\n"})
                continue
            ctx.case(('rt-const', cls.__name__, c, n), None)
            for path, k in copies.items():
                bad = []
                for meth, x in (('cumulative_distribution', probes), ('probability_density', probes), ('percent_point', qs)):
                    with np.errstate(all='ignore'):
                        a, b = np.asarray(getattr(m, meth)(x), dtype=float), np.asarray(getattr(k, meth)(x), dtype=float)
                    if not np.array_equal(a, b, equal_nan=True):
                        bad.append(f'{meth}: {a.tolist()} vs {b.tolist()}')
                if bad:
                    key = 'F25:studentt-constant-roundtrip:nonrepresentable' if cls is U.StudentTUnivariate else f'rt-const:{cls.__name__}:{path}'
                    ctx.violation(key, f'{cls.__name__} fitted on {n} copies of {c!r}: the {path} round trip changes the behaviour: ' + '; '.join(bad)[:300],
                                  {'class': cls.__name__, 'constant': c, 'n': n, 'path': path,
                                   'repro': (f"import numpy as np, json\nfrom copulas import univariate as U\nm=U.{cls.__name__}(); m.fit(np.full({n},{c!r}))\n"
                                             f"k=U.Univariate.from_dict(json.loads(json.dumps(m.to_dict())))\nx=np.array({probes.tolist()!r})\n"
                                             "a=m.probability_density(x); b=k.probability_density(x)\nprint(a,b)\nassert np.array_equal(a,b,equal_nan=True)\n")})
    ctx.obligation('oracle:constant-roundtrip', True, 'correspondence')


def univariate_refit_queries(ctx):
    """C03: fit(d1); QUERY; fit(d2) must answer like a fresh model fitted on d2 (a value cached by a query must not survive a re-fit)
    — added after seed C03_a (KDE lower bound cached on the first CDF evaluation)."""
    from copulas import univariate as U
    rs = np.random.RandomState(ctx.seed + 303)
    d1 = rs.normal(10.0, 1.0, 60)
    d2 = rs.normal(0.0, 3.0, 60)
    for cls, kw in ((U.GaussianUnivariate, {}), (U.UniformUnivariate, {}), (U.StudentTUnivariate, {}), (U.TruncatedGaussian, {}),
                    (U.GaussianKDE, {}), (U.GaussianKDE, {'bw_method': 'silverman'}), (U.GammaUnivariate, {}), (U.BetaUnivariate, {}), (U.LogLaplace, {})):
        a1, a2 = (np.abs(d1) + 0.1, np.abs(d2) + 0.1) if cls in (U.GammaUnivariate, U.LogLaplace) else (d1, d2)
        name = cls.__name__ + (str(kw) if kw else '')
        try:
            m = cls(**kw)
            m.fit(a1)
            xs1 = np.linspace(a1.min(), a1.max(), 5)
            with np.errstate(all='ignore'):
                m.cumulative_distribution(xs1); m.probability_density(xs1); m.percent_point(np.array([0.2, 0.8]))
            m.fit(a2)
            xs = np.linspace(a2.min() - 1, a2.max() + 1, 9)
            bad = []
            if cls is U.GaussianKDE:
                # a re-fitted KDE resamples its dataset (known finding F7, property C19), so it cannot be compared with a fresh fit:
                # compare it with the kernel estimate of ITS OWN stored dataset instead (catches values cached by the earlier queries)
                from scipy.stats import gaussian_kde
                ds = np.asarray(m._params['dataset'], dtype=float).ravel()
                ref = gaussian_kde(ds, bw_method=kw.get('bw_method'))
                with np.errstate(all='ignore'):
                    a = np.asarray(m.cumulative_distribution(xs), dtype=float)
                    b = np.array([ref.integrate_box_1d(-np.inf, t) for t in xs])
                    pa, pb = np.asarray(m.probability_density(xs), dtype=float), ref.evaluate(xs)
                    q = np.asarray(m.percent_point(np.array([0.05, 0.5, 0.95])), dtype=float)
                    cq = np.array([ref.integrate_box_1d(-np.inf, t) for t in q])
                if not np.allclose(a, b, atol=1e-6):
                    bad.append(f'cumulative_distribution: {a.tolist()[:4]} vs kernel estimate of its own dataset {b.tolist()[:4]}')
                if not np.allclose(pa, pb, rtol=1e-9, atol=1e-12):
                    bad.append(f'probability_density: {pa.tolist()[:4]} vs {pb.tolist()[:4]}')
                if not np.allclose(cq, [0.05, 0.5, 0.95], atol=1e-5):
                    bad.append(f'cdf(percent_point([.05,.5,.95])) = {cq.tolist()}')
            else:
                f = cls(**kw)
                f.fit(a2)
                for meth, x in (('cumulative_distribution', xs), ('probability_density', xs), ('percent_point', np.array([0.05, 0.5, 0.95]))):
                    with np.errstate(all='ignore'):
                        a, b = np.asarray(getattr(m, meth)(x), dtype=float), np.asarray(getattr(f, meth)(x), dtype=float)
                    if not np.allclose(a, b, rtol=1e-9, atol=1e-12, equal_nan=True):
                        bad.append(f'{meth}: {a.tolist()[:4]} vs fresh {b.tolist()[:4]}')
        except Exception as ex:
            bad = [f'raised {type(ex).__name__}: {ex}']
        ctx.case(('refit-queries', name), None)
        if bad:
            ctx.violation(f'search:refit-after-queries:{name}', f'{name}: fit(d1); cdf/pdf/ppf; fit(d2) differs from a fresh model fitted on d2: ' + '; '.join(bad)[:400],
                          {'class': name, 'repro': (f"import numpy as np\nfrom copulas import univariate as U\nrs=np.random.RandomState({ctx.seed + 303}); d1=rs.normal(10,1,60); d2=rs.normal(0,3,60)\n"
                                                    + ("d1,d2=np.abs(d1)+.1,np.abs(d2)+.1\n" if cls in (U.GammaUnivariate, U.LogLaplace) else "")
                                                    + f"m=U.{cls.__name__}(**{kw!r}); m.fit(d1); m.cumulative_distribution(np.linspace(d1.min(),d1.max(),5)); m.fit(d2)\nf=U.{cls.__name__}(**{kw!r}); f.fit(d2)\n"
                                                    "x=np.linspace(d2.min()-1,d2.max()+1,9)\na=m.cumulative_distribution(x); b=f.cumulative_distribution(x)\nprint(a,b)\nassert np.allclose(a,b,rtol=1e-9,atol=1e-12)\n")})
    ctx.obligation('oracle:refit-after-queries', True, 'correspondence')


def truncated_zero_bound(ctx):
    """C04: a user-supplied truncation bound that is exactly 0 (falsy) must be honoured — added after seed C04_a (`self.min or ...`)."""
    from copulas.univariate import TruncatedGaussian
    from scipy.stats import truncnorm
    rs = np.random.RandomState(ctx.seed + 404)
    for lo, hi, loc in ((0.0, 10.0, 5.0), (-10.0, 0.0, -5.0), (0.0, 1.0, 0.6)):
        sc = (hi - lo) / 10.0
        x = truncnorm((lo - loc) / sc, (hi - loc) / sc, loc, sc).rvs(400, random_state=rs)
        m = TruncatedGaussian(minimum=lo, maximum=hi)
        m.fit(x)
        p = m._params
        sup = (p['loc'] + p['a'] * p['scale'], p['loc'] + p['b'] * p['scale'])
        ok = abs(sup[0] - lo) <= 1e-9 * (1 + abs(lo)) and abs(sup[1] - hi) <= 1e-9 * (1 + abs(hi))
        ctx.case(('tg-zero-bound', lo, hi), {'bounds': [lo, hi], 'fitted_support': list(map(float, sup))})
        ctx.obligation(f'oracle:truncated-zero-bound:{lo}:{hi}', ok, 'correspondence', f'support {sup}')
        if not ok:
            ctx.violation('search:user-bounds-not-honoured:truncated:zero-bound', f'TruncatedGaussian(minimum={lo}, maximum={hi}) fitted support is {sup}',
                          {'bounds': [lo, hi], 'support': list(map(float, sup)),
                           'repro': (f"import numpy as np\nfrom scipy.stats import truncnorm\nfrom copulas.univariate import TruncatedGaussian\n"
                                     f"x=truncnorm({(lo - loc) / sc!r},{(hi - loc) / sc!r},{loc!r},{sc!r}).rvs(400, random_state=np.random.RandomState(1))\n"
                                     f"m=TruncatedGaussian(minimum={lo!r}, maximum={hi!r}); m.fit(x); p=m._params\ns=(p['loc']+p['a']*p['scale'], p['loc']+p['b']*p['scale'])\nprint(s)\n"
                                     f"assert abs(s[0]-{lo!r})<1e-6 and abs(s[1]-{hi!r})<1e-6\n")})
