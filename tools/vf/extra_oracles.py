"""History / recovery oracles added after seeded changes were missed (see DESIGN.md section 0, seeded-change log).
They state the property on the real classes for multi-step histories and for tables with a known generating law."""
import numpy as np


def _tables(seed, variant='other'):
    import pandas as pd
    rs = np.random.RandomState(seed)
    z1 = rs.multivariate_normal([0, 0, 0], [[1, .85, .3], [.85, 1, .4], [.3, .4, 1]], 400)
    z2 = rs.multivariate_normal([0, 0, 0], [[1, -.85, -.2], [-.85, 1, .5], [-.2, .5, 1]], 400)
    cols = ['z', 'm', 'a']      # deliberately not alphabetical
    if variant == 'same-margins':
        # d2 carries the dependence of z2 on EXACTLY the column multisets of d1 (dyadic values k/64: sums, means, min/max, sorted
        # values and hence every fitted marginal agree bit for bit); only the dependence differs
        z1 = np.round(z1 * 64) / 64
        z2 = np.column_stack([np.sort(z1[:, j])[np.argsort(np.argsort(z2[:, j]))] for j in range(3)])
    return pd.DataFrame(z1, columns=cols), pd.DataFrame(z2, columns=cols)


def _capture_cond(g, n, conditions):
    rec = {}
    orig = np.random.multivariate_normal

    def fake(mean, cov, size=None, *a, **k):
        rec['mean'], rec['cov'] = np.array(mean, dtype=float), np.array(cov, dtype=float)
        return orig(mean, cov, size, *a, **k)
    np.random.multivariate_normal = fake
    try:
        out = g.sample(n, conditions=conditions)
    finally:
        np.random.multivariate_normal = orig
    return out, rec


def _gm_refit_history(ctx, which, variant):
    """fit(data1); query; fit(data2); query  must equal  fresh fit(data2); query   (pdf/cdf for C13, conditional law for C12)."""
    from copulas.multivariate import GaussianMultivariate
    from copulas.univariate import GaussianUnivariate
    d1, d2 = _tables(ctx.seed + 77, variant)
    pts = d2.iloc[:7]
    cond = {'m': 0.8}
    rep = ("import numpy as np, pandas as pd\nfrom vf.extra_oracles import _tables, _capture_cond\nfrom copulas.multivariate import GaussianMultivariate\n"
           "from copulas.univariate import GaussianUnivariate\n"
           f"d1,d2=_tables({ctx.seed + 77}, {variant!r})\npts=d2.iloc[:7]\n"
           "g=GaussianMultivariate(distribution=GaussianUnivariate, random_state=3); g.fit(d1); g.probability_density(pts); g.sample(4, conditions={'m':0.8}); g.fit(d2)\n"
           "f=GaussianMultivariate(distribution=GaussianUnivariate, random_state=3); f.fit(d2)\n"
           "assert np.allclose(g.probability_density(pts), f.probability_density(pts), rtol=1e-12, atol=0)\n"
           "a=_capture_cond(g,4,{'m':0.8})[1]; b=_capture_cond(f,4,{'m':0.8})[1]\nassert np.allclose(a['mean'],b['mean'],atol=1e-12) and np.allclose(a['cov'],b['cov'],atol=1e-12)\n")
    g = GaussianMultivariate(distribution=GaussianUnivariate, random_state=3)
    g.fit(d1)
    g.probability_density(pts)
    g.cumulative_distribution(pts.iloc[:2])
    g.sample(4, conditions=cond)
    g.fit(d2)
    f = GaussianMultivariate(distribution=GaussianUnivariate, random_state=3)
    f.fit(d2)
    ctx.case(('refit-history', which, variant), {'history': 'fit(d1); pdf; cdf; sample(cond); fit(d2); queries vs fresh fit(d2)', 'second table': variant})
    if which == 'C13':
        a, b = g.probability_density(pts), f.probability_density(pts)
        la, lb = g.log_probability_density(pts), f.log_probability_density(pts)
        ok = np.allclose(a, b, rtol=1e-12, atol=0) and np.allclose(la, lb, rtol=1e-12, atol=1e-12)
        ctx.obligation(f'oracle:refit-history:pdf:{variant}', ok, 'correspondence', f'{a} vs {b}')
        if not ok:
            ctx.violation('oracle:refit-history:density-uses-stale-state',
                          f'probability_density after fit(d1); query; fit(d2) differs from a fresh model fitted on d2: {a[:3]} vs {b[:3]}',
                          {'refit': a.tolist(), 'fresh': b.tolist(), 'repro': rep})
    else:
        (_, ra), (_, rb) = _capture_cond(g, 4, cond), _capture_cond(f, 4, cond)
        ok = np.allclose(ra['mean'], rb['mean'], atol=1e-12) and np.allclose(ra['cov'], rb['cov'], atol=1e-12)
        ctx.obligation(f'oracle:refit-history:conditional-law:{variant}', ok, 'correspondence', f"{ra} vs {rb}")
        if not ok:
            ctx.violation('oracle:refit-history:conditional-law-uses-stale-state',
                          f"conditional mean/covariance after fit(d1); sample(cond); fit(d2) differ from a fresh model fitted on d2: mean {ra['mean']} vs {rb['mean']}",
                          {'refit_mean': ra['mean'].tolist(), 'fresh_mean': rb['mean'].tolist(), 'repro': rep})


def gm_refit_history(ctx, which):
    """second table: another law ('other'), and a table with exactly the margins of the first one but another dependence ('same-margins':
    no fingerprint of the margins / labels / shape can tell the two fits apart)"""
    for variant in ('other', 'same-margins'):
        _gm_refit_history(ctx, which, variant)


def gm_recovery(ctx):
    """C01 (search only): a table drawn from a known Gaussian copula, with a constant column FIRST and a column with a large offset and
    a small spread: the fitted correlation must be within a 7-sigma band of the generating one, the small-spread column must not be
    collapsed to a constant, the constant column must be reproduced exactly."""
    import pandas as pd
    from copulas.multivariate import GaussianMultivariate
    from copulas.univariate import GaussianUnivariate
    rs = np.random.RandomState(ctx.seed + 101)
    n = 2000
    rho = np.array([[1, .8, -.5], [.8, 1, -.3], [-.5, -.3, 1]])
    z = rs.multivariate_normal([0, 0, 0], rho, n)
    X = pd.DataFrame({'batch': np.full(n, 7.0), 'x': z[:, 0], 'y': 1e6 + 0.5 * z[:, 1], 'w': np.exp(z[:, 2])})
    g = GaussianMultivariate(distribution=GaussianUnivariate, random_state=5)
    g.fit(X)
    C = g.correlation
    S = g.sample(500)
    band = 0.15          # normal-scores correlation estimator: sd <= 1/sqrt(n) = 0.022; 0.15 is > 6.7 sd
    rep = ("import numpy as np, pandas as pd\nfrom copulas.multivariate import GaussianMultivariate\nfrom copulas.univariate import GaussianUnivariate\n"
           f"rs=np.random.RandomState({ctx.seed + 101}); n=2000\nrho=np.array([[1,.8,-.5],[.8,1,-.3],[-.5,-.3,1]])\nz=rs.multivariate_normal([0,0,0],rho,n)\n"
           "X=pd.DataFrame({'batch':np.full(n,7.0),'x':z[:,0],'y':1e6+0.5*z[:,1],'w':np.exp(z[:,2])})\n"
           "g=GaussianMultivariate(distribution=GaussianUnivariate, random_state=5); g.fit(X); C=g.correlation; S=g.sample(500)\nprint(C)\n"
           "assert abs(C.loc['x','y']-0.8)<0.15 and abs(C.loc['x','w']+0.5)<0.2 and S['y'].std()>0.1 and (S['batch']==7.0).all()\n")
    bad = []
    if abs(C.loc['x', 'y'] - 0.8) > band:
        bad.append(f"fitted corr(x,y)={C.loc['x','y']:.3f} vs generating 0.8")
    if abs(C.loc['x', 'w'] + 0.5) > band + 0.05:      # exp() marginal fitted by a Gaussian: scores only monotone-related
        bad.append(f"fitted corr(x,w)={C.loc['x','w']:.3f} vs generating -0.5")
    if not (S['y'].std() > 0.1):
        bad.append(f"column y (1e6 + 0.5 z, {X['y'].nunique()} distinct values) is sampled with std {S['y'].std():.2e}: collapsed to a constant")
    if not (S['batch'] == 7.0).all():
        bad.append('constant column not reproduced exactly')
    if list(S.columns) != list(X.columns) or S.isna().any().any():
        bad.append('schema / missing values')
    ctx.case(('recovery', 'const-first+small-spread'), {'columns': list(X.columns), 'n': n})
    ctx.obligation('oracle:recovery:const-first-small-spread', not bad, 'correspondence', '; '.join(bad))
    if bad:
        ctx.violation('search:recovery:const-first-small-spread', 'Gaussian-copula table [const, x, 1e6+0.5z, exp(z)]: ' + '; '.join(bad), {'problems': bad, 'repro': rep})


def unfitted_edge_inputs(ctx):
    """C19: every query of every UNFITTED univariate model must raise NotFittedError also for unusual but valid inputs
    (boundary-only probabilities, empty arrays, a single value) — added after seed C19_b (check_fit moved behind an early return)."""
    from copulas import univariate as U
    from copulas.errors import NotFittedError
    inputs = {'boundary': np.array([0.0, 1.0]), 'eps': np.array([1e-9, 1 - 1e-9]), 'interior': np.array([0.25, 0.5]),
              'single': np.array([0.5]), 'empty': np.array([])}
    classes = [U.GaussianUnivariate, U.UniformUnivariate, U.GammaUnivariate, U.BetaUnivariate, U.StudentTUnivariate,
               U.TruncatedGaussian, U.GaussianKDE, U.LogLaplace, U.Univariate]
    for cls in classes:
        for meth in ('cumulative_distribution', 'probability_density', 'percent_point', 'log_probability_density', 'cdf', 'pdf', 'ppf'):
            for kind, x in inputs.items():
                m = cls()
                if not hasattr(m, meth):
                    continue
                try:
                    r = getattr(m, meth)(x.copy())
                    outcome = f'returned {np.asarray(r).tolist()!r}'
                except NotFittedError:
                    outcome = None
                except Exception as ex:
                    outcome = f'raised {type(ex).__name__}: {ex}'
                ctx.case(('unfitted-edge', cls.__name__, meth, kind), None)
                if outcome is not None:
                    ctx.obligation(f'oracle:unfitted-edge:{cls.__name__}.{meth}:{kind}', False, 'correspondence', outcome)
                    ctx.violation(f'unfitted:{cls.__name__}.{meth}:{kind}-input', f'unfitted {cls.__name__}().{meth}({x.tolist()}) {outcome} instead of raising NotFittedError',
                                  {'class': cls.__name__, 'method': meth, 'input': x.tolist(),
                                   'repro': (f"import numpy as np\nfrom copulas import univariate as U\nfrom copulas.errors import NotFittedError\n"
                                             f"try:\n    U.{cls.__name__}().{meth}(np.array({x.tolist()!r}))\n    raise SystemExit(1)\nexcept NotFittedError:\n    pass\n")})
    ctx.obligation('oracle:unfitted-edge-inputs', True, 'correspondence')


def constant_roundtrip(ctx):
    """C14: models fitted on CONSTANT data whose value is not exactly representable (0.1 x 100, 2.7 x 50, ...: the mean of n copies
    is not the value, np.std is ~1e-17) must survive to_dict/from_dict and JSON as the same point mass — added after seed C14_a."""
    import json
    from copulas import univariate as U
    probes = np.array([-1.0, 0.05, 0.1, 0.3, 2.7, 5.0])
    qs = np.array([0.1, 0.5, 0.9])
    for cls in (U.GaussianUnivariate, U.UniformUnivariate, U.GammaUnivariate, U.BetaUnivariate, U.StudentTUnivariate,
                U.TruncatedGaussian, U.GaussianKDE, U.LogLaplace):
        for c, n in ((0.1, 100), (2.7, 50), (0.1, 3), (1.0 / 3.0, 7)):
            m = cls()
            try:
                m.fit(np.full(n, c))
                d = m.to_dict()
                copies = {'dict': U.Univariate.from_dict(d), 'json': U.Univariate.from_dict(json.loads(json.dumps(d)))}
            except Exception as ex:
                ctx.violation(f'rt-const:{cls.__name__}:raises:{type(ex).__name__}', f'{cls.__name__} fitted on {n} copies of {c!r}: round trip raised {type(ex).__name__}: {ex}',
                              {'class': cls.__name__, 'constant': c, 'n': n, 'repro': f"import numpy as np\nfrom copulas import univariate as U\nm=U.{cls.__name__}(); m.fit(np.full({n},{c!r})); U.Univariate.from_dict(m.to_dict())\n"})
                continue
            ctx.case(('rt-const', cls.__name__, c, n), None)
            for path, k in copies.items():
                bad = []
                for meth, x in (('cumulative_distribution', probes), ('probability_density', probes), ('percent_point', qs)):
                    with np.errstate(all='ignore'):
                        a, b = np.asarray(getattr(m, meth)(x), dtype=float), np.asarray(getattr(k, meth)(x), dtype=float)
                    if not np.array_equal(a, b, equal_nan=True):
                        bad.append(f'{meth}: {a.tolist()} vs {b.tolist()}')
                if bad:
                    key = 'F25:studentt-constant-roundtrip:nonrepresentable' if cls is U.StudentTUnivariate else f'rt-const:{cls.__name__}:{path}'
                    ctx.violation(key, f'{cls.__name__} fitted on {n} copies of {c!r}: the {path} round trip changes the behaviour: ' + '; '.join(bad)[:300],
                                  {'class': cls.__name__, 'constant': c, 'n': n, 'path': path,
                                   'repro': (f"import numpy as np, json\nfrom copulas import univariate as U\nm=U.{cls.__name__}(); m.fit(np.full({n},{c!r}))\n"
                                             f"k=U.Univariate.from_dict(json.loads(json.dumps(m.to_dict())))\nx=np.array({probes.tolist()!r})\n"
                                             "a=m.probability_density(x); b=k.probability_density(x)\nprint(a,b)\nassert np.array_equal(a,b,equal_nan=True)\n")})
    ctx.obligation('oracle:constant-roundtrip', True, 'correspondence')


def univariate_refit_queries(ctx):
    """C03: fit(d1); QUERY; fit(d2) must answer like a fresh model fitted on d2 (a value cached by a query must not survive a re-fit)
    — added after seed C03_a (KDE lower bound cached on the first CDF evaluation)."""
    from copulas import univariate as U
    rs = np.random.RandomState(ctx.seed + 303)
    d1 = rs.normal(10.0, 1.0, 60)
    d2 = rs.normal(0.0, 3.0, 60)
    for cls, kw in ((U.GaussianUnivariate, {}), (U.UniformUnivariate, {}), (U.StudentTUnivariate, {}), (U.TruncatedGaussian, {}),
                    (U.GaussianKDE, {}), (U.GaussianKDE, {'bw_method': 'silverman'}), (U.GammaUnivariate, {}), (U.BetaUnivariate, {}), (U.LogLaplace, {})):
        a1, a2 = (np.abs(d1) + 0.1, np.abs(d2) + 0.1) if cls in (U.GammaUnivariate, U.LogLaplace) else (d1, d2)
        name = cls.__name__ + (str(kw) if kw else '')
        try:
            m = cls(**kw)
            m.fit(a1)
            xs1 = np.linspace(a1.min(), a1.max(), 5)
            with np.errstate(all='ignore'):
                m.cumulative_distribution(xs1); m.probability_density(xs1); m.percent_point(np.array([0.2, 0.8]))
            m.fit(a2)
            xs = np.linspace(a2.min() - 1, a2.max() + 1, 9)
            bad = []
            if cls is U.GaussianKDE:
                # a re-fitted KDE resamples its dataset (known finding F7, property C19), so it cannot be compared with a fresh fit:
                # compare it with the kernel estimate of ITS OWN stored dataset instead (catches values cached by the earlier queries)
                from scipy.stats import gaussian_kde
                ds = np.asarray(m._params['dataset'], dtype=float).ravel()
                ref = gaussian_kde(ds, bw_method=kw.get('bw_method'))
                with np.errstate(all='ignore'):
                    a = np.asarray(m.cumulative_distribution(xs), dtype=float)
                    b = np.array([ref.integrate_box_1d(-np.inf, t) for t in xs])
                    pa, pb = np.asarray(m.probability_density(xs), dtype=float), ref.evaluate(xs)
                    q = np.asarray(m.percent_point(np.array([0.05, 0.5, 0.95])), dtype=float)
                    cq = np.array([ref.integrate_box_1d(-np.inf, t) for t in q])
                if not np.allclose(a, b, atol=1e-6):
                    bad.append(f'cumulative_distribution: {a.tolist()[:4]} vs kernel estimate of its own dataset {b.tolist()[:4]}')
                if not np.allclose(pa, pb, rtol=1e-9, atol=1e-12):
                    bad.append(f'probability_density: {pa.tolist()[:4]} vs {pb.tolist()[:4]}')
                if not np.allclose(cq, [0.05, 0.5, 0.95], atol=1e-5):
                    bad.append(f'cdf(percent_point([.05,.5,.95])) = {cq.tolist()}')
            else:
                f = cls(**kw)
                f.fit(a2)
                for meth, x in (('cumulative_distribution', xs), ('probability_density', xs), ('percent_point', np.array([0.05, 0.5, 0.95]))):
                    with np.errstate(all='ignore'):
                        a, b = np.asarray(getattr(m, meth)(x), dtype=float), np.asarray(getattr(f, meth)(x), dtype=float)
                    if not np.allclose(a, b, rtol=1e-9, atol=1e-12, equal_nan=True):
                        bad.append(f'{meth}: {a.tolist()[:4]} vs fresh {b.tolist()[:4]}')
        except Exception as ex:
            bad = [f'raised {type(ex).__name__}: {ex}']
        ctx.case(('refit-queries', name), None)
        if bad:
            ctx.violation(f'search:refit-after-queries:{name}', f'{name}: fit(d1); cdf/pdf/ppf; fit(d2) differs from a fresh model fitted on d2: ' + '; '.join(bad)[:400],
                          {'class': name, 'repro': (f"import numpy as np\nfrom copulas import univariate as U\nrs=np.random.RandomState({ctx.seed + 303}); d1=rs.normal(10,1,60); d2=rs.normal(0,3,60)\n"
                                                    + ("d1,d2=np.abs(d1)+.1,np.abs(d2)+.1\n" if cls in (U.GammaUnivariate, U.LogLaplace) else "")
                                                    + f"m=U.{cls.__name__}(**{kw!r}); m.fit(d1); m.cumulative_distribution(np.linspace(d1.min(),d1.max(),5)); m.fit(d2)\nf=U.{cls.__name__}(**{kw!r}); f.fit(d2)\n"
                                                    "x=np.linspace(d2.min()-1,d2.max()+1,9)\na=m.cumulative_distribution(x); b=f.cumulative_distribution(x)\nprint(a,b)\nassert np.allclose(a,b,rtol=1e-9,atol=1e-12)\n")})
    ctx.obligation('oracle:refit-after-queries', True, 'correspondence')


def truncated_zero_bound(ctx):
    """C04: a user-supplied truncation bound that is exactly 0 (falsy) must be honoured — added after seed C04_a (`self.min or ...`)."""
    from copulas.univariate import TruncatedGaussian
    from scipy.stats import truncnorm
    rs = np.random.RandomState(ctx.seed + 404)
    for lo, hi, loc in ((0.0, 10.0, 5.0), (-10.0, 0.0, -5.0), (0.0, 1.0, 0.6)):
        sc = (hi - lo) / 10.0
        x = truncnorm((lo - loc) / sc, (hi - loc) / sc, loc, sc).rvs(400, random_state=rs)
        m = TruncatedGaussian(minimum=lo, maximum=hi)
        m.fit(x)
        p = m._params
        sup = (p['loc'] + p['a'] * p['scale'], p['loc'] + p['b'] * p['scale'])
        ok = abs(sup[0] - lo) <= 1e-9 * (1 + abs(lo)) and abs(sup[1] - hi) <= 1e-9 * (1 + abs(hi))
        ctx.case(('tg-zero-bound', lo, hi), {'bounds': [lo, hi], 'fitted_support': list(map(float, sup))})
        ctx.obligation(f'oracle:truncated-zero-bound:{lo}:{hi}', ok, 'correspondence', f'support {sup}')
        if not ok:
            ctx.violation('search:user-bounds-not-honoured:truncated:zero-bound', f'TruncatedGaussian(minimum={lo}, maximum={hi}) fitted support is {sup}',
                          {'bounds': [lo, hi], 'support': list(map(float, sup)),
                           'repro': (f"import numpy as np\nfrom scipy.stats import truncnorm\nfrom copulas.univariate import TruncatedGaussian\n"
                                     f"x=truncnorm({(lo - loc) / sc!r},{(hi - loc) / sc!r},{loc!r},{sc!r}).rvs(400, random_state=np.random.RandomState(1))\n"
                                     f"m=TruncatedGaussian(minimum={lo!r}, maximum={hi!r}); m.fit(x); p=m._params\ns=(p['loc']+p['a']*p['scale'], p['loc']+p['b']*p['scale'])\nprint(s)\n"
                                     f"assert abs(s[0]-{lo!r})<1e-6 and abs(s[1]-{hi!r})<1e-6\n")})


# ======================================================================================================================
# bivariate copulas: HISTORY on one object and CONTAINER / memory layout of the argument (added after the second round
# of seeded changes: cached normalisers, memoised roots, in-place logs on non-contiguous input)
# ======================================================================================================================
_BIV_TH = {'clayton': [(0.5, 4.0), (8.0, 1.0)], 'frank': [(9.0, 2.5), (-3.0, 5.0), (2.0, -6.0)], 'gumbel': [(1.3, 3.0), (4.0, 1.0), (1.0, 2.0)]}
_BIV_METHODS = {'C06': ['cumulative_distribution'], 'C07': ['probability_density', 'log_probability_density', 'partial_derivative'],
                'C08': ['percent_point', 'partial_derivative'], 'C09': ['sample', 'percent_point']}


def _biv_tau(fam, th):
    if fam == 'clayton':
        return th / (th + 2.0)
    if fam == 'gumbel':
        return 1.0 - 1.0 / th
    from scipy import integrate
    d1 = integrate.quad(lambda t: t / np.expm1(t), 0.0, th)[0] / th
    return 1.0 - 4.0 / th * (1.0 - d1)


def _biv_new(fam, th, seed=5):
    from copulas.bivariate import Bivariate
    c = Bivariate(copula_type=fam, random_state=seed)
    c.theta, c.tau = float(th), float(_biv_tau(fam, th))
    return c


def _biv_query(c, meth, X):
    with np.errstate(all='ignore'):
        if meth == 'sample':
            c.set_random_state(11)
            return np.asarray(c.sample(9), dtype=float)
        if meth == 'percent_point':
            return np.asarray(c.percent_point(X[:, 0].copy(), X[:, 1].copy()), dtype=float)
        return np.asarray(getattr(c, meth)(X.copy()), dtype=float)


def biv_history_replay(fam, th1, th2, meth, how):
    """replay entry point: returns None or a description of the disagreement between the object with a history and a fresh one"""
    g = np.array([0.15, 0.4, 0.5, 0.75, 0.9])
    A, B = np.meshgrid(g, g[::-1])
    X = np.column_stack([A.ravel(), B.ravel()])
    o = _biv_new(fam, th1)
    for m in ('cumulative_distribution', 'probability_density', 'log_probability_density', 'partial_derivative', 'percent_point', 'sample'):
        try:
            _biv_query(o, m, X)
        except Exception:
            pass
    if how == 'assign':
        o.theta, o.tau = float(th2), float(_biv_tau(fam, th2))
        f = _biv_new(fam, th2)
    else:
        src = _biv_new(fam, th2, seed=3)
        src.set_random_state(3)
        D = np.asarray(src.sample(200), dtype=float)
        o.fit(D)
        from copulas.bivariate import Bivariate
        f = Bivariate(copula_type=fam, random_state=5)
        f.fit(D)
        if not (o.theta == f.theta and o.tau == f.tau):
            return f'after re-fit theta/tau = {o.theta}/{o.tau}, fresh fit gives {f.theta}/{f.tau}'
    try:
        a = _biv_query(o, meth, X)
    except Exception as ex:
        a = ex
    try:
        b = _biv_query(f, meth, X)
    except Exception as ex:
        b = ex
    if isinstance(b, Exception):
        return None if isinstance(a, Exception) and type(a) is type(b) else f'fresh object raises {type(b).__name__} but the object with a history returns'
    if isinstance(a, Exception):
        return f'object with a history raises {type(a).__name__}: {str(a)[:100]}; a fresh object with the same parameters returns values'
    if a.shape != b.shape or not np.allclose(a, b, rtol=1e-9, atol=1e-12, equal_nan=True):
        k = int(np.nanargmax(np.abs(a - b))) if a.shape == b.shape else 0
        return (f'{meth} differs from a fresh object with the same parameters: {a.ravel()[k]!r} vs {b.ravel()[k]!r} at index {k} '
                f'(max |diff| {float(np.nanmax(np.abs(a - b))) if a.shape == b.shape else "shape"})')
    return None


def biv_history(ctx, which):
    """one copula object: parameters th1, every query once, THEN parameters th2 (by assignment, or by fit on data drawn at th2): each
    query must equal that of a fresh object with the same parameters."""
    for fam, pairs in _BIV_TH.items():
        for th1, th2 in pairs:
            for how in ('assign', 'fit'):
                if how == 'fit' and (th2 in (1.0,) or (fam == 'frank' and th2 < 0 < th1 and False)):
                    continue
                for meth in _BIV_METHODS[which]:
                    ctx.case(('history', fam, th1, th2, how, meth), {'family': fam, 'theta_before': th1, 'theta_after': th2, 'how': how, 'method': meth})
                    try:
                        why = biv_history_replay(fam, th1, th2, meth, how)
                    except Exception as ex:
                        why = f'raised {type(ex).__name__}: {str(ex)[:120]}'
                    ctx.obligation(f'oracle:history:{fam}:{th1}->{th2}:{how}:{meth}', why is None, 'correspondence', why or '')
                    if why:
                        ctx.violation(f'search:history:{meth}:{fam}', f'{fam}: theta={th1}, all queries, then theta={th2} ({how}): {why}',
                                      {'family': fam, 'theta_before': th1, 'theta_after': th2, 'how': how, 'method': meth,
                                       'repro': ('from vf.extra_oracles import biv_history_replay\n'
                                                 f'why = biv_history_replay({fam!r}, {th1!r}, {th2!r}, {meth!r}, {how!r})\nprint(why)\nassert why is None\n')})


def biv_layout_replay(fam, th, meth, layout):
    g = np.array([0.12, 0.3, 0.55, 0.8, 0.93, 0.42])
    base = np.column_stack([g, g[::-1] * 0.9 + 0.03])
    if layout == 'fortran':
        X = np.asfortranarray(base)
    elif layout == 'transposed':
        X = np.array([base[:, 0], base[:, 1]]).T
    elif layout == 'slice-of-wider':
        W = np.column_stack([np.zeros(len(g)), base, np.ones(len(g))])
        X = W[:, 1:3]
    elif layout == 'reversed-view':
        X = np.ascontiguousarray(base[:, ::-1])[:, ::-1]
    elif layout == 'frame.to_numpy':
        import pandas as pd
        X = pd.DataFrame(base, columns=['u', 'v']).to_numpy()
    else:
        raise ValueError(layout)
    ref_c = _biv_new(fam, th)
    with np.errstate(all='ignore'):
        ref = np.asarray(getattr(ref_c, meth)(np.ascontiguousarray(base.copy())), dtype=float)
    c = _biv_new(fam, th)
    before = np.array(X, copy=True)
    try:
        with np.errstate(all='ignore'):
            r1 = np.asarray(getattr(c, meth)(X), dtype=float)
            r2 = np.asarray(getattr(c, meth)(X), dtype=float)
    except Exception as ex:
        return f'raised {type(ex).__name__}: {str(ex)[:100]} on a {layout} argument (row-major argument with the same values returns)'
    if not np.array_equal(np.asarray(X), before):
        return f'the {layout} argument was modified in place: {np.asarray(X)[:2].tolist()} (was {before[:2].tolist()})'
    if not np.allclose(r1, ref, rtol=1e-12, atol=0, equal_nan=True):
        k = int(np.nanargmax(np.abs(r1 - ref)))
        return f'{layout} argument gives {r1[k]!r}, the same values row-major give {ref[k]!r} (row {k})'
    if not np.array_equal(r1, r2, equal_nan=True):
        return f'second call with the same {layout} argument differs from the first'
    return None


def biv_layouts(ctx, which):
    """the result of an evaluation method may depend only on the VALUES of its (n,2) argument, not on its memory layout; the argument is not modified."""
    meths = [m for m in _BIV_METHODS[which] if m not in ('sample', 'percent_point')]
    for fam, th in (('clayton', 2.0), ('frank', 4.0), ('frank', -3.0), ('gumbel', 2.5)):
        for meth in meths:
            for layout in ('fortran', 'transposed', 'slice-of-wider', 'reversed-view', 'frame.to_numpy'):
                ctx.case(('layout', fam, th, meth, layout), {'family': fam, 'theta': th, 'method': meth, 'layout': layout})
                try:
                    why = biv_layout_replay(fam, th, meth, layout)
                except Exception as ex:
                    why = f'oracle raised {type(ex).__name__}: {str(ex)[:120]}'
                ctx.obligation(f'oracle:layout:{fam}:{th}:{meth}:{layout}', why is None, 'correspondence', why or '')
                if why:
                    ctx.violation(f'search:layout:{meth}:{fam}', f'{fam} theta={th} {meth}: {why}',
                                  {'family': fam, 'theta': th, 'method': meth, 'layout': layout,
                                   'repro': ('from vf.extra_oracles import biv_layout_replay\n'
                                             f'why = biv_layout_replay({fam!r}, {th!r}, {meth!r}, {layout!r})\nprint(why)\nassert why is None\n')})


def biv_inplace_replay(fam, th, meth):
    """replay entry point.  ONE ndarray object is handed to the same copula object twice, refilled IN PLACE in between (the way a
    caller loops over a preallocated buffer): the second answer must be the answer for the buffer's current contents (that of a fresh
    object on a fresh copy).  A memo keyed on the identity of the argument breaks exactly this."""
    rs = np.random.RandomState(31)
    X1 = rs.uniform(0.02, 0.98, (40, 2))
    X2 = rs.uniform(0.02, 0.98, (40, 2))
    o = _biv_new(fam, th)
    buf = np.empty((40, 2))
    with np.errstate(all='ignore'):
        if meth == 'percent_point':
            y, v = np.empty(40), np.empty(40)
            y[:], v[:] = X1[:, 0], X1[:, 1]
            a1 = np.asarray(o.percent_point(y, v), dtype=float).copy()
            y[:], v[:] = X2[:, 0], X2[:, 1]
            a2 = np.asarray(o.percent_point(y, v), dtype=float).copy()
            f = _biv_new(fam, th)
            b1 = np.asarray(f.percent_point(X1[:, 0].copy(), X1[:, 1].copy()), dtype=float)
            b2 = np.asarray(_biv_new(fam, th).percent_point(X2[:, 0].copy(), X2[:, 1].copy()), dtype=float)
        else:
            buf[:] = X1
            a1 = np.asarray(getattr(o, meth)(buf), dtype=float).copy()
            buf[:, 0] = X2[:, 0]
            buf[:, 1] = X2[:, 1]
            a2 = np.asarray(getattr(o, meth)(buf), dtype=float).copy()
            b1 = np.asarray(getattr(_biv_new(fam, th), meth)(X1.copy()), dtype=float)
            b2 = np.asarray(getattr(_biv_new(fam, th), meth)(X2.copy()), dtype=float)
    for a, b, which in ((a1, b1, 'first'), (a2, b2, 'second (buffer refilled in place)')):
        if a.shape != b.shape or not np.allclose(a, b, rtol=1e-9, atol=1e-12, equal_nan=True):
            k = int(np.nanargmax(np.abs(a - b))) if a.shape == b.shape else 0
            X = X1 if which == 'first' else X2
            return (f'{meth} on the {which} call returns {a.ravel()[k]!r} for row {X[k].tolist()}; a fresh object on a fresh copy of the same '
                    f'values returns {b.ravel()[k]!r}')
    return None


def biv_inplace(ctx, which):
    for fam, ths in (('clayton', [2.0]), ('frank', [-6.0, 4.0]), ('gumbel', [1.0, 2.5])):
        for th in ths:
            for meth in _BIV_METHODS[which]:
                if meth == 'sample':
                    continue
                ctx.case(('inplace', fam, th, meth), {'family': fam, 'theta': th, 'method': meth, 'history': 'query(buf); refill buf in place; query(buf)'})
                try:
                    why = biv_inplace_replay(fam, th, meth)
                except Exception as ex:
                    why = f'raised {type(ex).__name__}: {str(ex)[:120]}'
                ctx.obligation(f'oracle:inplace-refill:{fam}:{th}:{meth}', why is None, 'correspondence', why or '')
                if why:
                    ctx.violation(f'search:inplace-refill:{meth}:{fam}', f'{fam} theta={th}: {why}',
                                  {'family': fam, 'theta': th, 'method': meth,
                                   'repro': ('from vf.extra_oracles import biv_inplace_replay\n'
                                             f'why = biv_inplace_replay({fam!r}, {th!r}, {meth!r})\nprint(why)\nassert why is None\n')})


def biv_extra(ctx, which):
    from . import extra_oracles2 as E2
    biv_history(ctx, which)
    biv_inplace(ctx, which)
    meths = [m for m in _BIV_METHODS[which]]
    E2.biv_near_independence(ctx, meths + (['log_probability_density'] if which == 'C07' and 'log_probability_density' not in meths else []))
    E2.biv_error_state(ctx, [m for m in meths if m != 'sample'])
    E2.biv_long_batch(ctx, meths + (['log_probability_density'] if which == 'C07' and 'log_probability_density' not in meths else []),
                      thorough=(ctx.tier != 'quick'))
    E2.biv_integer_theta(ctx, meths)
    if which == 'C06':
        E2.biv_boundary_rows(ctx, ['cumulative_distribution'])      # C06's domain includes the boundary of the square; C07's does not
    if which == 'C08':
        E2.biv_ppf_containers(ctx)
    if which in ('C06', 'C07'):
        biv_layouts(ctx, which)
    if which == 'C09':
        biv_sample_rosenblatt(ctx)
    # round 6: ambient conditions, failure paths of the queries, ownership of returned arrays
    from . import extra_oracles3 as E3
    E3.biv_ambient(ctx, meths)
    E3.biv_failed_query(ctx, meths)
    E3.biv_results_owned(ctx, meths)
    E3.gumbel_independence_member(ctx, meths)
    if which == 'C09':
        E3.biv_refused_refit(ctx)


def biv_sample_rosenblatt_replay(fam, th, variant='mixed'):
    """sample(n) with the two uniform draws replaced by chosen vectors (small v, extreme c included): every row must be
    (u, v) with partial_derivative(u, v) = c, the conditional-inverse construction (checked with a FRESH object's conditional CDF)."""
    v = np.array([0.001, 0.01, 0.03, 0.05, 0.1, 0.12, 0.2, 0.35, 0.5, 0.65, 0.8, 0.9, 0.97, 0.99, 0.3, 0.7])
    c = np.array([0.5, 0.9, 0.2, 0.05, 0.7, 0.35, 0.97, 0.02, 0.6, 0.4, 0.15, 0.85, 0.5, 0.25, 0.999, 0.001])
    if variant == 'small-v':         # EVERY conditioning value small (what sample(1) or a small n produces with probability 0.1^n)
        v = np.array([0.001, 0.004, 0.01, 0.02, 0.03, 0.05, 0.07, 0.09])
        c = np.array([0.5, 0.9, 0.2, 0.05, 0.7, 0.35, 0.97, 0.6])
    elif variant == 'single':        # sample(1)
        v, c = np.array([0.04]), np.array([0.3])
    elif variant == 'large-v':
        v = np.array([0.999, 0.996, 0.99, 0.98, 0.97, 0.95, 0.93, 0.91])
        c = np.array([0.5, 0.9, 0.2, 0.05, 0.7, 0.35, 0.97, 0.6])
    elif variant.startswith('long'):  # ONE call with more rows than any plausible batch threshold (round 5: a vectorised solver above 2^15 rows)
        rl = np.random.RandomState(97)
        n_long = int(variant[4:] or 33001)
        v, c = rl.uniform(0.002, 0.998, n_long), rl.uniform(0.002, 0.998, n_long)
    draws = [v.copy(), c.copy()]
    o = _biv_new(fam, th)
    orig = np.random.uniform

    def fake(low=0.0, high=1.0, size=None):
        return draws.pop(0) if draws else orig(low, high, size)
    np.random.uniform = fake
    try:
        with np.errstate(all='ignore'):
            S = np.asarray(o.sample(len(v)), dtype=float)
    except Exception as ex:
        if fam == 'gumbel' and 'different signs' in str(ex):
            return None          # F17 (property C08)
        return f'sample raised {type(ex).__name__}: {str(ex)[:100]}'
    finally:
        np.random.uniform = orig
    if draws:
        return f'sample consumed {2 - len(draws)} uniform draws instead of 2'
    if S.shape != (len(v), 2) or not np.array_equal(S[:, 1], v):
        return f'second column is not the first uniform draw (shape {S.shape})'
    with np.errstate(all='ignore'):
        back = np.asarray(_biv_new(fam, th).partial_derivative(S.copy()), dtype=float)
    err = np.abs(back - c)
    k = int(np.nanargmax(err))
    if not np.all(np.isfinite(back)) or err[k] > 1e-6:
        return (f'row {k}: u={S[k, 0]!r}, v={v[k]!r}: conditional CDF h(u,v)={back[k]!r} but the second uniform draw was c={c[k]!r} '
                f'(|diff| {err[k]:.3g}); the first column is not the conditional inverse of c')
    return None


def biv_sample_rosenblatt(ctx):
    for fam, ths in (('clayton', [0.5, 2.0, 8.0]), ('frank', [-12.0, -2.0, 3.0, 18.0]), ('gumbel', [1.0, 1.5, 3.0])):
        for th in ths:
          long = ()
          if (fam, th) == ('frank', 18.0):
              long = ('long33001',) if ctx.tier == 'quick' else ('long70001',)
          elif (fam, th) == ('gumbel', 3.0) and ctx.tier != 'quick':
              long = ('long70001',)
          for variant in ('mixed', 'small-v', 'single', 'large-v') + long:
            ctx.case(('sample-rosenblatt', fam, th, variant), {'family': fam, 'theta': th, 'draws': f'chosen ({variant}): v in [0.001, 0.999], c in [0.001, 0.999]'})
            try:
                why = biv_sample_rosenblatt_replay(fam, th, variant)
            except Exception as ex:
                why = f'oracle raised {type(ex).__name__}: {str(ex)[:120]}'
            ctx.obligation(f'oracle:sample-rosenblatt:{fam}:{th}:{variant}', why is None, 'correspondence', why or '')
            if why:
                ctx.violation(f'search:sample-not-conditional-inverse:{fam}', f'{fam} theta={th} ({variant} draws): {why}',
                              {'family': fam, 'theta': th, 'variant': variant,
                               'repro': ('from vf.extra_oracles import biv_sample_rosenblatt_replay\n'
                                         f'why = biv_sample_rosenblatt_replay({fam!r}, {th!r}, {variant!r})\nprint(why)\nassert why is None\n')})


# ======================================================================================================================
# univariate: histories through the CONSTANT branch (falsy constant 0.0 included) and tiny / huge-offset scales, directly
# and through to_dict / from_dict (added after the second round of seeded changes)
# ======================================================================================================================
def _uni_classes():
    from copulas import univariate as U
    return [(U.GaussianUnivariate, {}), (U.UniformUnivariate, {}), (U.StudentTUnivariate, {}), (U.TruncatedGaussian, {}),
            (U.GaussianKDE, {}), (U.GammaUnivariate, {}), (U.BetaUnivariate, {}), (U.LogLaplace, {})]


def uni_const_history_replay(cname, const, order):
    """order 'const-then-data': fit(n copies of const); queries; fit(data) must answer like a fresh fit(data);
       order 'data-then-const': fit(data); queries; fit(const copies) must be the point mass at const."""
    from copulas import univariate as U
    cls = getattr(U, cname)
    rs = np.random.RandomState(17)
    data = np.abs(rs.normal(3.0, 1.0, 80)) + 0.2
    cdata = np.full(30, float(const))
    xs = np.linspace(data.min() - 0.5, data.max() + 0.5, 9)
    qs = np.array([0.05, 0.3, 0.5, 0.8, 0.95])
    m = cls()
    first, second = (cdata, data) if order == 'const-then-data' else (data, cdata)
    with np.errstate(all='ignore'):
        m.fit(first)
        m.cumulative_distribution(xs); m.probability_density(xs); m.percent_point(qs); m.sample(3)
        m.fit(second)
    bad = []
    with np.errstate(all='ignore'):
        if order == 'data-then-const':
            c = float(const)
            cd = np.asarray(m.cumulative_distribution(np.array([c - 1.0, c - 1e-9, c, c + 1.0])), dtype=float)
            if cd.tolist() != [0.0, 0.0, 1.0, 1.0]:
                bad.append(f'cdf around the constant {c}: {cd.tolist()} (expected the unit step [0,0,1,1])')
            pp = np.asarray(m.percent_point(qs), dtype=float)
            if not np.all(pp == c):
                bad.append(f'percent_point {pp.tolist()} (expected all {c})')
            s = np.asarray(m.sample(5), dtype=float)
            if not np.all(s == c):
                bad.append(f'sample {s.tolist()} (expected all {c})')
        else:
            if cls is U.GaussianKDE:
                from scipy.stats import gaussian_kde
                ds = np.asarray(m._params['dataset'], dtype=float).ravel()
                ref = gaussian_kde(ds)
                a = np.asarray(m.cumulative_distribution(xs), dtype=float)
                b = np.array([ref.integrate_box_1d(-np.inf, t) for t in xs])
                if len(set(ds.tolist())) < 2 or not np.allclose(a, b, atol=1e-6):
                    bad.append(f'cumulative_distribution {a.tolist()[:5]} vs kernel estimate of the stored dataset {b.tolist()[:5]}')
                pa, pb = np.asarray(m.probability_density(xs), dtype=float), ref.evaluate(xs)
                if not np.allclose(pa, pb, rtol=1e-9, atol=1e-12):
                    bad.append(f'probability_density {pa.tolist()[:4]} vs {pb.tolist()[:4]}')
                la = np.asarray(m.log_probability_density(xs), dtype=float)
                if not np.allclose(la, np.log(pb), rtol=1e-9, atol=1e-12):
                    bad.append(f'log_probability_density {la.tolist()[:4]} vs log of the kernel density {np.log(pb).tolist()[:4]}')
                q = np.asarray(m.percent_point(qs), dtype=float)
                cq = np.array([ref.integrate_box_1d(-np.inf, t) for t in q])
                if not np.allclose(cq, qs, atol=1e-5):
                    bad.append(f'cdf(percent_point(q)) = {cq.tolist()} for q = {qs.tolist()}')
                s = np.asarray(m.sample(6), dtype=float)
                if len(set(s.tolist())) < 2:
                    bad.append(f'sample {s.tolist()} is constant')
            else:
                f = cls()
                f.fit(second)
                for meth, x in (('cumulative_distribution', xs), ('probability_density', xs), ('log_probability_density', xs), ('percent_point', qs)):
                    a, b = np.asarray(getattr(m, meth)(x), dtype=float), np.asarray(getattr(f, meth)(x), dtype=float)
                    if not np.allclose(a, b, rtol=1e-9, atol=1e-12, equal_nan=True):
                        bad.append(f'{meth}: {a.tolist()[:4]} vs fresh {b.tolist()[:4]}')
                s = np.asarray(m.sample(6), dtype=float)
                if len(set(s.tolist())) < 2:
                    bad.append(f'sample {s.tolist()} is constant')
    return bad


def uni_scale_roundtrip_replay(cname, kind):
    """non-constant data with a tiny absolute scale or a huge offset: the fitted model, and the model rebuilt from to_dict(), must both
    be non-degenerate and agree (cdf strictly between 0 and 1 at the sample median; cdf(ppf(q)) = q)."""
    from copulas import univariate as U
    cls = getattr(U, cname)
    rs = np.random.RandomState(29)
    z = rs.uniform(1.0, 3.0, 120)
    data = {'tiny': 1e-9 * z, 'small': 1e-6 * z, 'offset': 1.0e6 + (z - 2.0)}[kind]
    m = cls()
    bad = []
    with np.errstate(all='ignore'):
        m.fit(data)
        r = cls.from_dict(m.to_dict()) if hasattr(cls, 'from_dict') else None
        med = np.array([float(np.median(data))])
        qs = np.array([0.2, 0.5, 0.8])
        for nm, o in (('fitted', m), ('rebuilt from to_dict()', r)):
            if o is None:
                continue
            c = float(np.asarray(o.cumulative_distribution(med), dtype=float)[0])
            if not (0.02 < c < 0.98):
                bad.append(f'{nm} model: cdf(median of {len(set(data.tolist()))} distinct values) = {c} (degenerate step)')
                continue
            back = np.asarray(o.cumulative_distribution(np.asarray(o.percent_point(qs), dtype=float)), dtype=float)
            if not np.allclose(back, qs, atol=1e-4):
                bad.append(f'{nm} model: cdf(percent_point({qs.tolist()})) = {back.tolist()}')
        if r is not None and not bad:
            a = np.asarray(m.cumulative_distribution(np.sort(data)[::10]), dtype=float)
            b = np.asarray(r.cumulative_distribution(np.sort(data)[::10]), dtype=float)
            if not np.allclose(a, b, rtol=1e-9, atol=1e-12):
                bad.append(f'rebuilt model differs from the fitted one: cdf {a.tolist()[:4]} vs {b.tolist()[:4]}')
    return bad


def univariate_constant_history(ctx, roundtrip=True):
    for cls, kw in _uni_classes():
        cname = cls.__name__
        for const in (0.0, 5.0, -2.5):
            for order in ('const-then-data', 'data-then-const'):
                ctx.case(('const-history', cname, const, order), {'class': cname, 'constant': const, 'order': order})
                try:
                    bad = uni_const_history_replay(cname, const, order)
                except Exception as ex:
                    bad = [f'raised {type(ex).__name__}: {str(ex)[:120]}']
                ctx.obligation(f'oracle:const-history:{cname}:{const}:{order}', not bad, 'correspondence', '; '.join(bad)[:300])
                if bad:
                    ctx.violation(f'search:const-history:{order}:{cname}', f'{cname}: {order} with constant {const}: ' + '; '.join(bad)[:400],
                                  {'class': cname, 'constant': const, 'order': order,
                                   'repro': ('from vf.extra_oracles import uni_const_history_replay\n'
                                             f'bad = uni_const_history_replay({cname!r}, {const!r}, {order!r})\nprint(bad)\nassert not bad\n')})
        if not roundtrip:
            continue
        for kind in ('tiny', 'small', 'offset'):
            if kind in ('tiny', 'small') and cname in ('GammaUnivariate', 'BetaUnivariate', 'LogLaplace', 'StudentTUnivariate', 'TruncatedGaussian'):
                continue       # scipy's generic MLE is not reliable at 1e-9 scales; location-scale closed forms and the KDE are
            if kind == 'offset' and cname in ('GammaUnivariate', 'BetaUnivariate', 'LogLaplace', 'StudentTUnivariate', 'TruncatedGaussian'):
                continue
            ctx.case(('scale-roundtrip', cname, kind), {'class': cname, 'data': kind})
            try:
                bad = uni_scale_roundtrip_replay(cname, kind)
            except Exception as ex:
                bad = [f'raised {type(ex).__name__}: {str(ex)[:120]}']
            ctx.obligation(f'oracle:scale-roundtrip:{cname}:{kind}', not bad, 'correspondence', '; '.join(bad)[:300])
            if bad:
                ctx.violation(f'search:scale-roundtrip:{kind}:{cname}', f'{cname} on {kind}-scale non-constant data: ' + '; '.join(bad)[:400],
                              {'class': cname, 'data': kind,
                               'repro': ('from vf.extra_oracles import uni_scale_roundtrip_replay\n'
                                         f'bad = uni_scale_roundtrip_replay({cname!r}, {kind!r})\nprint(bad)\nassert not bad\n')})


# ======================================================================================================================
# root finders: CONTAINER / dtype of the brackets (int arrays, lists, overlapping views, re-used and read-only arrays)
# ======================================================================================================================
def root_container_replay(which, container):
    """the roots returned for brackets given in `container` form must satisfy the property's tolerance, and the caller's bracket
    objects must be left untouched.  Returns None or a description."""
    from copulas.optimize import bisect, chandrupatla
    solver = bisect if which == 'bisect' else chandrupatla
    roots = np.array([2.3, 0.7, 7.9, 4.4])
    lo_f, hi_f = np.array([0.0, 0.0, 5.0, 1.0]), np.array([10.0, 5.0, 9.0, 8.0])

    def f(x):
        d = np.asarray(x, dtype=float) - roots
        return d * d * d + 0.5 * d
    if container == 'int-arrays':
        lo, hi = lo_f.astype(int), hi_f.astype(int)
    elif container == 'int-lower-float-upper':
        lo, hi = lo_f.astype(int), hi_f.copy()
    elif container == 'lists':
        lo, hi = [0, 0, 5, 1], [10, 5.0, 9, 8]
    elif container == 'float-lists':
        lo, hi = lo_f.tolist(), hi_f.tolist()
    elif container == 'overlapping-views':
        grid = np.array([0.0, 2.0, 4.0, 6.0, 8.0])
        roots = np.array([1.3, 3.1, 4.5, 7.7])
        lo, hi = grid[:-1], grid[1:]
    elif container == 'reused':
        lo, hi = lo_f.copy(), hi_f.copy()
        with np.errstate(all='ignore'):
            solver(f, lo, hi)
    elif container == 'read-only':
        lo, hi = lo_f.copy(), hi_f.copy()
        lo.setflags(write=False); hi.setflags(write=False)
    elif container == 'float32':
        lo, hi = lo_f.astype(np.float32), hi_f.astype(np.float32)
    else:
        raise ValueError(container)
    before = (np.array(lo, dtype=float, copy=True), np.array(hi, dtype=float, copy=True))
    try:
        with np.errstate(all='ignore'):
            x = np.asarray(solver(f, lo, hi), dtype=float)
    except Exception as ex:
        return f'{which} raised {type(ex).__name__}: {str(ex)[:100]} for valid brackets given as {container}'
    if not (np.array_equal(np.asarray(lo, dtype=float), before[0]) and np.array_equal(np.asarray(hi, dtype=float), before[1])):
        return f"{which} modified the caller's bracket objects ({container}): xmin {before[0].tolist()} -> {np.asarray(lo, dtype=float).tolist()}"
    width = before[1] - before[0]
    tol = 1e-8 if which == 'bisect' else 1e-9 * width + 1e-14
    if container == 'float32':
        tol = np.maximum(tol, 1e-6)
    err = np.abs(x - roots)
    k = int(np.argmax(err - tol))
    if x.shape != roots.shape or not np.all(np.isfinite(x)) or np.any(err > tol * 1.0000001 + 1e-15):
        return f'{which} with brackets given as {container}: lane {k} returned {x[k]!r}, the root is {roots[k]!r} (bracket [{before[0][k]}, {before[1][k]}])'
    return None


def root_containers(ctx):
    for which in ('bisect', 'chandrupatla'):
        for container in ('int-arrays', 'int-lower-float-upper', 'lists', 'float-lists', 'overlapping-views', 'reused', 'read-only', 'float32'):
            if which == 'chandrupatla' and container in ('lists', 'float-lists'):
                continue        # documented argument type is np.ndarray; chandrupatla rejects lists loudly (TypeError), bisect converts them
            ctx.case(('container', which, container), {'solver': which, 'brackets': container})
            try:
                why = root_container_replay(which, container)
            except Exception as ex:
                why = f'oracle raised {type(ex).__name__}: {str(ex)[:120]}'
            ctx.obligation(f'oracle:container:{which}:{container}', why is None, 'correspondence', why or '')
            if why:
                ctx.violation(f'search:container:{which}:{container}', why,
                              {'solver': which, 'brackets': container,
                               'repro': ('from vf.extra_oracles import root_container_replay\n'
                                         f'why = root_container_replay({which!r}, {container!r})\nprint(why)\nassert why is None\n')})


# ======================================================================================================================
# vines: HISTORY on one object (fit; use; re-fit on another table) must equal a fresh model fitted on the second table
# ======================================================================================================================
def _vine_tables():
    rs = np.random.RandomState(4242)
    import pandas as pd
    z = rs.multivariate_normal(np.zeros(4), 0.6 * np.ones((4, 4)) + 0.4 * np.eye(4), 70)
    A = pd.DataFrame({'a': z[:, 0], 'b': np.exp(0.5 * z[:, 1]), 'c': 2 * z[:, 2] - 1, 'd': z[:, 3] ** 3})
    w = rs.multivariate_normal(np.zeros(4), np.array([[1, -.7, .2, 0], [-.7, 1, .1, .3], [.2, .1, 1, -.5], [0, .3, -.5, 1.0]]), 80)
    B = pd.DataFrame({'a': 100 + 5 * w[:, 0], 'b': 50 + w[:, 1], 'c': -30 + 2 * w[:, 2], 'd': 7 + 0.1 * w[:, 3]})
    C = B[['c', 'a', 'b']].copy()
    return A, B, C


def _vine_same_margin_tables():
    """two tables with IDENTICAL shape, labels and column multisets (dyadic values k/128, so sums/means/min/max/sorted values
    agree bit for bit) but different dependence: any fingerprint of the margins cannot tell them apart"""
    import pandas as pd
    A, _, _ = _vine_tables()
    n = len(A)
    R = pd.DataFrame({c: (np.argsort(np.argsort(A[c].to_numpy())) + 1) / 128.0 for c in A.columns})
    rs = np.random.RandomState(77)
    base = np.sort(R['a'].to_numpy())
    noise = lambda s: np.argsort(np.argsort(np.arange(n) + s * rs.normal(size=n)))      # noisy monotone rank permutation
    P = pd.DataFrame({'a': base[rs.permutation(n)]})
    ra = np.argsort(np.argsort(P['a'].to_numpy()))
    P['b'] = np.sort(R['b'].to_numpy())[::-1][np.argsort(np.argsort(ra + 6 * rs.normal(size=n)))]      # strongly NEGATIVE with a
    P['c'] = np.sort(R['c'].to_numpy())[rs.permutation(n)]                                              # independent
    rc = np.argsort(np.argsort(P['c'].to_numpy()))
    P['d'] = np.sort(R['d'].to_numpy())[np.argsort(np.argsort(rc + 4 * rs.normal(size=n)))]            # strongly positive with c
    assert all(sorted(P[c]) == sorted(R[c]) and float(P[c].sum()) == float(R[c].sum()) for c in R.columns)
    return R, P


def _vine_struct(v):
    out = []
    for t in v.trees:
        out.append([(int(e.L), int(e.R), sorted(int(x) for x in e.D), str(e.name), float(e.theta)) for e in t.edges])
    return out


def vine_history_replay(vtype, second, aspect):
    """fit(A, truncated=2); sample; likelihood; fit(second table) on ONE object vs a fresh object fitted on the second table"""
    from copulas.multivariate import VineCopula
    A, B, C = _vine_tables()
    X2, t2 = (B, 3) if second == 'B' else (C, 1)
    if second == 'P':
        A, X2 = _vine_same_margin_tables()
        t2 = 3
    if second == 'F':
        # the FIRST fit fails half-way (two perfectly co-monotone columns: the second tree cannot be estimated, ValueError also on the
        # pristine library); whatever it left behind must not leak into the next, successful fit
        import pandas as pd
        rs = np.random.RandomState(2)
        a = rs.normal(size=40)
        A = pd.DataFrame({'a': a, 'b': np.exp(a), 'c': rs.normal(size=40)})
        X2, t2 = C, 1
    with np.errstate(all='ignore'):
        v = VineCopula(vtype, random_state=5)
        if second == 'F':
            try:
                v.fit(A, truncated=3)
                return 'oracle design: the first fit was expected to raise'
            except ValueError:
                pass
        else:
            v.fit(A, truncated=2)
            v.sample(2)
            v.get_likelihood(np.full((1, 4), 0.4))
        try:
            v.fit(X2, truncated=t2)
        except Exception as ex:
            return f'fit(A); sample; fit({second}) raised {type(ex).__name__}: {str(ex)[:100]}'
        f = VineCopula(vtype, random_state=5)
        f.fit(X2, truncated=t2)
        d = X2.shape[1]
        if aspect == 'structure':
            if len(v.trees) != min(d - 1, t2):
                return f'after the re-fit the model holds {len(v.trees)} trees; a {d}-column table with truncated={t2} has {min(d - 1, t2)}'
            a, b = _vine_struct(v), _vine_struct(f)
            if a != b:
                k = next(i for i in range(len(a)) if a[i] != b[i])
                return f'tree {k + 1} after the re-fit {a[k]} differs from a fresh fit {b[k]}'
            return None
        if aspect == 'likelihood':
            u = np.linspace(0.2, 0.7, d).reshape(1, -1)
            la, lb = v.get_likelihood(u), f.get_likelihood(u)
            if not (np.isclose(la, lb, rtol=1e-9, atol=1e-12) or (np.isnan(la) and np.isnan(lb))):
                return f'get_likelihood after the re-fit {la!r} differs from a fresh fit {lb!r}'
            return None
        v.set_random_state(9); f.set_random_state(9)
        try:
            sa = np.asarray(v.sample(6), dtype=float)
        except Exception as ex:
            sa = ex
        try:
            sb = np.asarray(f.sample(6), dtype=float)
        except Exception as ex:
            sb = ex
        if isinstance(sb, Exception):
            return None if isinstance(sa, Exception) else 'fresh model raises in sample but the re-fitted one returns'
        if isinstance(sa, Exception):
            return f'sample after the re-fit raised {type(sa).__name__}: {str(sa)[:100]}'
        if sa.shape != sb.shape or not np.allclose(sa, sb, rtol=1e-9, atol=1e-12, equal_nan=True):
            return (f'sample after the re-fit differs from a fresh model with the same seed: first row {sa[0].tolist()} vs {sb[0].tolist()} '
                    f'(second table medians {np.median(X2.to_numpy(), axis=0).tolist()})')
        return None


def vine_history(ctx, aspects):
    for vtype in ('center', 'direct', 'regular'):
        for second in ('B', 'C', 'P', 'F'):
            for aspect in aspects:
                ctx.case(('vine-history', vtype, second, aspect), {'vine': vtype, 'history': f'fit(A,t=2); sample; likelihood; fit({second})' + (' [P: same margins as A, other dependence]' if second == 'P' else ' [F: the first fit FAILS half-way]' if second == 'F' else ''), 'aspect': aspect})
                try:
                    why = vine_history_replay(vtype, second, aspect)
                except Exception as ex:
                    why = f'oracle raised {type(ex).__name__}: {str(ex)[:120]}'
                ctx.obligation(f'oracle:vine-history:{vtype}:{second}:{aspect}', why is None, 'correspondence', why or '')
                if why:
                    ctx.violation(f'search:vine-history:{aspect}:{vtype}', f"VineCopula('{vtype}'): {why}",
                                  {'vine': vtype, 'second_table': second, 'aspect': aspect,
                                   'repro': ('from vf.extra_oracles import vine_history_replay\n'
                                             f'why = vine_history_replay({vtype!r}, {second!r}, {aspect!r})\nprint(why)\nassert why is None\n')})
