"""History / recovery oracles added after seeded changes were missed (see DESIGN.md section 0, seeded-change log).
They state the property on the real classes for multi-step histories and for tables with a known generating law."""
import numpy as np


def _tables(seed):
    import pandas as pd
    rs = np.random.RandomState(seed)
    z1 = rs.multivariate_normal([0, 0, 0], [[1, .85, .3], [.85, 1, .4], [.3, .4, 1]], 400)
    z2 = rs.multivariate_normal([0, 0, 0], [[1, -.85, -.2], [-.85, 1, .5], [-.2, .5, 1]], 400)
    cols = ['z', 'm', 'a']      # deliberately not alphabetical
    return pd.DataFrame(z1, columns=cols), pd.DataFrame(z2, columns=cols)


def _capture_cond(g, n, conditions):
    rec = {}
    orig = np.random.multivariate_normal

    def fake(mean, cov, size=None, *a, **k):
        rec['mean'], rec['cov'] = np.array(mean, dtype=float), np.array(cov, dtype=float)
        return orig(mean, cov, size, *a, **k)
    np.random.multivariate_normal = fake
    try:
        out = g.sample(n, conditions=conditions)
    finally:
        np.random.multivariate_normal = orig
    return out, rec


def gm_refit_history(ctx, which):
    """fit(data1); query; fit(data2); query  must equal  fresh fit(data2); query   (pdf/cdf for C13, conditional law for C12)."""
    from copulas.multivariate import GaussianMultivariate
    from copulas.univariate import GaussianUnivariate
    d1, d2 = _tables(ctx.seed + 77)
    pts = d2.iloc[:7]
    cond = {'m': 0.8}
    rep = ("import numpy as np, pandas as pd\nfrom vf.extra_oracles import _tables, _capture_cond\nfrom copulas.multivariate import GaussianMultivariate\n"
           "from copulas.univariate import GaussianUnivariate\n"
           f"d1,d2=_tables({ctx.seed + 77})\npts=d2.iloc[:7]\n"
           "g=GaussianMultivariate(distribution=GaussianUnivariate, random_state=3); g.fit(d1); g.probability_density(pts); g.sample(4, conditions={'m':0.8}); g.fit(d2)\n"
           "f=GaussianMultivariate(distribution=GaussianUnivariate, random_state=3); f.fit(d2)\n"
           "assert np.allclose(g.probability_density(pts), f.probability_density(pts), rtol=1e-12, atol=0)\n"
           "a=_capture_cond(g,4,{'m':0.8})[1]; b=_capture_cond(f,4,{'m':0.8})[1]\nassert np.allclose(a['mean'],b['mean'],atol=1e-12) and np.allclose(a['cov'],b['cov'],atol=1e-12)\n")
    g = GaussianMultivariate(distribution=GaussianUnivariate, random_state=3)
    g.fit(d1)
    g.probability_density(pts)
    g.cumulative_distribution(pts.iloc[:2])
    g.sample(4, conditions=cond)
    g.fit(d2)
    f = GaussianMultivariate(distribution=GaussianUnivariate, random_state=3)
    f.fit(d2)
    ctx.case(('refit-history', which), {'history': 'fit(d1); pdf; cdf; sample(cond); fit(d2); queries vs fresh fit(d2)'})
    if which == 'C13':
        a, b = g.probability_density(pts), f.probability_density(pts)
        la, lb = g.log_probability_density(pts), f.log_probability_density(pts)
        ok = np.allclose(a, b, rtol=1e-12, atol=0) and np.allclose(la, lb, rtol=1e-12, atol=1e-12)
        ctx.obligation('oracle:refit-history:pdf', ok, 'correspondence', f'{a} vs {b}')
        if not ok:
            ctx.violation('oracle:refit-history:density-uses-stale-state',
                          f'probability_density after fit(d1); query; fit(d2) differs from a fresh model fitted on d2: {a[:3]} vs {b[:3]}',
                          {'refit': a.tolist(), 'fresh': b.tolist(), 'repro': rep})
    else:
        (_, ra), (_, rb) = _capture_cond(g, 4, cond), _capture_cond(f, 4, cond)
        ok = np.allclose(ra['mean'], rb['mean'], atol=1e-12) and np.allclose(ra['cov'], rb['cov'], atol=1e-12)
        ctx.obligation('oracle:refit-history:conditional-law', ok, 'correspondence', f"{ra} vs {rb}")
        if not ok:
            ctx.violation('oracle:refit-history:conditional-law-uses-stale-state',
                          f"conditional mean/covariance after fit(d1); sample(cond); fit(d2) differ from a fresh model fitted on d2: mean {ra['mean']} vs {rb['mean']}",
                          {'refit_mean': ra['mean'].tolist(), 'fresh_mean': rb['mean'].tolist(), 'repro': rep})


def gm_recovery(ctx):
    """C01 (search only): a table drawn from a known Gaussian copula, with a constant column FIRST and a column with a large offset and
    a small spread: the fitted correlation must be within a 7-sigma band of the generating one, the small-spread column must not be
    collapsed to a constant, the constant column must be reproduced exactly."""
    import pandas as pd
    from copulas.multivariate import GaussianMultivariate
    from copulas.univariate import GaussianUnivariate
    rs = np.random.RandomState(ctx.seed + 101)
    n = 2000
    rho = np.array([[1, .8, -.5], [.8, 1, -.3], [-.5, -.3, 1]])
    z = rs.multivariate_normal([0, 0, 0], rho, n)
    X = pd.DataFrame({'batch': np.full(n, 7.0), 'x': z[:, 0], 'y': 1e6 + 0.5 * z[:, 1], 'w': np.exp(z[:, 2])})
    g = GaussianMultivariate(distribution=GaussianUnivariate, random_state=5)
    g.fit(X)
    C = g.correlation
    S = g.sample(500)
    band = 0.15          # normal-scores correlation estimator: sd <= 1/sqrt(n) = 0.022; 0.15 is > 6.7 sd
    rep = ("import numpy as np, pandas as pd\nfrom copulas.multivariate import GaussianMultivariate\nfrom copulas.univariate import GaussianUnivariate\n"
           f"rs=np.random.RandomState({ctx.seed + 101}); n=2000\nrho=np.array([[1,.8,-.5],[.8,1,-.3],[-.5,-.3,1]])\nz=rs.multivariate_normal([0,0,0],rho,n)\n"
           "X=pd.DataFrame({'batch':np.full(n,7.0),'x':z[:,0],'y':1e6+0.5*z[:,1],'w':np.exp(z[:,2])})\n"
           "g=GaussianMultivariate(distribution=GaussianUnivariate, random_state=5); g.fit(X); C=g.correlation; S=g.sample(500)\nprint(C)\n"
           "assert abs(C.loc['x','y']-0.8)<0.15 and abs(C.loc['x','w']+0.5)<0.2 and S['y'].std()>0.1 and (S['batch']==7.0).all()\n")
    bad = []
    if abs(C.loc['x', 'y'] - 0.8) > band:
        bad.append(f"fitted corr(x,y)={C.loc['x','y']:.3f} vs generating 0.8")
    if abs(C.loc['x', 'w'] + 0.5) > band + 0.05:      # exp() marginal fitted by a Gaussian: scores only monotone-related
        bad.append(f"fitted corr(x,w)={C.loc['x','w']:.3f} vs generating -0.5")
    if not (S['y'].std() > 0.1):
        bad.append(f"column y (1e6 + 0.5 z, {X['y'].nunique()} distinct values) is sampled with std {S['y'].std():.2e}: collapsed to a constant")
    if not (S['batch'] == 7.0).all():
        bad.append('constant column not reproduced exactly')
    if list(S.columns) != list(X.columns) or S.isna().any().any():
        bad.append('schema / missing values')
    ctx.case(('recovery', 'const-first+small-spread'), {'columns': list(X.columns), 'n': n})
    ctx.obligation('oracle:recovery:const-first-small-spread', not bad, 'correspondence', '; '.join(bad))
    if bad:
        ctx.violation('search:recovery:const-first-small-spread', 'Gaussian-copula table [const, x, 1e6+0.5z, exp(z)]: ' + '; '.join(bad), {'problems': bad, 'repro': rep})


def unfitted_edge_inputs(ctx):
    """C19: every query of every UNFITTED univariate model must raise NotFittedError also for unusual but valid inputs
    (boundary-only probabilities, empty arrays, a single value) — added after seed C19_b (check_fit moved behind an early return)."""
    from copulas import univariate as U
    from copulas.errors import NotFittedError
    inputs = {'boundary': np.array([0.0, 1.0]), 'eps': np.array([1e-9, 1 - 1e-9]), 'interior': np.array([0.25, 0.5]),
              'single': np.array([0.5]), 'empty': np.array([])}
    classes = [U.GaussianUnivariate, U.UniformUnivariate, U.GammaUnivariate, U.BetaUnivariate, U.StudentTUnivariate,
               U.TruncatedGaussian, U.GaussianKDE, U.LogLaplace, U.Univariate]
    for cls in classes:
        for meth in ('cumulative_distribution', 'probability_density', 'percent_point', 'log_probability_density', 'cdf', 'pdf', 'ppf'):
            for kind, x in inputs.items():
                m = cls()
                if not hasattr(m, meth):
                    continue
                try:
                    r = getattr(m, meth)(x.copy())
                    outcome = f'returned {np.asarray(r).tolist()!r}'
                except NotFittedError:
                    outcome = None
                except Exception as ex:
                    outcome = f'raised {type(ex).__name__}: {ex}'
                ctx.case(('unfitted-edge', cls.__name__, meth, kind), None)
                if outcome is not None:
                    ctx.obligation(f'oracle:unfitted-edge:{cls.__name__}.{meth}:{kind}', False, 'correspondence', outcome)
                    ctx.violation(f'unfitted:{cls.__name__}.{meth}:{kind}-input', f'unfitted {cls.__name__}().{meth}({x.tolist()}) {outcome} instead of raising NotFittedError',
                                  {'class': cls.__name__, 'method': meth, 'input': x.tolist(),
                                   'repro': (f"import numpy as np\nfrom copulas import univariate as U\nfrom copulas.errors import NotFittedError\n"
                                             f"try:\n    U.{cls.__name__}().{meth}(np.array({x.tolist()!r}))\n    raise SystemExit(1)\nexcept NotFittedError:\n    pass\n")})
    ctx.obligation('oracle:unfitted-edge-inputs', True, 'correspondence')
