"""Oracles added after round 4 of seeded changes (representation / numerical-edge and sequence / failure-path flavours).
Each states a clause of a property on the real classes for a history that the round showed to be missing; every oracle has a replay
entry point (a function returning None or a description) used by the replay snippets."""
import numpy as np


def _obs_gm(m, X):
    """observable behaviour of a fitted GaussianMultivariate: correlation, marginals, a seeded sample, density on training rows"""
    out = {'columns': list(m.columns), 'corr': np.asarray(m.correlation, dtype=float).tolist(),
           'unis': [repr(sorted((k, (np.asarray(v).tolist() if not isinstance(v, str) else v)) for k, v in u.to_dict().items())) for u in m.univariates]}
    st = np.random.get_state()
    try:
        m.set_random_state(1234)
        with np.errstate(all='ignore'):
            out['sample'] = np.asarray(m.sample(5), dtype=float).tolist()
            out['pdf'] = np.asarray(m.probability_density(X.iloc[:4]), dtype=float).tolist()
    finally:
        np.random.set_state(st)
    return out


def _diff(a, b):
    bad = []
    for k in a:
        x, y = a[k], b[k]
        try:
            same = (x == y) or np.allclose(np.asarray(x, dtype=float), np.asarray(y, dtype=float), rtol=1e-12, atol=0, equal_nan=True)
        except Exception:
            same = x == y
        if not same:
            bad.append(k)
    return bad


# ======================================================================================================================
# two models built from ONE configuration object (per-column dict of prototype instances): fitting the second must not touch the first
# ======================================================================================================================
def gm_shared_config_replay(kind):
    import pandas as pd
    from copulas.multivariate import GaussianMultivariate
    from copulas.univariate import GammaUnivariate, GaussianKDE, GaussianUnivariate, TruncatedGaussian, UniformUnivariate
    rs = np.random.RandomState(99)
    z = rs.multivariate_normal([0, 0, 0], [[1, .7, .2], [.7, 1, -.3], [.2, -.3, 1]], 120)
    t1 = pd.DataFrame({'x': 2 + z[:, 0], 'y': np.exp(0.5 * z[:, 1]), 'w': z[:, 2]})
    w = rs.multivariate_normal([0, 0, 0], [[1, -.6, 0], [-.6, 1, .5], [0, .5, 1]], 90)
    t2 = pd.DataFrame({'x': 50 + 5 * w[:, 0], 'y': 10 + np.exp(w[:, 1]), 'w': -20 + 3 * w[:, 2]})
    if kind == 'dict-of-instances':
        cfg = {'x': GaussianUnivariate(), 'y': GammaUnivariate(), 'w': GaussianKDE()}
    elif kind == 'dict-shared-instance':
        p = GaussianUnivariate()
        cfg = {'x': p, 'y': p, 'w': UniformUnivariate()}
    elif kind == 'single-instance':
        cfg = TruncatedGaussian(minimum=-1000.0, maximum=1000.0)
    else:
        cfg = {'x': GaussianUnivariate, 'y': 'copulas.univariate.gamma.GammaUnivariate'}
    with np.errstate(all='ignore'):
        a = GaussianMultivariate(distribution=cfg, random_state=1)
        a.fit(t1)
        before = _obs_gm(a, t1)
        b = GaussianMultivariate(distribution=cfg, random_state=2)
        b.fit(t2)
        b.sample(3)
        after = _obs_gm(a, t1)
    d = _diff(before, after)
    if d:
        return (f'model A (fitted on table 1) changed in {d} when model B, built from the same distribution configuration, was fitted on '
                f'table 2: e.g. marginal of the first column {before["unis"][0][:90]} -> {after["unis"][0][:90]}')
    if any(u is v for u in a.univariates for v in b.univariates):
        return 'models A and B share a fitted marginal object'
    return None


def gm_shared_config(ctx):
    for kind in ('dict-of-instances', 'dict-shared-instance', 'single-instance', 'dict-of-classes'):
        ctx.case(('shared-config', kind), {'history': 'A(cfg).fit(t1); B(cfg).fit(t2); observe A again', 'configuration': kind})
        try:
            why = gm_shared_config_replay(kind)
        except Exception as ex:
            why = f'oracle raised {type(ex).__name__}: {str(ex)[:120]}'
        ctx.obligation(f'oracle:shared-config:{kind}', why is None, 'correspondence', why or '')
        if why:
            ctx.violation(f'search:two-models-one-config:{kind}', why,
                          {'configuration': kind, 'repro': ('from vf.extra_oracles2 import gm_shared_config_replay\n'
                                                            f'why = gm_shared_config_replay({kind!r})\nprint(why)\nassert why is None\n')})


# ======================================================================================================================
# retention of the caller's buffer: fit(buf); the caller refills buf in place; the fitted model must not move
# ======================================================================================================================
def _uni_obs(m, pts):
    def t(f):
        try:
            with np.errstate(all='ignore'):
                return f()
        except Exception as ex:
            return 'raises ' + type(ex).__name__
    return {'cdf': t(lambda: np.asarray(m.cumulative_distribution(pts), dtype=float).tolist()),
            'pdf': t(lambda: np.asarray(m.probability_density(pts), dtype=float).tolist()),
            'ppf': t(lambda: np.asarray(m.percent_point(np.array([0.1, 0.5, 0.9])), dtype=float).tolist()),
            'dict': t(lambda: repr(sorted((k, (np.asarray(v).tolist() if not isinstance(v, str) else v)) for k, v in m.to_dict().items())))}


def retention_replay(cname, container):
    from copulas import univariate as U
    rs = np.random.RandomState(7)
    data = rs.gamma(3.0, 2.0, 80) + 1.0
    other = rs.normal(400.0, 30.0, 80)
    kw = {}
    cls = getattr(U, cname.split('(')[0])
    if '(' in cname:
        kw = eval('dict(' + cname.split('(', 1)[1][:-1] + ')')
    m = cls(**kw)
    if container == 'ndarray':
        buf = np.array(data, dtype=float)
    elif container == 'fortran-column':
        buf = np.asfortranarray(np.column_stack([data, data]))[:, 0]
    else:
        import pandas as pd
        buf = pd.Series(np.array(data, dtype=float))
    pts = np.array([2.0, 5.0, 7.5, 12.0, 300.0, 420.0])
    with np.errstate(all='ignore'):
        m.fit(buf)
        before = _uni_obs(m, pts)
        if container == 'series':
            buf.iloc[:] = other
        else:
            buf[:] = other
        m2 = cls(**kw)
        m2.fit(np.array(other[::-1], dtype=float))       # another model fitted meanwhile (shared class-level state would show here)
        after = _uni_obs(m, pts)
    d = _diff(before, after)
    if d:
        return (f'{cname}: after fit(buf) the caller refilled buf in place (and fitted another model): {d} of the FIRST model changed, e.g. '
                f'cdf {before["cdf"][:3]} -> {after["cdf"][:3]}: the model keeps a view of the caller\'s array')
    return None


RETENTION_CLASSES = ['GaussianUnivariate', 'UniformUnivariate', 'GammaUnivariate', 'BetaUnivariate', 'StudentTUnivariate', 'LogLaplace',
                     'TruncatedGaussian', 'GaussianKDE', "GaussianKDE(bw_method='silverman')", 'Univariate']


def retention(ctx, classes=None):
    for cname in (classes or RETENTION_CLASSES):
        for container in ('ndarray', 'fortran-column', 'series'):
            ctx.case(('retention', cname, container), {'history': 'm.fit(buf); buf[:] = other data; fit another model; observe m', 'class': cname,
                                                       'container': container})
            try:
                why = retention_replay(cname, container)
            except Exception as ex:
                why = f'oracle raised {type(ex).__name__}: {str(ex)[:120]}'
            ctx.obligation(f'oracle:retention:{cname}:{container}', why is None, 'correspondence', why or '')
            if why:
                ctx.violation(f'search:model-aliases-training-buffer:{cname.split("(")[0]}', why,
                              {'class': cname, 'container': container,
                               'repro': ('from vf.extra_oracles2 import retention_replay\n'
                                         f'why = retention_replay({cname!r}, {container!r})\nprint(why)\nassert why is None\n')})


# ======================================================================================================================
# process-wide numpy state: a call that FAILS must leave np.geterr() as it found it; the next call on another object is unaffected
# ======================================================================================================================
def biv_error_state_replay(fam, meth):
    from .extra_oracles import _biv_new
    th = {'clayton': 2.0, 'frank': 5.0, 'gumbel': 2.5}[fam]
    bad_inputs = [np.array([[2.0, 2.0]]), np.array([[-1.0, 0.5]]), np.array([[np.nan, 0.5]]), np.array([[0.5, np.inf]])]
    edge = np.array([[0.0, 0.3], [0.4, 0.0], [1.0, 0.7], [0.2, 1.0], [0.0, 0.0], [1.0, 1.0], [0.3, 0.6]])
    ref = {}
    for f2 in ('clayton', 'frank', 'gumbel'):
        o = _biv_new(f2, {'clayton': 2.0, 'frank': 5.0, 'gumbel': 2.5}[f2])
        import warnings
        with warnings.catch_warnings():
            warnings.simplefilter('ignore')
            ref[f2] = np.asarray(o.cumulative_distribution(edge.copy()), dtype=float)
    import warnings
    err0 = np.geterr()
    o = _biv_new(fam, th)
    for X in bad_inputs:
        try:
            with warnings.catch_warnings():          # NOT np.errstate: that would restore the very state under observation
                warnings.simplefilter('ignore')
                if meth == 'percent_point':
                    o.percent_point(X[:, 0].copy(), X[:, 1].copy())
                else:
                    getattr(o, meth)(X.copy())
        except Exception:
            pass
    err1 = np.geterr()
    if err1 != err0:
        return f'{fam}.{meth} on an out-of-square / non-finite point changed numpy\'s process-wide error state: {err0} -> {err1}'
    for f2 in ('clayton', 'frank', 'gumbel'):
        o2 = _biv_new(f2, {'clayton': 2.0, 'frank': 5.0, 'gumbel': 2.5}[f2])
        try:
            with warnings.catch_warnings():
                warnings.simplefilter('ignore')
                got = np.asarray(o2.cumulative_distribution(edge.copy()), dtype=float)
        except Exception as ex:
            return (f'after a failed {fam}.{meth} call, {f2}.cumulative_distribution on a batch with exact 0/1 coordinates raises '
                    f'{type(ex).__name__}: {str(ex)[:80]} (it returned values before)')
        if not np.array_equal(got, ref[f2], equal_nan=True):
            return f'after a failed {fam}.{meth} call, {f2}.cumulative_distribution on the boundary batch changed: {ref[f2].tolist()} -> {got.tolist()}'
    return None


def biv_error_state(ctx, methods):
    st = np.geterr()
    try:
        for fam in ('clayton', 'frank', 'gumbel'):
            for meth in methods:
                ctx.case(('error-state', fam, meth), {'history': f'{fam}.{meth}(points outside the unit square / NaN / inf), then boundary batches on all families'})
                np.seterr(**st)
                try:
                    why = biv_error_state_replay(fam, meth)
                except Exception as ex:
                    why = f'oracle raised {type(ex).__name__}: {str(ex)[:120]}'
                ctx.obligation(f'oracle:error-state:{fam}:{meth}', why is None, 'correspondence', why or '')
                if why:
                    ctx.violation(f'search:failed-call-leaks-numpy-error-state:{fam}:{meth}', why,
                                  {'family': fam, 'method': meth,
                                   'repro': ('from vf.extra_oracles2 import biv_error_state_replay\n'
                                             f'why = biv_error_state_replay({fam!r}, {meth!r})\nprint(why)\nassert why is None\n')})
    finally:
        np.seterr(**st)


# ======================================================================================================================
# C01: a constant training column is reproduced EXACTLY, whatever its dtype and magnitude
# ======================================================================================================================
def gm_constant_exact_replay(dist):
    import pandas as pd
    from copulas.multivariate import GaussianMultivariate
    from copulas import univariate as U
    rs = np.random.RandomState(5)
    n = 40
    big = 1700000000123456789                      # > 2**53: not representable as a float64
    X = pd.DataFrame({'snapshot_ns': np.full(n, big, dtype=np.int64), 'x': rs.normal(size=n), 'flag': np.full(n, 7, dtype=np.int32),
                      'third': np.full(n, 0.1 + 0.2), 'y': rs.gamma(2.0, size=n), 'neg0': np.full(n, -0.0), 'tiny': np.full(n, 5e-324)})
    d = None if dist == 'default' else getattr(U, dist)
    m = GaussianMultivariate(random_state=3) if d is None else GaussianMultivariate(distribution=d, random_state=3)
    with np.errstate(all='ignore'):
        m.fit(X)
        S = m.sample(6)
    if list(S.columns) != list(X.columns) or len(S) != 6:
        return f'schema: {list(S.columns)} x {len(S)}'
    for c, want in (('snapshot_ns', big), ('flag', 7), ('third', 0.1 + 0.2), ('tiny', 5e-324)):
        vals = S[c].tolist()
        ok = all((int(v) == want if isinstance(want, int) and float(v) == v else v == want) for v in vals)
        if isinstance(want, int) and want > 2 ** 53:
            ok = all(int(v) == want for v in vals) and str(S[c].dtype).startswith('int')
        if not ok:
            return (f'constant training column {c!r} (dtype {X[c].dtype}, value {want!r}) is not reproduced exactly: sampled values '
                    f'{vals[:3]} (dtype {S[c].dtype})')
    if not all(v == 0 and np.signbit(v) for v in S['neg0'].tolist()):
        return f'constant column neg0 = -0.0 sampled as {S["neg0"].tolist()[:3]}'
    return None


def gm_constant_exact(ctx):
    for dist in ('GaussianUnivariate', 'default'):
        ctx.case(('constant-exact', dist), {'table': 'constant int64 > 2**53, int32, 0.1+0.2, -0.0, 5e-324 columns next to two random ones', 'marginals': dist})
        try:
            why = gm_constant_exact_replay(dist)
        except Exception as ex:
            why = f'oracle raised {type(ex).__name__}: {str(ex)[:120]}'
        ctx.obligation(f'oracle:constant-exact:{dist}', why is None, 'correspondence', why or '')
        if why:
            ctx.violation(f'search:constant-column-not-exact:{dist}', why,
                          {'marginals': dist, 'repro': ('from vf.extra_oracles2 import gm_constant_exact_replay\n'
                                                        f'why = gm_constant_exact_replay({dist!r})\nprint(why)\nassert why is None\n')})


# ======================================================================================================================
# C04: infinite user bounds of TruncatedGaussian are legal one-sided truncations and must be honoured
# ======================================================================================================================
def truncated_infinite_bound_replay(side):
    from copulas.univariate import TruncatedGaussian
    rs = np.random.RandomState(11)
    x = np.abs(rs.normal(0.0, 2.0, 300)) + 1.0 if side == 'upper-inf' else -(np.abs(rs.normal(0.0, 2.0, 300)) + 1.0)
    kw = {'minimum': 1.0, 'maximum': float('inf')} if side == 'upper-inf' else {'minimum': float('-inf'), 'maximum': -1.0}
    m = TruncatedGaussian(**kw)
    with np.errstate(all='ignore'):
        m.fit(x)
        d = m.to_dict()
        lo = d['loc'] + d['a'] * d['scale']
        hi = d['loc'] + d['b'] * d['scale']
        beyond = np.array([x.max() + 1.0, x.max() + 5.0]) if side == 'upper-inf' else np.array([x.min() - 1.0, x.min() - 5.0])
        cdf = np.asarray(m.cumulative_distribution(beyond), dtype=float)
        pdf = np.asarray(m.probability_density(beyond), dtype=float)
    if side == 'upper-inf':
        if not (hi == float('inf') and abs(lo - 1.0) < 1e-9):
            return f'TruncatedGaussian(minimum=1, maximum=inf): fitted support is ({lo!r}, {hi!r}), not (1, inf)'
        if not (np.all(cdf < 1.0) and np.all(pdf > 0.0)):
            return f'TruncatedGaussian(minimum=1, maximum=inf): beyond the sample maximum cdf = {cdf.tolist()}, pdf = {pdf.tolist()} (the support was cut at the data)'
    else:
        if not (lo == float('-inf') and abs(hi + 1.0) < 1e-9):
            return f'TruncatedGaussian(minimum=-inf, maximum=-1): fitted support is ({lo!r}, {hi!r}), not (-inf, -1)'
        if not (np.all(cdf > 0.0) and np.all(pdf > 0.0)):
            return f'TruncatedGaussian(minimum=-inf, maximum=-1): below the sample minimum cdf = {cdf.tolist()}, pdf = {pdf.tolist()}'
    return None


def truncated_infinite_bound(ctx):
    for side in ('upper-inf', 'lower-inf'):
        ctx.case(('truncated-infinite-bound', side), {'bounds': side})
        try:
            why = truncated_infinite_bound_replay(side)
        except Exception as ex:
            why = f'oracle raised {type(ex).__name__}: {str(ex)[:120]}'
        ctx.obligation(f'oracle:truncated-infinite-bound:{side}', why is None, 'correspondence', why or '')
        if why:
            ctx.violation(f'search:user-bounds-not-honoured:truncated:{side}', why,
                          {'side': side, 'repro': ('from vf.extra_oracles2 import truncated_infinite_bound_replay\n'
                                                   f'why = truncated_infinite_bound_replay({side!r})\nprint(why)\nassert why is None\n')})


# ======================================================================================================================
# valid parameters next to the independence member of each family: Clayton theta -> 0+, Gumbel theta -> 1+, Frank theta -> 0
# first-order expansions bound the distance to (uv, u, 1, y) by the parameter offset; the implementation's rounding there is < 1e-6
# ======================================================================================================================
NEAR_INDEP = {'clayton': [5e-8, 1e-9, 1e-6], 'gumbel': [1 + 5e-8, 1 + 1e-9, 1 + 1e-6], 'frank': [5e-8, -5e-8, 1e-6, -1e-6]}


def biv_near_independence_replay(fam, th, meth):
    from .extra_oracles import _biv_new
    rs = np.random.RandomState(3)
    u, v = rs.uniform(0.01, 0.99, 400), rs.uniform(0.01, 0.99, 400)
    X = np.column_stack([u, v])
    o = _biv_new(fam, th)
    with np.errstate(all='ignore'):
        if meth == 'percent_point':
            got, want, tol = np.asarray(o.percent_point(u.copy(), v.copy()), dtype=float), u, 1e-5
        elif meth == 'sample':
            draws = [v.copy(), u.copy()]
            orig = np.random.uniform
            np.random.uniform = lambda low=0.0, high=1.0, size=None: draws.pop(0) if draws else orig(low, high, size)
            try:
                S = np.asarray(o.sample(len(u)), dtype=float)
            finally:
                np.random.uniform = orig
            got, want, tol = S[:, 0], u, 1e-5          # first column = percent_point(c = u, v) ~ c
        else:
            got = np.asarray(getattr(o, meth)(X.copy()), dtype=float)
            want, tol = {'cumulative_distribution': (u * v, 1e-5), 'partial_derivative': (u, 1e-5), 'probability_density': (np.ones_like(u), 1e-4),
                         'log_probability_density': (np.zeros_like(u), 1e-4)}[meth]
    err = np.abs(got - want)
    err[~np.isfinite(got)] = np.inf
    k = int(np.argmax(err))
    if err[k] > tol:
        return (f'{fam} theta={th!r} (a valid parameter within 1e-6 of the independence member): {meth} at (u, v) = ({u[k]!r}, {v[k]!r}) is '
                f'{got[k]!r}; the independence value is {want[k]!r} and the first-order term is below {tol}')
    return None


def biv_near_independence(ctx, methods):
    for fam, ths in NEAR_INDEP.items():
        for th in ths:
            for meth in methods:
                ctx.case(('near-independence', fam, th, meth), None)
                try:
                    why = biv_near_independence_replay(fam, th, meth)
                except Exception as ex:
                    why = f'raised {type(ex).__name__}: {str(ex)[:120]}'
                ctx.obligation(f'oracle:near-independence:{fam}:{th}:{meth}', why is None, 'correspondence', why or '')
                if why:
                    ctx.violation(f'search:near-independence:{meth}:{fam}', why,
                                  {'family': fam, 'theta': th, 'method': meth,
                                   'repro': ('from vf.extra_oracles2 import biv_near_independence_replay\n'
                                             f'why = biv_near_independence_replay({fam!r}, {th!r}, {meth!r})\nprint(why)\nassert why is None\n')})


# ======================================================================================================================
# rows with an exact 0 / 1 coordinate inside a batch must not change how the interior rows are evaluated
# ======================================================================================================================
def biv_boundary_rows_replay(fam, th, meth):
    from .extra_oracles import _biv_new
    rs = np.random.RandomState(17)
    I = np.column_stack([rs.uniform(0.02, 0.98, 30), rs.uniform(0.02, 0.98, 30)])
    for extra in (np.array([[0.0, 0.3]]), np.array([[0.4, 0.0]]), np.array([[1.0, 0.3]]), np.array([[0.2, 1.0]]), np.array([[0.0, 0.0], [1.0, 1.0]])):
        o = _biv_new(fam, th)
        with np.errstate(all='ignore'):
            alone = np.asarray(getattr(o, meth)(I.copy()), dtype=float)
            mixed = np.asarray(getattr(_biv_new(fam, th), meth)(np.vstack([extra, I, extra])), dtype=float)[len(extra):len(extra) + len(I)]
        if not np.array_equal(alone, mixed, equal_nan=True):
            k = int(np.argmax(np.abs(alone - mixed)))
            return (f'{fam} theta={th}: {meth} of the interior row {I[k].tolist()} is {alone[k]!r} in an interior batch but {mixed[k]!r} when the batch '
                    f'also contains the boundary row(s) {extra.tolist()}')
    return None


def biv_boundary_rows(ctx, methods):
    for fam, ths in (('clayton', [0.8, 6.0]), ('frank', [-7.0, 3.0]), ('gumbel', [1.25, 4.0])):
        for th in ths:
            for meth in methods:
                ctx.case(('boundary-rows', fam, th, meth), None)
                try:
                    why = biv_boundary_rows_replay(fam, th, meth)
                except Exception as ex:
                    why = f'raised {type(ex).__name__}: {str(ex)[:120]}'
                ctx.obligation(f'oracle:boundary-rows:{fam}:{th}:{meth}', why is None, 'correspondence', why or '')
                if why:
                    ctx.violation(f'search:rowwise:boundary-row-in-batch:{meth}:{fam}', why,
                                  {'family': fam, 'theta': th, 'method': meth,
                                   'repro': ('from vf.extra_oracles2 import biv_boundary_rows_replay\n'
                                             f'why = biv_boundary_rows_replay({fam!r}, {th!r}, {meth!r})\nprint(why)\nassert why is None\n')})


# ======================================================================================================================
# percent_point: the result does not depend on the container of (y, V): list, tuple, Series (default / shuffled / filtered index), views
# and a result handed out earlier is never changed by a later call (on this or another object)
# ======================================================================================================================
def biv_ppf_containers_replay(fam, th):
    import pandas as pd
    from .extra_oracles import _biv_new
    rs = np.random.RandomState(23)
    y, v = rs.uniform(0.05, 0.95, 9), rs.uniform(0.05, 0.95, 9)
    with np.errstate(all='ignore'):
        ref = np.asarray(_biv_new(fam, th).percent_point(y.copy(), v.copy()), dtype=float)
        perm = rs.permutation(9)
        big = np.column_stack([y, v, y])
        variants = {
            'list': (list(y), list(v)), 'tuple': (tuple(y), tuple(v)),
            'series-default-index': (pd.Series(y), pd.Series(v)),
            'series-shuffled-index': (pd.Series(y, index=perm), pd.Series(v, index=perm)),
            'series-filtered-index': (pd.Series(np.r_[y, 0.5], index=np.arange(10) * 3)[:-1], pd.Series(np.r_[v, 0.5], index=np.arange(10) * 3)[:-1]),
            'series-and-ndarray': (pd.Series(y, index=perm), v.copy()),
            'strided-views': (big[:, 0], big[:, 1]), 'float32': (y.astype(np.float32), v.astype(np.float32)),
        }
        for name, (a, b) in variants.items():
            try:
                got = np.asarray(_biv_new(fam, th).percent_point(a, b), dtype=float)
            except Exception as ex:
                return f'{fam} theta={th}: percent_point(y, V) with {name} arguments raises {type(ex).__name__}: {str(ex)[:80]} (ndarray arguments work)'
            tol = 1e-12
            if name == 'float32':       # the reference: the same (rounded) numbers held in float64 (round 7: roots stored back in the input dtype)
                ref = np.asarray(_biv_new(fam, th).percent_point(a.astype(float), b.astype(float)), dtype=float)
                # Clayton's closed form is evaluated in the precision of its arguments (single precision in, single precision out); the
                # Brent families solve every lane in double precision whatever the storage of y and V
                tol = 1e-5 if fam == 'clayton' else 1e-10
            if got.shape != ref.shape or not np.allclose(got, ref, rtol=0, atol=tol):
                k = int(np.argmax(np.abs(got - ref))) if got.shape == ref.shape else 0
                return (f'{fam} theta={th}: percent_point(y, V) with {name} arguments returns {got.tolist()[:4]}..., with ndarray arguments '
                        f'{ref.tolist()[:4]}... (element {k})')
        # results are values, not views of shared state
        a_obj, b_obj = _biv_new(fam, th), _biv_new(fam, th)
        r1 = a_obj.percent_point(y.copy(), v.copy())
        keep = np.array(r1, dtype=float, copy=True)
        b_obj.percent_point(v[:4].copy(), y[:4].copy())
        a_obj.percent_point(np.array([0.5]), np.array([0.5]))
        if not np.array_equal(np.asarray(r1, dtype=float), keep):
            return f'{fam} theta={th}: an array returned by percent_point was modified by later percent_point calls (on this and on another object)'
    return None


def biv_ppf_containers(ctx):
    for fam, th in (('clayton', 2.0), ('frank', 6.5), ('frank', -11.0), ('gumbel', 3.0)):
        ctx.case(('ppf-containers', fam, th), {'family': fam, 'theta': th, 'containers': 'list, tuple, Series (default/shuffled/filtered index), views, float32'})
        try:
            why = biv_ppf_containers_replay(fam, th)
        except Exception as ex:
            why = f'raised {type(ex).__name__}: {str(ex)[:120]}'
        ctx.obligation(f'oracle:ppf-containers:{fam}:{th}', why is None, 'correspondence', why or '')
        if why:
            ctx.violation(f'search:percent_point-depends-on-container:{fam}', why,
                          {'family': fam, 'theta': th, 'repro': ('from vf.extra_oracles2 import biv_ppf_containers_replay\n'
                                                                 f'why = biv_ppf_containers_replay({fam!r}, {th!r})\nprint(why)\nassert why is None\n')})


# ======================================================================================================================
# C20: containers handed to a CONSTRUCTOR (per-column distribution dict, candidate list) are caller-owned too: no later call
# (fit with a failing column, sample, a second model built from them) may change them
# ======================================================================================================================
def ctor_args_replay(kind):
    import pandas as pd
    from copulas.multivariate import GaussianMultivariate
    from copulas.univariate import GammaUnivariate, GaussianKDE, GaussianUnivariate, UniformUnivariate, Univariate

    class PositiveGamma(GammaUnivariate):
        def _fit(self, X):
            if np.min(X) <= 0:
                raise ValueError('PositiveGamma needs positive data')
            super()._fit(X)
    rs = np.random.RandomState(31)
    good = pd.DataFrame({'a': rs.gamma(2.0, 2.0, 60) + 0.5, 'b': rs.normal(size=60), 'c': rs.uniform(size=60)})
    bad = good.copy()
    bad['a'] = bad['a'] - 5.0            # negative values: PositiveGamma refuses, the column falls back to a Gaussian
    if kind == 'gm-dict-failing-column':
        inst = GaussianKDE()
        spec = {'a': PositiveGamma, 'b': inst, 'c': 'copulas.univariate.uniform.UniformUnivariate'}
        snap = dict(spec)
        with np.errstate(all='ignore'):
            A = GaussianMultivariate(distribution=spec, random_state=1)
            A.fit(bad)
            A.sample(3)
            if list(spec) != list(snap) or any(spec[k] is not snap[k] for k in snap):
                return (f'the per-column distribution dict given to GaussianMultivariate(...) was modified by fit on a table whose column a cannot be '
                        f'fitted by the configured class: {dict((k, getattr(v, "__name__", v)) for k, v in spec.items())}')
            if getattr(inst, 'fitted', False):
                return 'the prototype instance inside the caller\'s distribution dict was fitted'
            B = GaussianMultivariate(distribution=spec, random_state=1)
            B.fit(good)
            ta = type(B.univariates[0]).__name__
        if ta != 'PositiveGamma':
            return (f'after model A fell back to a Gaussian for column a, model B built from the SAME configuration models column a with {ta} '
                    f'although the configured class fits model B\'s data')
        return None
    if kind == 'univariate-candidates-list':
        cands = [GaussianUnivariate, UniformUnivariate, GaussianKDE(bw_method=0.5)]
        snap = list(cands)
        with np.errstate(all='ignore'):
            u = Univariate(candidates=cands, random_state=2)
            u.fit(good['a'].to_numpy())
            u.sample(2)
            Univariate(candidates=cands).fit(good['b'].to_numpy())
        if len(cands) != len(snap) or any(x is not y for x, y in zip(cands, snap)) or getattr(cands[2], 'fitted', False):
            return f'the candidate list given to Univariate(...) was modified: {cands}'
        return None
    if kind == 'conditions-dict-and-series':
        with np.errstate(all='ignore'):
            g = GaussianMultivariate(distribution=GaussianUnivariate, random_state=4)
            g.fit(good)
            cd = {'c': 0.3, 'a': 2.0}
            cs = pd.Series({'b': 0.1})
            snap_d, snap_s = dict(cd), cs.copy()
            g.sample(3, conditions=cd)
            g.sample(3, conditions=cs)
        if cd != snap_d or list(cd) != list(snap_d) or not cs.equals(snap_s):
            return f'sample(conditions=...) modified the caller\'s conditions: {cd}, {cs.to_dict()}'
        return None
    raise ValueError(kind)


def ctor_args(ctx):
    for kind in ('gm-dict-failing-column', 'univariate-candidates-list', 'conditions-dict-and-series'):
        ctx.case(('ctor-args', kind), {'history': kind})
        try:
            why = ctor_args_replay(kind)
        except Exception as ex:
            why = f'oracle raised {type(ex).__name__}: {str(ex)[:160]}'
        ctx.obligation(f'oracle:caller-owned-configuration:{kind}', why is None, 'correspondence', why or '')
        if why:
            ctx.violation(f'mutation:constructor-argument:{kind}', why,
                          {'kind': kind, 'repro': ('from vf.extra_oracles2 import ctor_args_replay\n'
                                                   f'why = ctor_args_replay({kind!r})\nprint(why)\nassert why is None\n')})


# ======================================================================================================================
# C20: the plot helpers on frames whose column labels are not strings (pd.DataFrame(ndarray): 0, 1, 2): frames unchanged, rows shown
# ======================================================================================================================
def viz_labels_replay(fn, labels):
    import pandas as pd
    from copulas import visualization as V
    rs = np.random.RandomState(8)
    k = 3 if fn.endswith('3d') else 2
    cols = {'int': list(range(k)), 'mixed': [0, 'b', 2.5][:k], 'tuple': [('x', 1), ('x', 2), ('y', 1)][:k], 'str': ['p', 'q', 'r'][:k]}[labels]
    real = pd.DataFrame(rs.normal(size=(7, k)), columns=cols)
    synth = pd.DataFrame(rs.normal(size=(5, k)) + 10.0, columns=cols)

    def snap(d):
        return (list(d.columns), [type(c).__name__ for c in d.columns], d.to_numpy().tolist(), [str(t) for t in d.dtypes], list(d.index))
    before = (snap(real), snap(synth))
    try:
        fig = getattr(V, fn)(real, synth) if fn.startswith('compare') else getattr(V, fn)(real)
    except Exception as ex:
        fig = ex
    after = (snap(real), snap(synth))
    if after != before:
        which = 'real' if after[0] != before[0] else 'synth'
        return (f'visualization.{fn} modified the caller\'s {which} frame with {labels} column labels: columns '
                f'{before[0][0] if which == "real" else before[1][0]} -> {after[0][0] if which == "real" else after[1][0]}')
    if isinstance(fig, Exception):
        return None if labels != 'str' else f'visualization.{fn} raised {type(fig).__name__}: {str(fig)[:100]}'
    pts = {}
    for t in fig.data:
        xs, ys = np.asarray(t.x, dtype=float), np.asarray(t.y, dtype=float)
        zs = np.asarray(t.z, dtype=float) if getattr(t, 'z', None) is not None else None
        pts[t.name] = sorted(tuple(float(v) for v in ((xs[i], ys[i]) + ((zs[i],) if zs is not None else ()))) for i in range(len(xs)))
    want = {'Real': sorted(tuple(float(v) for v in r) for r in real.to_numpy().tolist())}
    if fn.startswith('compare'):
        want['Synthetic'] = sorted(tuple(float(v) for v in r) for r in synth.to_numpy().tolist())
    if pts != want:
        return f'visualization.{fn} on frames with {labels} column labels does not show exactly the given rows under the Real/Synthetic labels: traces {sorted(pts)} sizes {[len(v) for v in pts.values()]}'
    return None


def viz_labels(ctx):
    for fn in ('scatter_2d', 'scatter_3d', 'compare_2d', 'compare_3d'):
        for labels in ('str', 'int', 'mixed', 'tuple'):
            ctx.case(('viz-labels', fn, labels), {'function': fn, 'column labels': labels})
            try:
                why = viz_labels_replay(fn, labels)
            except Exception as ex:
                why = f'oracle raised {type(ex).__name__}: {str(ex)[:160]}'
            ctx.obligation(f'oracle:viz-labels:{fn}:{labels}', why is None, 'correspondence', why or '')
            if why:
                ctx.violation(f'mutation:visualization.{fn}:frame-with-{labels}-labels', why,
                              {'function': fn, 'labels': labels, 'repro': ('from vf.extra_oracles2 import viz_labels_replay\n'
                                                                           f'why = viz_labels_replay({fn!r}, {labels!r})\nprint(why)\nassert why is None\n')})


# ======================================================================================================================
# C17: get_likelihood at legal u next to the border of the unit cube (two-column vines: one edge, so the value is log c(u_L, u_R))
# ======================================================================================================================
def vine_likelihood_border_replay(vtype):
    import pandas as pd
    from copulas.bivariate import Bivariate
    from copulas.multivariate import VineCopula
    rs = np.random.RandomState(12)
    z = rs.multivariate_normal([0, 0], [[1, .6], [.6, 1]], 150)
    X = pd.DataFrame({'a': z[:, 0], 'b': np.exp(0.3 * z[:, 1])})
    with np.errstate(all='ignore'):
        v = VineCopula(vtype, random_state=3)
        v.fit(X, truncated=1)
        e = v.trees[0].edges[0]
        cop = Bivariate(copula_type=e.name)
        cop.theta = e.theta
        us = [(0.31, 0.64), (1e-9, 0.4), (1e-8, 0.4), (0.4, 1e-9), (3e-8, 0.7), (1 - 1e-12, 0.6), (1 - 1e-9, 0.6), (0.6, 1 - 5e-8), (1e-9, 1e-9),
              (5e-324, 0.5), (0.999999, 0.000001)]
        vals = []
        for u in us:
            got = float(v.get_likelihood(np.array([list(u)])))
            xy = np.array([[u[e.L], u[e.R]]])
            want = float(np.log(cop.probability_density(xy))[0])
            vals.append(got)
            both_bad = not np.isfinite(got) and not np.isfinite(want)
            if not both_bad and not (got == want or abs(got - want) <= 1e-9 * (1 + abs(want))):
                return (f"VineCopula('{vtype}') on two columns (edge copula {e.name}, theta {float(e.theta):.4g}): get_likelihood(u = {u}) = {got!r} but the log "
                        f'density of the edge copula at that point is {want!r}')
    return None


def vine_likelihood_border(ctx):
    for vt in ('center', 'direct', 'regular'):
        ctx.case(('likelihood-border', vt), {'vine': vt, 'u': 'coordinates within 1e-7 of 0 / 1, denormal, generic'})
        try:
            why = vine_likelihood_border_replay(vt)
        except Exception as ex:
            why = f'oracle raised {type(ex).__name__}: {str(ex)[:160]}'
        ctx.obligation(f'oracle:likelihood-border:{vt}', why is None, 'correspondence', why or '')
        if why:
            ctx.violation(f'search:likelihood-at-border-not-edge-density:{vt}', why,
                          {'vine': vt, 'repro': ('from vf.extra_oracles2 import vine_likelihood_border_replay\n'
                                                 f'why = vine_likelihood_border_replay({vt!r})\nprint(why)\nassert why is None\n')})


# ======================================================================================================================
# C13: the density of a row does not depend on the float WIDTH of the container, and no query changes the model
# ======================================================================================================================
def gm_query_replay(kind):
    import pandas as pd
    from copulas.multivariate import GaussianMultivariate
    from copulas.univariate import GaussianUnivariate
    rs = np.random.RandomState(21)
    if kind in ('float32-array', 'float16-array', 'float32-frame'):
        z = rs.multivariate_normal([0, 0, 0], [[1, .5, -.3], [.5, 1, .2], [-.3, .2, 1]], 300)
        X = pd.DataFrame({'a': 2 + z[:, 0], 'b': -1 + 3 * z[:, 1], 'c': z[:, 2]})
        m = GaussianMultivariate(distribution=GaussianUnivariate, random_state=1)
        with np.errstate(all='ignore'):
            m.fit(X)
            Q = np.array([[2.0, -1.0, 0.0], [5.5, 9.5, 3.25], [6.25, 11.0, 4.0], [-1.75, -12.5, -3.5], [6.5, -1.0, 4.25], [2.5, 0.5, -0.5]])
            narrow = np.float16 if kind == 'float16-array' else np.float32
            Qn = Q.astype(narrow)                       # the values below are exactly representable in the narrow type
            Qw = Qn.astype(np.float64)
            arg = pd.DataFrame(Qn, columns=list(X.columns)) if kind == 'float32-frame' else Qn
            for meth in ('probability_density', 'log_probability_density'):
                got = np.asarray(getattr(m, meth)(arg), dtype=float)
                want = np.asarray(getattr(m, meth)(Qw), dtype=float)
                if got.shape != want.shape or not np.allclose(got, want, rtol=1e-9, atol=1e-300, equal_nan=True):
                    k = int(np.nanargmax(np.abs(got - want) / (np.abs(want) + 1e-300))) if got.shape == want.shape else 0
                    return (f'{meth} of the row {Qw[k].tolist()} is {got[k]!r} when the rows are held in a {np.dtype(narrow).name} '
                            f'{"DataFrame" if kind == "float32-frame" else "array"} and {want[k]!r} when the same numbers are held as float64')
        return None
    if kind in ('single-column-gaussian', 'single-column-gamma'):
        # a ONE-column Gaussian copula: the density is the standard normal density at the normal score (NOT the marginal's density), saturating
        # at phi(norm.ppf(EPSILON)) far outside the training range; the CDF is Phi(score)
        from scipy.stats import norm
        from copulas.univariate import GammaUnivariate
        x = rs.normal(10.0, 4.0, 200) if kind == 'single-column-gaussian' else rs.gamma(3.0, 2.0, 200) + 1
        X = pd.DataFrame({'only': x})
        m = GaussianMultivariate(distribution=GaussianUnivariate if kind == 'single-column-gaussian' else GammaUnivariate, random_state=1)
        with np.errstate(all='ignore'):
            m.fit(X)
            q = np.array([x.min() - 50.0, np.median(x), np.quantile(x, 0.9), x.max() + 80.0, x[3]])
            z = norm.ppf(np.clip(np.asarray(m.univariates[0].cumulative_distribution(q), dtype=float), 2.0 ** -23, 1 - 2.0 ** -23))
            c = float(np.asarray(m.correlation).ravel()[0])
            want = norm.pdf(z / np.sqrt(c)) / np.sqrt(c)
            for arg, how in ((pd.DataFrame({'only': q}), 'DataFrame'), (q.reshape(-1, 1), 'array')):
                got = np.asarray(m.probability_density(arg), dtype=float)
                lg = np.asarray(m.log_probability_density(arg), dtype=float)
                if got.shape != want.shape or not np.allclose(got, want, rtol=1e-9, atol=1e-300) or not np.allclose(lg, np.log(want), rtol=1e-9, atol=1e-9):
                    k = int(np.argmax(np.abs(got - want)))
                    return (f'one-column model ({kind}): probability_density({q[k]!r}) [{how}] = {got[k]!r}, the normal density at the normal score is {want[k]!r}')
                cd = np.asarray(m.cumulative_distribution(arg), dtype=float)
                if not np.allclose(cd, norm.cdf(z / np.sqrt(c)), rtol=0, atol=1e-6):
                    k = int(np.argmax(np.abs(cd - norm.cdf(z / np.sqrt(c)))))
                    return f'one-column model ({kind}): cumulative_distribution({q[k]!r}) [{how}] = {cd[k]!r}, Phi(score) = {float(norm.cdf(z[k] / np.sqrt(c)))!r}'
        return None
    if kind == 'cdf-then-pdf-near-collinear':
        a = rs.normal(size=200)
        X = pd.DataFrame({'a': a, 'b': 2 * a + 1e-6 * rs.normal(size=200), 'c': rs.normal(size=200)})
        m = GaussianMultivariate(distribution=GaussianUnivariate, random_state=1)
        with np.errstate(all='ignore'):
            m.fit(X)
            rows = X.iloc[:5]
            c0 = m.correlation.to_numpy().copy()
            p1 = np.asarray(m.probability_density(rows), dtype=float)
            try:
                m.cumulative_distribution(rows)
            except Exception:
                pass
            p2 = np.asarray(m.probability_density(rows), dtype=float)
            c1 = m.correlation.to_numpy()
        if not np.array_equal(c0, c1):
            return f'cumulative_distribution changed the fitted correlation matrix (diagonal {np.diag(c0).tolist()} -> {np.diag(c1).tolist()})'
        if not np.array_equal(p1, p2, equal_nan=True):
            return f'probability_density of the same rows changed after a cumulative_distribution call: {p1[:3].tolist()} -> {p2[:3].tolist()}'
        return None
    raise ValueError(kind)


def gm_query(ctx):
    for kind in ('float32-array', 'float16-array', 'float32-frame', 'cdf-then-pdf-near-collinear', 'single-column-gaussian', 'single-column-gamma'):
        ctx.case(('gm-query', kind), {'history': kind})
        try:
            why = gm_query_replay(kind)
        except Exception as ex:
            why = f'oracle raised {type(ex).__name__}: {str(ex)[:160]}'
        ctx.obligation(f'oracle:gm-query:{kind}', why is None, 'correspondence', why or '')
        if why:
            ctx.violation(f'witness:{kind}', why, {'kind': kind, 'repro': ('from vf.extra_oracles2 import gm_query_replay\n'
                                                                              f'why = gm_query_replay({kind!r})\nprint(why)\nassert why is None\n')})


# ======================================================================================================================
# C14: every round trip yields its OWN object: rebuilding a second model of the same family must not change the first copy
# ======================================================================================================================
def serial_independent_copies_replay(kind, path):
    import os
    import tempfile
    from copulas.bivariate import Bivariate
    from copulas import univariate as U
    Q = np.array([[.3, .4], [.6, .2], [.85, .9]])

    def rt(m, cls):
        if path == 'dict':
            return cls.from_dict(m.to_dict())
        fd, fn = tempfile.mkstemp(suffix='.json' if kind in ('clayton', 'frank', 'gumbel') else '.pkl')
        os.close(fd)
        try:
            m.save(fn)
            return cls.load(fn)
        finally:
            os.unlink(fn)
    with np.errstate(all='ignore'):
        if kind in ('clayton', 'frank', 'gumbel'):
            a = Bivariate(copula_type=kind)
            a.theta, a.tau = {'clayton': (2.0, 0.5), 'frank': (5.0, 0.4567), 'gumbel': (2.0, 0.5)}[kind]
            b = Bivariate(copula_type=kind)
            b.theta, b.tau = {'clayton': (6.0, 0.75), 'frank': (-9.0, -0.63), 'gumbel': (4.0, 0.75)}[kind]
            a2 = rt(a, Bivariate)
            da, ca = a2.to_dict(), np.asarray(a2.cumulative_distribution(Q), dtype=float)
            b2 = rt(b, type(b))
            b2.cumulative_distribution(Q)
            same_obj = a2 is b2
            da2, ca2 = a2.to_dict(), np.asarray(a2.cumulative_distribution(Q), dtype=float)
            ref = np.asarray(a.cumulative_distribution(Q), dtype=float)
        else:
            cls = getattr(U, kind)
            rs = np.random.RandomState(4)
            a, b = cls(), cls()
            a.fit(rs.gamma(2.0, 1.0, 60) + 1)
            b.fit(rs.gamma(9.0, 3.0, 60) + 50)
            P = np.array([1.5, 2.5, 4.0, 30.0, 80.0])
            a2 = rt(a, U.Univariate)
            da, ca = a2.to_dict(), np.asarray(a2.cumulative_distribution(P), dtype=float)
            b2 = rt(b, cls)
            b2.cumulative_distribution(P)
            same_obj = a2 is b2
            da2, ca2 = a2.to_dict(), np.asarray(a2.cumulative_distribution(P), dtype=float)
            ref = np.asarray(a.cumulative_distribution(P), dtype=float)
    if same_obj:
        return f'{kind} ({path}): rebuilding model A and then model B of the same family returns ONE object for both'
    if repr(da) != repr(da2) or not np.array_equal(ca, ca2, equal_nan=True):
        return (f'{kind} ({path}): the copy of model A changed when a copy of model B (same family, other parameters) was rebuilt and used: to_dict '
                f'{da} -> {da2}, cdf {ca.tolist()} -> {ca2.tolist()}')
    if not np.allclose(ca, ref, rtol=1e-12, atol=0, equal_nan=True):
        return f'{kind} ({path}): the rebuilt model answers cdf {ca.tolist()}, the original {ref.tolist()}'
    return None


def serial_independent_copies(ctx):
    for kind in ('clayton', 'frank', 'gumbel', 'GaussianUnivariate', 'GammaUnivariate', 'GaussianKDE', 'TruncatedGaussian'):
        for path in ('dict', 'file'):
            ctx.case(('independent-copies', kind, path), {'history': 'A2 = rebuild(A); B2 = rebuild(B); use B2; observe A2', 'family': kind, 'path': path})
            try:
                why = serial_independent_copies_replay(kind, path)
            except Exception as ex:
                why = f'oracle raised {type(ex).__name__}: {str(ex)[:160]}'
                if 'gaussian_kde' in why or "local object" in why or 'pickle' in why.lower():
                    why = None        # F39: GaussianKDE with a scalar bandwidth cannot be pickled (known, has its own oracle); default bandwidth is fine
            ctx.obligation(f'oracle:independent-copies:{kind}:{path}', why is None, 'correspondence', why or '')
            if why:
                ctx.violation(f'rt:shared-state-between-copies:{kind}:{path}', why,
                              {'family': kind, 'path': path, 'repro': ('from vf.extra_oracles2 import serial_independent_copies_replay\n'
                                                                       f'why = serial_independent_copies_replay({kind!r}, {path!r})\nprint(why)\nassert why is None\n')})


# ======================================================================================================================
# round 5 - size extremes: a long batch is the concatenation of its pieces (no chunk boundary, no large-batch shortcut shows)
# ======================================================================================================================
def biv_long_batch_replay(fam, th, meth, n):
    from .extra_oracles import _biv_new
    rs = np.random.RandomState(41)
    X = np.column_stack([rs.uniform(0.02, 0.98, n), rs.uniform(0.02, 0.98, n)])
    o = _biv_new(fam, th)
    with np.errstate(all='ignore'):
        if meth == 'percent_point':
            whole = np.asarray(o.percent_point(X[:, 0].copy(), X[:, 1].copy()), dtype=float)
            idx = np.r_[0:40, n // 2:n // 2 + 40, n - 40:n, rs.randint(0, n, 120)]       # pieces: the two ends, the middle, random lanes
            alone = np.asarray(_biv_new(fam, th).percent_point(X[idx, 0].copy(), X[idx, 1].copy()), dtype=float)
            part = whole[idx]
            back = np.asarray(_biv_new(fam, th).partial_derivative(np.column_stack([whole, X[:, 1]])), dtype=float)
            worst = int(np.nanargmax(np.abs(back - X[:, 0])))
            if not np.all(np.isfinite(whole)) or abs(back[worst] - X[worst, 0]) > 1e-6:
                return (f'{fam} theta={th}: percent_point on a vector of {n} points: element {worst} = {whole[worst]!r} has conditional CDF {back[worst]!r} '
                        f'instead of y = {X[worst, 0]!r}')
        else:
            whole = np.asarray(getattr(o, meth)(X.copy()), dtype=float)
            idx = np.arange(n)
            alone = np.concatenate([np.asarray(getattr(_biv_new(fam, th), meth)(X[a:a + 5000].copy()), dtype=float) for a in range(0, n, 5000)])
            part = whole
    if part.shape != alone.shape or not np.allclose(part, alone, rtol=1e-12, atol=1e-300, equal_nan=True):
        k = int(np.nanargmax(np.abs(part - alone))) if part.shape == alone.shape else 0
        return (f'{fam} theta={th}: {meth} of row {int(idx[k])} of a batch of {n} rows is {part[k]!r}; the same row evaluated in a small batch gives '
                f'{alone[k]!r} (rows differing: {int(np.sum(~np.isclose(part, alone, rtol=1e-12, atol=1e-300, equal_nan=True))) if part.shape == alone.shape else "shape"})')
    return None


def biv_long_batch(ctx, methods, thorough=False):
    for fam, th in (('clayton', 3.0), ('frank', 6.0), ('gumbel', 2.5)):
        for meth in methods:
            if meth == 'sample':
                continue
            if meth == 'percent_point':
                if fam == 'clayton':
                    n = 150001
                else:
                    n = 70001 if thorough else (33001 if fam == 'frank' else 0)      # above 2^15 and 2^16 rows
            else:
                n = 150001
            if not n:
                continue
            ctx.case(('long-batch', fam, meth, n), {'family': fam, 'method': meth, 'rows': n})
            try:
                why = biv_long_batch_replay(fam, th, meth, n)
            except Exception as ex:
                why = f'raised {type(ex).__name__}: {str(ex)[:120]}'
            ctx.obligation(f'oracle:long-batch:{fam}:{meth}:{n}', why is None, 'correspondence', why or '')
            if why:
                ctx.violation(f'search:long-batch:{meth}:{fam}', why,
                              {'family': fam, 'theta': th, 'method': meth, 'rows': n,
                               'repro': ('from vf.extra_oracles2 import biv_long_batch_replay\n'
                                         f'why = biv_long_batch_replay({fam!r}, {th!r}, {meth!r}, {n})\nprint(why)\nassert why is None\n')})


# ======================================================================================================================
# round 5 - API surface: theta given as a Python / numpy INTEGER (hand-written dicts, JSON files with "theta": 2)
# ======================================================================================================================
def biv_integer_theta_replay(fam, meth):
    from copulas.bivariate import Bivariate
    th = {'clayton': 2, 'frank': -3, 'gumbel': 2}[fam]
    X = np.column_stack([np.linspace(0.05, 0.95, 13), np.linspace(0.9, 0.1, 13)])
    ref = Bivariate(copula_type=fam)
    ref.theta, ref.tau = float(th), 0.3
    out = {}
    for how in ('python-int', 'numpy-int64', 'from_dict-int'):
        if how == 'from_dict-int':
            o = Bivariate.from_dict({'copula_type': fam.upper(), 'theta': th, 'tau': 0.3})
        else:
            o = Bivariate(copula_type=fam)
            o.theta, o.tau = (th if how == 'python-int' else np.int64(th)), 0.3
        with np.errstate(all='ignore'):
            if meth == 'percent_point':
                got = np.asarray(o.percent_point(X[:, 0].copy(), X[:, 1].copy()), dtype=float)
                want = np.asarray(ref.percent_point(X[:, 0].copy(), X[:, 1].copy()), dtype=float)
            else:
                got = np.asarray(getattr(o, meth)(X.copy()), dtype=float)
                want = np.asarray(getattr(ref, meth)(X.copy()), dtype=float)
        if got.shape != want.shape or not np.allclose(got, want, rtol=1e-9, atol=1e-12, equal_nan=True):
            k = int(np.nanargmax(np.abs(got - want))) if got.shape == want.shape else 0
            return (f'{fam}: {meth} with theta = {th} given as {how} returns {got[k]!r} at {X[k].tolist()}; with theta = {float(th)} (float) it returns {want[k]!r}')
    return None


def biv_integer_theta(ctx, methods):
    for fam in ('clayton', 'frank', 'gumbel'):
        for meth in methods:
            if meth == 'sample':
                continue
            ctx.case(('integer-theta', fam, meth), None)
            try:
                why = biv_integer_theta_replay(fam, meth)
            except Exception as ex:
                why = f'raised {type(ex).__name__}: {str(ex)[:120]}'
            ctx.obligation(f'oracle:integer-theta:{fam}:{meth}', why is None, 'correspondence', why or '')
            if why:
                ctx.violation(f'search:integer-theta:{meth}:{fam}', why,
                              {'family': fam, 'method': meth, 'repro': ('from vf.extra_oracles2 import biv_integer_theta_replay\n'
                                                                        f'why = biv_integer_theta_replay({fam!r}, {meth!r})\nprint(why)\nassert why is None\n')})


# ======================================================================================================================
# round 5 - univariates: aliases, long vectors, copies
# ======================================================================================================================
def _uni_make(cname):
    from copulas import univariate as U
    cls = getattr(U, cname.split('(')[0])
    kw = eval('dict(' + cname.split('(', 1)[1][:-1] + ')') if '(' in cname else {}
    return cls, kw


def uni_alias_replay(cname, state):
    """pdf / cdf / ppf are SHORTCUTS: in every state of the object (fitted, degenerate after a constant fit, rebuilt by from_dict, re-fitted
    from constant to non-constant) they answer exactly what the long names answer"""
    from copulas import univariate as U
    cls, kw = _uni_make(cname)
    rs = np.random.RandomState(14)
    data = rs.gamma(3.0, 2.0, 60) + 1.0
    const = np.full(9, 4.25)
    m = cls(**kw)
    with np.errstate(all='ignore'):
        if state == 'fitted':
            m.fit(data)
        elif state == 'constant':
            m.fit(const)
        elif state == 'constant-then-data':
            m.fit(const)
            m.fit(data)
        elif state == 'data-then-constant':
            m.fit(data)
            m.fit(const)
        elif state == 'from_dict-constant':
            m.fit(const)
            m = U.Univariate.from_dict(m.to_dict())
        elif state == 'from_dict-fitted':
            m.fit(data)
            m = U.Univariate.from_dict(m.to_dict())
        P = np.array([0.5, 2.0, 4.25, 6.0, 11.0])
        Q = np.array([0.0, 0.05, 0.5, 0.95, 1.0])
        for short, long_, arg in (('pdf', 'probability_density', P), ('cdf', 'cumulative_distribution', P), ('ppf', 'percent_point', Q)):
            def call(name):
                try:
                    return ('ok', np.asarray(getattr(m, name)(arg.copy()), dtype=float).tolist())
                except Exception as ex:
                    return ('err', type(ex).__name__)
            a, b = call(short), call(long_)
            same = a[0] == b[0] and (a[1] == b[1] or (a[0] == 'ok' and np.array_equal(np.array(a[1]), np.array(b[1]), equal_nan=True)))
            if not same:
                return f'{cname} [{state}]: {short}(...) gives {a} but {long_}(...) gives {b}'
    return None


ALIAS_CLASSES = ['GaussianUnivariate', 'UniformUnivariate', 'GammaUnivariate', 'BetaUnivariate', 'StudentTUnivariate', 'LogLaplace', 'TruncatedGaussian',
                 'GaussianKDE', 'GaussianKDE(sample_size=20)', 'Univariate']


def uni_alias(ctx):
    for cname in ALIAS_CLASSES:
        for state in ('fitted', 'constant', 'constant-then-data', 'data-then-constant', 'from_dict-constant', 'from_dict-fitted'):
            if cname == 'GaussianKDE(sample_size=20)' and state.startswith('from_dict'):
                continue        # F26s (known, C14): a nested dataset is stored
            ctx.case(('alias', cname, state), None)
            try:
                why = uni_alias_replay(cname, state)
            except Exception as ex:
                why = f'oracle raised {type(ex).__name__}: {str(ex)[:120]}'
            ctx.obligation(f'oracle:alias:{cname}:{state}', why is None, 'correspondence', why or '')
            if why:
                ctx.violation(f'search:alias-differs-from-long-name:{cname.split("(")[0]}:{state}', why,
                              {'class': cname, 'state': state, 'repro': ('from vf.extra_oracles2 import uni_alias_replay\n'
                                                                         f'why = uni_alias_replay({cname!r}, {state!r})\nprint(why)\nassert why is None\n')})


def kde_long_replay(kind):
    """GaussianKDE on long vectors: the answer for a point / a probability does not depend on the length of the batch it sits in"""
    from copulas.univariate import GaussianKDE
    rs = np.random.RandomState(6)
    with np.errstate(all='ignore'):
        if kind == 'cdf-large-product':            # len(X) * len(dataset) = 2000 * 9001 > 2**24
            m = GaussianKDE()
            m.fit(rs.normal(10.0, 2.0, 2000))
            X = np.sort(rs.uniform(2.0, 18.0, 9001))[::-1].copy()
            whole = np.asarray(m.cumulative_distribution(X), dtype=float)
            alone = np.concatenate([np.asarray(m.cumulative_distribution(X[a:a + 700].copy()), dtype=float) for a in range(0, len(X), 700)])
            what = 'cumulative_distribution'
        elif kind == 'cdf-long-training':          # a long training sample, a few hundred query points
            m = GaussianKDE()
            m.fit(np.sort(rs.normal(0.0, 1.0, 60000)))
            X = np.linspace(-3, 3, 301)
            whole = np.asarray(m.cumulative_distribution(X), dtype=float)
            alone = np.concatenate([np.asarray(m.cumulative_distribution(X[a:a + 50].copy()), dtype=float) for a in range(0, len(X), 50)])
            what = 'cumulative_distribution'
        else:                                      # percent_point of 20 001 probabilities (not a multiple of any power of two)
            m = GaussianKDE()
            m.fit(rs.normal(10.0, 2.0, 30))
            X = rs.uniform(0.001, 0.999, 20001)
            whole = np.asarray(m.percent_point(X), dtype=float)
            idx = np.r_[0:30, 10000:10030, 20001 - 30:20001]
            alone_part = np.asarray(m.percent_point(X[idx].copy()), dtype=float)
            back = np.asarray(m.cumulative_distribution(whole), dtype=float)
            k = int(np.nanargmax(np.abs(back - X)))
            if abs(back[k] - X[k]) > 1e-6:
                return (f'GaussianKDE.percent_point on 20001 probabilities: element {k} = {whole[k]!r} has cdf {back[k]!r}, not the requested {X[k]!r}')
            if not np.allclose(whole[idx], alone_part, rtol=1e-9, atol=1e-12):
                j = int(np.argmax(np.abs(whole[idx] - alone_part)))
                return f'GaussianKDE.percent_point: lane {int(idx[j])} of a 20001-vector gives {whole[idx][j]!r}, the same probability in a short vector {alone_part[j]!r}'
            return None
    if not np.allclose(whole, alone, rtol=1e-10, atol=1e-13):
        k = int(np.argmax(np.abs(whole - alone)))
        return (f'GaussianKDE.{what} ({kind}): point {X[k]!r} evaluates to {whole[k]!r} inside the long batch and to {alone[k]!r} inside a short one '
                f'(max |difference| {float(np.max(np.abs(whole - alone))):.3g})')
    return None


def kde_long(ctx):
    for kind in ('cdf-large-product', 'cdf-long-training', 'ppf-long-vector'):
        ctx.case(('kde-long', kind), {'size extreme': kind})
        try:
            why = kde_long_replay(kind)
        except Exception as ex:
            why = f'oracle raised {type(ex).__name__}: {str(ex)[:160]}'
        ctx.obligation(f'oracle:kde-long:{kind}', why is None, 'correspondence', why or '')
        if why:
            ctx.violation(f'search:kde-long-vector:{kind}', why, {'kind': kind, 'repro': ('from vf.extra_oracles2 import kde_long_replay\n'
                                                                                          f'why = kde_long_replay({kind!r})\nprint(why)\nassert why is None\n')})


def kde_copy_replay(opts, how):
    """the kernel estimate survives every way of copying the fitted object (pickle, deepcopy, save/load)"""
    import copy
    import os
    import pickle
    import tempfile
    from copulas.univariate import GaussianKDE, Univariate
    rs = np.random.RandomState(3)
    x = np.concatenate([rs.normal(0, 1, 40), rs.normal(6, 0.5, 25)])
    w = rs.uniform(0.2, 2.0, len(x))
    kw = {'silverman': {'bw_method': 'silverman'}, 'weights': {'weights': w}, 'silverman+weights': {'bw_method': 'silverman', 'weights': w}, 'default': {}}[opts]
    m = GaussianKDE(**kw)
    P = np.linspace(-3, 8, 23)
    with np.errstate(all='ignore'):
        m.fit(x)
        ref = np.asarray(m.probability_density(P), dtype=float)
        if how == 'deepcopy':
            c = copy.deepcopy(m)
        elif how == 'pickle':
            c = pickle.loads(pickle.dumps(m))
        else:
            fd, fn = tempfile.mkstemp(suffix='.pkl')
            os.close(fd)
            try:
                m.save(fn)
                c = (GaussianKDE if how == 'save-load' else Univariate).load(fn)
            finally:
                os.unlink(fn)
        got = np.asarray(c.probability_density(P), dtype=float)
        gc = np.asarray(c.cumulative_distribution(P), dtype=float)
        rc = np.asarray(m.cumulative_distribution(P), dtype=float)
    if not (np.array_equal(got, ref) and np.array_equal(gc, rc)):
        k = int(np.argmax(np.abs(got - ref)))
        return (f'GaussianKDE({opts}) copied by {how}: probability_density({P[k]!r}) = {got[k]!r}, the original answers {ref[k]!r} '
                f'(relative difference {abs(got[k] - ref[k]) / max(abs(ref[k]), 1e-300):.3g})')
    return None


def kde_copy(ctx):
    for opts in ('default', 'silverman', 'weights', 'silverman+weights'):
        for how in ('deepcopy', 'pickle', 'save-load', 'save-load-generic'):
            ctx.case(('kde-copy', opts, how), None)
            try:
                why = kde_copy_replay(opts, how)
            except Exception as ex:
                why = f'oracle raised {type(ex).__name__}: {str(ex)[:160]}'
            ctx.obligation(f'oracle:kde-copy:{opts}:{how}', why is None, 'correspondence', why or '')
            if why:
                ctx.violation(f'search:kde-copy-not-kernel-estimate:{opts}:{how}', why,
                              {'options': opts, 'how': how, 'repro': ('from vf.extra_oracles2 import kde_copy_replay\n'
                                                                      f'why = kde_copy_replay({opts!r}, {how!r})\nprint(why)\nassert why is None\n')})


def gm_long_sample_replay():
    """GaussianMultivariate.sample(n) with n = 60 001 and a KDE marginal: the sample carries the marginal's mass outside the training range"""
    import pandas as pd
    from copulas.multivariate import GaussianMultivariate
    from copulas.univariate import GaussianKDE, GaussianUnivariate
    rs = np.random.RandomState(19)
    X = pd.DataFrame({'k': rs.normal(0.0, 1.0, 30), 'g': rs.normal(5.0, 2.0, 30)})
    m = GaussianMultivariate(distribution={'k': GaussianKDE, 'g': GaussianUnivariate}, random_state=2)
    with np.errstate(all='ignore'):
        m.fit(X)
        n = 60001
        S = m.sample(n)
        u = m.univariates[0]
        lo, hi = float(X['k'].min()), float(X['k'].max())
        p_out = float(u.cumulative_distribution(np.array([lo]))[0]) + 1.0 - float(u.cumulative_distribution(np.array([hi]))[0])
    if list(S.columns) != ['k', 'g'] or len(S) != n or S.isna().any().any():
        return f'sample({n}): schema {list(S.columns)} x {len(S)}, missing values {bool(S.isna().any().any())}'
    frac = float(((S['k'] < lo) | (S['k'] > hi)).mean())
    band = 6.0 * np.sqrt(max(p_out * (1 - p_out), 1e-9) / n) + 1e-4        # > 6 sigma of the binomial proportion
    if abs(frac - p_out) > band:
        return (f'sample({n}) with a GaussianKDE marginal: the fitted marginal has {p_out:.4f} of its mass outside the training range [{lo:.3f}, {hi:.3f}] '
                f'but {frac:.4f} of the sampled column lies there (6-sigma band {band:.4f})')
    return None


def gm_long_sample(ctx):
    ctx.case(('gm-long-sample',), {'rows': 60001})
    try:
        why = gm_long_sample_replay()
    except Exception as ex:
        why = f'oracle raised {type(ex).__name__}: {str(ex)[:160]}'
    ctx.obligation('oracle:gm-long-sample', why is None, 'correspondence', why or '')
    if why:
        ctx.violation('search:long-sample-marginal-tails', why, {'repro': 'from vf.extra_oracles2 import gm_long_sample_replay\nwhy = gm_long_sample_replay()\nprint(why)\nassert why is None\n'})


# ======================================================================================================================
# round 5 - vines: positional constructor arguments, tables with many repeated rows, very short tables
# ======================================================================================================================
def vine_api_replay(kind, vtype):
    import pandas as pd
    from scipy.stats import kendalltau
    from copulas.bivariate import select_copula
    from copulas.multivariate import VineCopula
    from . import vinestruct as VS
    rs = np.random.RandomState(29)
    with np.errstate(all='ignore'):
        if kind == 'positional-seed':
            z = rs.multivariate_normal(np.zeros(5), 0.5 * np.ones((5, 5)) + 0.5 * np.eye(5), 70)
            X = pd.DataFrame(z, columns=list('abcde'))
            for seed in (0, 1, 7, 42):
                v = VineCopula(vtype, seed)                      # documented signature: (vine_type, random_state=None)
                v.fit(X)
                if len(v.trees) != 3:
                    return f"VineCopula({vtype!r}, {seed}).fit(5-column table) holds {len(v.trees)} trees; min(d - 1, 3) = 3 (is the second positional argument still the seed?)"
                w = VineCopula(vtype, random_state=seed)
                w.fit(X)
                a, b = np.asarray(v.sample(3), dtype=float), np.asarray(w.sample(3), dtype=float)
                if not np.array_equal(a, b, equal_nan=True):
                    return f"VineCopula({vtype!r}, {seed}) and VineCopula({vtype!r}, random_state={seed}) sample different rows"
            return None
        if kind == 'duplicated-rows':
            d = 4
            base = rs.multivariate_normal(np.zeros(d), [[1, .7, .2, -.3], [.7, 1, .1, 0], [.2, .1, 1, .5], [-.3, 0, .5, 1]], 30)
            rep = np.repeat(base[[2, 11, 23]] * np.array([1.0, -2.5, 3.0, 1.5]) + np.array([3, -3, 2, -2.0]), 25, axis=0)
            X = pd.DataFrame(np.vstack([base, rep]), columns=list('abcd'))
            v = VineCopula(vtype, random_state=1)
            v.fit(X, truncated=1)
            km = X.corr(method='kendall').to_numpy()
            tm = np.asarray(v.tau_mat, dtype=float)
            if tm.shape != km.shape or not np.allclose(tm, km, atol=1e-12):
                return (f"VineCopula({vtype!r}) on a table with many repeated rows: tau_mat[0,1] = {tm[0, 1]!r} but Kendall's tau of the TABLE's columns is {km[0, 1]!r}")
            if vtype == 'regular':
                probs = VS.py_validate(vtype, d, 1, VS.edges_of(v.trees), km)
                if probs:
                    return f"VineCopula('regular') on a table with many repeated rows: {probs[:2]}"
            return None
        if kind == 'short-table':
            for n in (6, 8, 9):
                g = np.sort(rs.uniform(size=n))
                X = pd.DataFrame({'a': g + 0.05 * rs.normal(size=n), 'b': g ** 2 + 0.05 * rs.normal(size=n), 'c': rs.uniform(size=n)})
                v = VineCopula(vtype, random_state=1)
                try:
                    v.fit(X, truncated=1)
                except ValueError:
                    continue                                   # a degenerate short table may be refused
                for e in v.trees[0].edges:
                    want = select_copula(np.column_stack([v.u_matrix[:, e.L], v.u_matrix[:, e.R]]))
                    if getattr(e.name, 'name', e.name) != want.copula_type.name or not (e.theta == want.theta or abs(e.theta - want.theta) <= 1e-9 * (1 + abs(want.theta))):
                        return (f"VineCopula({vtype!r}) on a {n}-row table: edge ({e.L},{e.R}) carries {getattr(e.name, 'name', e.name)}(theta={e.theta!r}) but select_copula of "
                                f"the edge's two input columns returns {want.copula_type.name}(theta={want.theta!r})")
            return None
    raise ValueError(kind)


def vine_api(ctx, kinds):
    for kind in kinds:
        for vt in ('center', 'direct', 'regular'):
            ctx.case(('vine-api', kind, vt), {'case': kind, 'vine': vt})
            try:
                why = vine_api_replay(kind, vt)
            except Exception as ex:
                why = f'oracle raised {type(ex).__name__}: {str(ex)[:160]}'
            ctx.obligation(f'oracle:vine-api:{kind}:{vt}', why is None, 'correspondence', why or '')
            if why:
                ctx.violation(f'search:vine:{kind}:{vt}', why, {'case': kind, 'vine': vt,
                                                               'repro': ('from vf.extra_oracles2 import vine_api_replay\n'
                                                                         f'why = vine_api_replay({kind!r}, {vt!r})\nprint(why)\nassert why is None\n')})


# ======================================================================================================================
# round 5 - select_copula through every documented entry point; a long table; conditional law of a model rebuilt by from_dict with exact zeros;
# a one-column Gaussian copula
# ======================================================================================================================
def select_entry_points_replay(kind):
    import warnings
    import copulas.bivariate as B
    rs = np.random.RandomState(8)
    with np.errstate(all='ignore'), warnings.catch_warnings():
        warnings.simplefilter('ignore')
        if kind == 'entry-points':
            src = B.Bivariate(copula_type='clayton', random_state=3)
            src.theta, src.tau = 4.0, 4.0 / 6.0
            Xp = np.asarray(src.sample(1500), dtype=float)
            Xn = np.column_stack([Xp[:, 0], 1.0 - Xp[:, 1]])
            for X, label in ((Xp, 'Clayton-like'), (Xn, 'negative tau')):
                ref = B.select_copula(X.copy())
                want = (type(ref).__name__, float(ref.tau), float(ref.theta))
                entries = {'Bivariate.select_copula': B.Bivariate.select_copula, 'Frank.select_copula': B.Frank.select_copula,
                           'Clayton.select_copula': B.Clayton.select_copula, 'Gumbel.select_copula': B.Gumbel.select_copula,
                           'Frank().select_copula': B.Frank().select_copula}
                for nm, fn in entries.items():
                    try:
                        r = fn(X.copy())
                        got = (type(r).__name__, float(r.tau), float(r.theta))
                    except Exception as ex:
                        got = ('raises', type(ex).__name__, str(ex)[:60])
                    if got != want:
                        return f'{nm}(X) on {label} data gives {got}; copulas.bivariate.select_copula(X) gives {want}'
            return None
        if kind == 'long-table':
            a = B.Bivariate(copula_type='clayton', random_state=5)
            a.theta, a.tau = 1.4, 1.4 / 3.4
            Z = np.asarray(a.sample(36000), dtype=float)
            W = 1.0 - np.asarray(a.sample(24001), dtype=float)
            X = np.vstack([Z, W])
            st0 = np.random.get_state()
            outs = []
            for _ in range(3):
                r = B.select_copula(X.copy())
                outs.append((type(r).__name__, float(r.tau), float(r.theta)))
            st1 = np.random.get_state()
            if len(set(outs)) != 1:
                return f'select_copula on one table of {len(X)} rows returns {outs} on three calls: the choice is not a function of X'
            if not (st0[0] == st1[0] and np.array_equal(st0[1], st1[1]) and st0[2:] == st1[2:]):
                return f'select_copula on a table of {len(X)} rows consumed the global numpy generator'
            return None
    raise ValueError(kind)


def select_entry_points(ctx):
    for kind in ('entry-points', 'long-table'):
        ctx.case(('select-entry', kind), {'case': kind})
        try:
            why = select_entry_points_replay(kind)
        except Exception as ex:
            why = f'oracle raised {type(ex).__name__}: {str(ex)[:160]}'
        ctx.obligation(f'oracle:select-copula:{kind}', why is None, 'witness-search', why or '')
        if why:
            ctx.violation(f'oracle:select-copula:{kind}', why, {'case': kind, 'repro': ('from vf.extra_oracles2 import select_entry_points_replay\n'
                                                                                         f'why = select_entry_points_replay({kind!r})\nprint(why)\nassert why is None\n')})


def gm_from_dict_conditional_replay(kind):
    """conditional law of a model REBUILT from a dict whose correlation has exact zeros (banded / block matrices): mean S12 S22^-1 z and Schur
    complement, by label, against an independent computation"""
    import pandas as pd
    from scipy.stats import norm
    from copulas.multivariate import GaussianMultivariate
    from .extra_oracles import _capture_cond
    cols = ['a', 'b', 'c'] if kind != 'block4' else ['a', 'b', 'c', 'd']
    R = {'banded3': [[1, .5, 0], [.5, 1, .5], [0, .5, 1]], 'banded3-neg': [[1, -.6, 0], [-.6, 1, .4], [0, .4, 1]],
         'block4': [[1, 0, .3, 0], [0, 1, .5, .2], [.3, .5, 1, 0], [0, .2, 0, 1]]}[kind]
    unis = [{'type': 'copulas.univariate.gaussian.GaussianUnivariate', 'loc': 1.0 * i, 'scale': 1.0 + i} for i in range(len(cols))]
    m = GaussianMultivariate.from_dict({'type': 'copulas.multivariate.gaussian.GaussianMultivariate', 'columns': cols, 'correlation': R, 'univariates': unis})
    m.set_random_state(3)
    R = np.array(R, dtype=float)
    for given in ({'b': 2.0, 'c': 0.5}, {'c': 3.0, 'b': -1.0}, {'a': 0.2}, {'c': 1.0, 'a': -0.5}):
        if any(g not in cols for g in given):
            continue
        with np.errstate(all='ignore'):
            _, rec = _capture_cond(m, 3, dict(given))
            _, rec2 = _capture_cond(m, 3, pd.Series(given))
        gi = [cols.index(c) for c in cols if c in given]
        fi = [i for i in range(len(cols)) if i not in gi]
        z = np.array([(given[cols[i]] - unis[i]['loc']) / unis[i]['scale'] for i in gi])
        z = norm.ppf(np.clip(norm.cdf(z), 2.0 ** -23, 1 - 2.0 ** -23))
        S11, S12, S22 = R[np.ix_(fi, fi)], R[np.ix_(fi, gi)], R[np.ix_(gi, gi)]
        mean = S12 @ np.linalg.solve(S22, z)
        cov = S11 - S12 @ np.linalg.solve(S22, S12.T)
        for r_, how in ((rec, 'dict'), (rec2, 'Series')):
            if 'mean' not in r_ or np.asarray(r_['mean']).shape != mean.shape or not np.allclose(r_['mean'], mean, atol=1e-9) or not np.allclose(r_['cov'], cov, atol=1e-9):
                return (f'model rebuilt by from_dict with correlation {R.tolist()}: sample(conditions={given} as {how}) draws the free columns '
                        f'{[cols[i] for i in fi]} from mean {np.asarray(r_.get("mean")).tolist()}, covariance {np.asarray(r_.get("cov")).tolist()}; '
                        f'S12 S22^-1 z = {mean.tolist()}, Schur complement = {cov.tolist()}')
    return None


def gm_from_dict_conditional(ctx):
    for kind in ('banded3', 'banded3-neg', 'block4'):
        ctx.case(('from_dict-conditional', kind), {'correlation': kind})
        try:
            why = gm_from_dict_conditional_replay(kind)
        except Exception as ex:
            why = f'oracle raised {type(ex).__name__}: {str(ex)[:160]}'
        ctx.obligation(f'oracle:from_dict-conditional:{kind}', why is None, 'correspondence', why or '')
        if why:
            ctx.violation(f'oracle:conditional-law:from_dict:{kind}', why, {'kind': kind, 'repro': ('from vf.extra_oracles2 import gm_from_dict_conditional_replay\n'
                                                                                                     f'why = gm_from_dict_conditional_replay({kind!r})\nprint(why)\nassert why is None\n')})


# ======================================================================================================================
# round 5 - C17: the likelihood of a vine REBUILT by from_dict equals the fitted vine's (tables whose likelihood is free of the F10b reads:
# decided per table by evaluating under two np.empty fills)
# ======================================================================================================================
def vine_copy_likelihood_replay(vtype):
    import copulas.multivariate.tree as T
    import copulas.multivariate.vine as V
    from copulas.multivariate import Multivariate, VineCopula
    from . import vinestruct as VS
    checked = 0
    for seed in range(10):
        X = VS.make_table(300 + seed, 4, 70, ['gauss', 'strong', 'gauss'][seed % 3])
        with np.errstate(all='ignore'):
            v = VineCopula(vtype, random_state=2)
            try:
                v.fit(X, truncated=3)
            except Exception:
                continue
            u = np.array([[0.21, 0.47, 0.66, 0.83]])
            vals = []
            for fill in (float('nan'), 0.123):
                saved = (T.np, V.np)
                T.np = V.np = VS._NpProxy(fill)
                try:
                    vals.append(float(v.get_likelihood(u)))
                except Exception:
                    vals.append(None)
                finally:
                    T.np, V.np = saved
            if vals[0] is None or vals[0] != vals[1] or not np.isfinite(vals[0]):
                continue                          # this table's likelihood reads unwritten cells (F10b, known): no reference value exists
            checked += 1
            for how, mk in (('VineCopula.from_dict', lambda: VineCopula.from_dict(v.to_dict())), ('Multivariate.from_dict', lambda: Multivariate.from_dict(v.to_dict()))):
                c = mk()
                got = float(c.get_likelihood(u))
                if not (got == vals[0] or abs(got - vals[0]) <= 1e-9 * (1 + abs(vals[0]))):
                    return (f"VineCopula({vtype!r}) on make_table({300 + seed}, 4, 70): get_likelihood(u) = {vals[0]!r}, the copy rebuilt by {how} answers {got!r}")
    return None if checked or vtype != 'center' else 'oracle design: no table with a clean likelihood'


def vine_copy_likelihood(ctx):
    for vt in ('center', 'direct', 'regular'):
        ctx.case(('vine-copy-likelihood', vt), {'vine': vt})
        try:
            why = vine_copy_likelihood_replay(vt)
        except Exception as ex:
            why = f'oracle raised {type(ex).__name__}: {str(ex)[:160]}'
        ctx.obligation(f'oracle:vine-copy-likelihood:{vt}', why is None, 'correspondence', why or '')
        if why:
            ctx.violation(f'search:vine-copy-likelihood:{vt}', why, {'vine': vt, 'repro': ('from vf.extra_oracles2 import vine_copy_likelihood_replay\n'
                                                                                          f'why = vine_copy_likelihood_replay({vt!r})\nprint(why)\nassert why is None\n')})
