"""vineregulargen - the Prim loops of RegularTree (copulas/multivariate/tree.py), translated from the Python AST into Gallina on every run.

The two translators below are entries of vinebuildgen.TRANSLATORS (they extend vinebuildgen.Fn, the fail-closed statement translator of the
tree construction), so their output is part of Gen_vinebuild.v, in front of the generated dispatch `gen_build_first_tree` / `gen_build_kth_tree`
that calls them:

    RegularTree._build_first_tree -> gen_regular_first_fuel fuel tie sel order level n_nodes tau_matrix previous_tree edges : option (list edge)
                                     gen_regular_first      := gen_regular_first_fuel <right operand of the while test>
                                     gen_regular_first_loop1 (body of the while loop), _loop1_test (its test), _loop2 / _loop3 (the two for loops)
    RegularTree._build_kth_tree   -> gen_regular_kth_fuel / gen_regular_kth / gen_regular_kth_loop1 / _loop1_test / _loop2 / _loop3

coq/Props/C16_regular.v proves them equal to Model.Vine (regular_first_run / prim_loop / cands / first_edge_of, regular_kth_fuel /
regular_kth_opt_gen / ok_kth / kth_edge_of).  Vocabulary: coq/Lib/PyPrim.v (insertion-ordered sets, py_sorted_head, py_while) on top of
coq/Lib/PyMat.v and coq/Lib/PySet.v.

What is taken from the AST (beyond what vinebuildgen.Fn already does: statement order, subscripts, arithmetic, `Edge(..)` through
Edge.__init__, the generated kernel functions, the data-plane statements in exactly their known shapes):
  * `while <test>: <body>`: the variables the body re-binds or mutates (`X.add`, `unvisited.remove`, `self.edges.append`) are the loop state;
    the body is one definition `st -> option st` (None = an exception), the test another; `continue` ends the round with the current state.
    The loop is `py_while fuel test body st`.  Python has no fuel: the test must have the shape `len(<set in the state>) != self.n_nodes`, and the
    un-suffixed definition instantiates `fuel` with that right operand (the number of rounds after which a loop that adds one element per
    round must have stopped; Model.Vine does the same, Spec.VineRegular.escape_diverges: the state of a round that adds nothing never changes again);
  * sets: `{a}`, `set()`, `set(range(n))`, `len(S)`, `k in S` / `k not in S`, `for x in S` (S must not be mutated by the body), `S.add(e)`
    (ints: oset_add, pairs: pairset_add), `S.remove(k)` (oset_remove, None = KeyError), `list(S)[i]` only for a set built by `set(range(n))`
    that has only had elements removed (ascending iteration order), None = IndexError;
  * `sorted(<set of pairs>, key=lambda e: <float expression in e>)[0]` -> `py_sorted_head sel order (fun e => ..) S` (None = IndexError); any
    other subscript of `sorted(..)`, a missing `key`, `reverse=` are refused;
  * `a and b and c` in an `if` test: nested `if`s, left to right, so that the subscripts of a later operand (`edges[x]`: IndexError) are
    evaluated only when the earlier operands are true.
"""
import ast

from . import vinebuildgen as VB
from . import vinegen as VG
from .vinebuildgen import V, Unsupported, cq, src, small_int, is_self


class RegFn(VB.Fn):
    def __init__(self, *a, **kw):
        VB.Fn.__init__(self, *a, **kw)
        self.fuel_bound = None        # Coq term of the right operand of the while test
        self.wstate = None            # inside the while body: (state keys, coq terms)

    # ------------------------------------------------------------------ expressions
    def ex(self, n, env):
        # -1.0 * M for a matrix that is an attribute / a local (vinebuildgen.Fn knows it for temporaries only)
        if isinstance(n, ast.BinOp) and isinstance(n.op, ast.Mult) and ast.unparse(n.left) == '-1.0':
            b = self.ex(n.right, env)
            if b.ty in ('mat', 'matref'):
                m = self.curmat(b, env) if self.matkey(b) else b
                return V('mat', f'(mat_neg {m.term})', key=None)
            raise Unsupported('binary operator: ' + src(n))
        return VB.Fn.ex(self, n, env)

    def subscript(self, n, env):
        # list(S)[i] of a set that iterates in ascending order
        if isinstance(n.value, ast.Call) and isinstance(n.value.func, ast.Name) and n.value.func.id == 'list' and 'list' not in env:
            c = n.value
            if len(c.args) != 1 or c.keywords or isinstance(n.slice, (ast.Slice, ast.Tuple)):
                raise Unsupported('list(..)[..]: ' + src(n))
            s = self.ex(c.args[0], env)
            if s.ty != 'oset' or not getattr(s, 'sortedset', False):
                raise Unsupported('list(S)[i] of a set whose iteration order is not modelled: ' + src(n))
            x = self.fresh('x')
            self.pending.append((x, f'py_getitem (pyset_list {s.term}) {self.nat(n.slice, env)}'))
            return V('nat', x)
        if isinstance(n.value, ast.Call) and isinstance(n.value.func, ast.Name) and n.value.func.id == 'sorted':
            raise Unsupported('sorted(..)[..] in an expression (only `x = sorted(S, key=lambda e: ..)[0]` is modelled): ' + src(n))
        return VB.Fn.subscript(self, n, env)

    def call(self, n, env):
        if isinstance(n.func, ast.Name) and n.func.id == 'list':
            raise Unsupported('list(..) outside `list(S)[i]`: ' + src(n))
        return VB.Fn.call(self, n, env)

    def range_of(self, n, env):
        if isinstance(n, ast.Name):
            s = self.ex(n, env)
            if s.ty != 'oset':
                raise Unsupported(f'loop over a {s.ty}: ' + src(n))
            return f'(pyset_iter {s.term})'
        return VB.Fn.range_of(self, n, env)

    # ------------------------------------------------------------------ statements
    def block(self, stmts, env, fin):
        if stmts and isinstance(stmts[0], ast.If):
            s, rest = stmts[0], stmts[1:]

            def branch(body):
                # a branch that ends in `continue` leaves the round: the statements after the `if` are not executed
                if body and isinstance(body[-1], ast.Continue):
                    return self.block(list(body), dict(env), fin)
                return self.block(list(body) + rest, dict(env), fin)

            def conj(vals):
                if not vals:
                    return branch(s.body)
                if self.pending:
                    raise Unsupported('pending subscripts in front of an `if` test')
                t = self.ex(vals[0], env)
                if t.ty != 'bool':
                    raise Unsupported('if test / operand of `and` is not a boolean: ' + src(vals[0]))
                pend, self.pending = self.pending, []
                a = conj(vals[1:])
                b = branch(s.orelse)
                self.pending = pend
                return self.wrap_pending(f'if {t.term}\n  then {a}\n  else {b}')
            # `a and b and c`: nested ifs, left to right (short circuit: the subscripts of c are evaluated only when a and b hold)
            if isinstance(s.test, ast.BoolOp) and isinstance(s.test.op, ast.And):
                return conj(list(s.test.values))
            return conj([s.test])
        return VB.Fn.block(self, stmts, env, fin)

    def for_loop(self, s, rest, env, fin):
        # `for x in S`: the body must not mutate S
        if isinstance(s.iter, ast.Name):
            state, _ = self.assigned_in(s.body, env)
            if s.iter.id in state:
                raise Unsupported(f'the loop over {s.iter.id} mutates it')
        return VB.Fn.for_loop(self, s, rest, env, fin)

    def loop_continue(self, env):
        if self.wstate is None:
            raise Unsupported('continue outside a while loop')
        return self.wfin(env)

    def wfin(self, env):
        keys, terms = self.wstate
        t2, _ = self.state_tuple(keys, env)
        if t2 != terms:
            raise Unsupported('loop state renamed inside the body')
        return 'Some (' + ', '.join(terms) + ')'

    def while_loop(self, s, rest, env, fin):
        if s.orelse:
            raise Unsupported('while ... else')
        if self.fuel_bound is not None or self.wstate is not None:
            raise Unsupported('a second while loop')
        if not self.fallible:
            raise Unsupported('while loop in a total function')
        state, fresh = self.assigned_in(s.body, env)
        if any(isinstance(c, ast.Call) and ast.unparse(c.func) == 'self.edges.append' for b in s.body for c in ast.walk(b)):
            state = [k for k in state if k != 'self.edges'] + ['self.edges']
        if not state:
            raise Unsupported('while loop without effect')
        for k in state:
            if env[k].ty not in ('oset', 'edgelist'):
                raise Unsupported(f'while-loop state {k} of type {env[k].ty}')
        # the test: len(<set of the state>) != self.n_nodes; its right operand is the fuel of the un-suffixed definition
        t = s.test
        if not (isinstance(t, ast.Compare) and len(t.ops) == 1 and isinstance(t.ops[0], ast.NotEq) and isinstance(t.left, ast.Call)
                and isinstance(t.left.func, ast.Name) and t.left.func.id == 'len' and 'len' not in env and len(t.left.args) == 1 and not t.left.keywords
                and isinstance(t.left.args[0], ast.Name) and t.left.args[0].id in state and env[t.left.args[0].id].ty == 'oset'
                and is_self(t.comparators[0], 'n_nodes') and 'self.n_nodes' not in state):
            raise Unsupported('while test (only `len(<set of the loop state>) != self.n_nodes` has a termination bound): ' + src(t))
        bound = self.nat(t.comparators[0], env)
        self.nloops += 1
        lname = f'{self.gname}_loop{self.nloops}'
        # the state variables get their canonical names
        envb = dict(env)
        for k in state:
            v = env[k]
            if k == 'self.edges':
                envb[k] = V('edgelist', 'edges')
            else:
                extra = {x: y for x, y in v.__dict__.items() if x in ('sortedset',)}
                envb[k] = V(v.ty, cq(k), **extra)
        terms, tys = self.state_tuple(state, envb)
        init, _ = self.state_tuple(state, env)
        pat = terms[0] if len(terms) == 1 else "'(" + ', '.join(terms) + ')'
        sty = tys[0] if len(tys) == 1 else '(' + ' * '.join(tys) + ')'
        cond = self.ex(t, envb)
        if cond.ty != 'bool' or self.pending:
            raise Unsupported('while test: ' + src(t))
        self.wstate = (state, terms)
        body = self.block(list(s.body), envb, self.wfin)
        self.wstate = None
        excl = set(terms)
        ctx_t = self.context(cond.term, env, excl)
        ctx_b = self.context(body, env, excl)
        self.aux.append(f'Definition {lname}_test ' + ' '.join(f'({a} : {b})' for a, b in ctx_t) + f' (st : {sty}) : bool :=\n'
                        f'  let {pat} := st in\n  {cond.term}.\n\n')
        self.aux.append(f'Definition {lname} ' + ' '.join(f'({a} : {b})' for a, b in ctx_b) + f' (st : {sty}) : option {sty} :=\n'
                        f'  let {pat} := st in\n  {body}.\n\n')
        call_t = '(' + ' '.join([lname + '_test'] + [a for a, _ in ctx_t]) + ')'
        call_b = '(' + ' '.join([lname] + [a for a, _ in ctx_b]) + ')'
        self.fuel_bound = bound
        env2 = {x: v for x, v in env.items() if x not in fresh}
        for k in state:
            env2[k] = envb[k]
            self.version[k] = self.version.get(k, 0) + 1
        inner = self.block(rest, env2, fin)
        tup = '(' + ', '.join(init) + ')'
        return (f'match py_while fuel {call_t} {call_b} {tup} with\n  | Some {pat.lstrip(chr(39))} =>\n  {inner}\n  | None => None\n  end')

    def expr_stmt(self, s, rest, env, fin):
        c = s.value
        if isinstance(c, ast.Call) and not c.keywords and len(c.args) == 1:
            fn = ast.unparse(c.func)
            # self.edges.append(e) inside the while loop: self.edges is part of the loop state
            if fn == 'self.edges.append' and self.append_mode is None and self.wstate is not None:
                v = self.ex(c.args[0], env)
                if v.ty != 'edge' or self.pending:
                    raise Unsupported(f'self.edges.append of a {v.ty}')
                e = env['self.edges']
                env2 = dict(env)
                env2['self.edges'] = V('edgelist', e.term)
                return f'let {e.term} := {e.term} ++ [{v.term}] in\n  ' + self.block(rest, env2, fin)
            f = c.func
            if isinstance(f, ast.Attribute) and isinstance(f.value, ast.Name) and f.attr in ('add', 'remove') and f.value.id in env:
                name = f.value.id
                b = env[name]
                if b.ty == 'oset' and f.attr == 'add':
                    a = self.nat(c.args[0], env)
                    pend, self.pending = self.pending, []
                    inner = self.block(rest, self.bind(env, name, V('oset', b.term)), fin)      # insertion at the end: no longer ascending
                    self.pending = pend
                    return self.wrap_pending(f'let {b.term} := oset_add {b.term} {a} in\n  ' + inner)
                if b.ty == 'oset' and f.attr == 'remove':
                    a = self.nat(c.args[0], env)
                    extra = {x: y for x, y in b.__dict__.items() if x in ('sortedset',)}
                    pend, self.pending = self.pending, []
                    inner = self.block(rest, self.bind(env, name, V('oset', b.term, **extra)), fin)
                    self.pending = pend
                    return self.wrap_pending(f'match oset_remove {b.term} {a} with\n  | Some {b.term} =>\n  {inner}\n  | None => {self.fail()}\n  end')
                if b.ty == 'pairset' and f.attr == 'add':
                    a = self.ex(c.args[0], env)
                    if a.ty != 'pair':
                        raise Unsupported(f'{name}.add of a {a.ty}')
                    pend, self.pending = self.pending, []
                    inner = self.block(rest, self.bind(env, name, V('pairset', b.term)), fin)
                    self.pending = pend
                    return self.wrap_pending(f'let {b.term} := pairset_add {b.term} {a.term} in\n  ' + inner)
                raise Unsupported(f'{name}.{f.attr} on a {b.ty}')
        return VB.Fn.expr_stmt(self, s, rest, env, fin)

    def assign_name(self, name, val, s, rest, env, fin):
        # x = sorted(S, key=lambda e: <float>)[0]
        if isinstance(val, ast.Subscript) and isinstance(val.value, ast.Call) and isinstance(val.value.func, ast.Name) and val.value.func.id == 'sorted' \
                and 'sorted' not in env:
            c = val.value
            if small_int(val.slice) != 0:
                raise Unsupported('only the head `[0]` of sorted(..) is modelled (sel): ' + src(val))
            if len(c.args) != 1 or [k.arg for k in c.keywords] != ['key']:
                raise Unsupported('sorted(S, key=..) expected: ' + src(c))
            st = self.ex(c.args[0], env)
            if st.ty != 'pairset':
                raise Unsupported(f'sorted(..)[0] of a {st.ty}')
            lam = c.keywords[0].value
            a = lam.args if isinstance(lam, ast.Lambda) else None
            if a is None or len(a.args) != 1 or a.defaults or a.vararg or a.kwarg or a.kwonlyargs or a.posonlyargs:
                raise Unsupported('sort key is not a one-argument lambda: ' + src(lam))
            p = a.args[0].arg
            if p in env:
                raise Unsupported(f'the lambda parameter {p} shadows a local')
            envl = dict(env)
            envl[p] = V('pair', cq(p))
            kv = self.ex(lam.body, envl)
            if kv.ty != 'float' or self.pending:
                raise Unsupported('sort key is not a float expression: ' + src(lam.body))
            inner = self.block(rest, self.bind(env, name, V('pair', cq(name))), fin)
            return (f'match py_sorted_head sel order (fun {cq(p)} => {kv.term}) {st.term} with\n  | Some {cq(name)} =>\n  {inner}\n'
                    f'  | None => {self.fail()}\n  end')
        return VB.Fn.assign_name(self, name, val, s, rest, env, fin)


def regular_builder(meth, gname, what):
    def tr(C, done):
        f, (pself,) = VG.method(C['RegularTree'], meth, [], 1)
        t = RegFn(gname, True, done, [('fuel', 'nat')] + VB.BUILDER_PARAMS, edge_facts=VG.init_facts(C['Edge']))
        env = VB.self_env(first=(meth == '_build_first_tree'))
        body = t.block(VG.strip_doc(f.body), env, lambda e: t.ok(e['self.edges'].term))
        if t.fuel_bound is None:
            raise Unsupported('no while loop')
        return (''.join(t.aux) + f'(* RegularTree.{meth}: {what}; at most `fuel` rounds of the while loop *)\n'
                f'Definition {gname}_fuel (fuel : nat) {VB.BUILDER_SIG} : option (list edge) :=\n  {body}.\n\n'
                f'(* ... with the right operand of the loop test `len(..) != ..` as fuel *)\n'
                f'Definition {gname} {VB.BUILDER_SIG} : option (list edge) :=\n  {gname}_fuel {t.fuel_bound} {VB.BUILDER_ARGS}.\n\n')
    return tr


tr_regular_first = regular_builder('_build_first_tree', 'gen_regular_first', 'the final self.edges; None = an exception or no termination')
tr_regular_kth = regular_builder('_build_kth_tree', 'gen_regular_kth', 'the final self.edges; None = an exception or no termination')


if __name__ == '__main__':
    import sys
    t, st = VB.translate(*(sys.argv[1:3]))
    print(t)
    for k, v in st.items():
        print(f'(* {k}: {"ok" if v is None else v} *)')
