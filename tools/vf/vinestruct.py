"""Helpers of the C16 check (vine structure).

 * Capture: context manager that instruments copulas.multivariate.tree (harness side only, everything is
   restored on exit): records, per tree level, the tau matrix handed to Tree.fit, numpy's argsort order in
   Tree._sort_tau_by_y, Python's iteration order of every candidate set handed to `sorted`, every
   select_copula call (input + result); optionally replaces select_copula by a stub, poisons the module's
   np.empty with a chosen fill value, and guards the regular k-th tree loop against spinning forever.
 * drive_train_vine: runs the REAL VineCopula.train_vine / Tree.fit / *_build_*_tree with synthetic tau
   matrices for every level (data plane stubbed).
 * coq_* : rendering of the captured data as Gallina terms for Model.Vine, parsing of show_vine.
 * py_validate: an independent Python statement of the property (witness-search oracle), own Kruskal.
 * repro_* : entry points used by the replay snippets.
"""
import ast
import itertools
import math
import warnings
from fractions import Fraction

import numpy as np

CTY = {'center': 'Center', 'direct': 'Direct', 'regular': 'Regular'}


class SpinError(RuntimeError):
    pass


class _NpProxy:
    """stands in for the name `np` inside copulas.multivariate.tree: np.empty returns a filled array"""

    def __init__(self, fill):
        self._fill = fill

    def __getattr__(self, k):
        return getattr(np, k)

    def empty(self, shape, *a, **k):
        return np.full(shape, self._fill, dtype=float)


class _Stub:
    copula_type = 'stub'
    theta = 0.0


class Capture:
    def __init__(self, fill=None, stub=False, guard=20000, synth_taus=None):
        self.fill, self.stub, self.guard = fill, stub, guard
        self.synth = list(synth_taus) if synth_taus is not None else None
        self.levels = []          # dicts: index, n, tau, sort, sets, selects, tree
        self.cur = None
        self.loose = {'sort': [], 'sets': [], 'selects': []}

    def _rec(self):
        return self.cur if self.cur is not None else self.loose

    def __enter__(self):
        from copulas.multivariate import tree as T
        from copulas.bivariate.base import Bivariate
        self.T, self.B = T, Bivariate
        self._saved = {
            'np': T.np, 'fit': T.Tree.fit, 'sort': T.Tree._sort_tau_by_y, 'cc': T.Tree._check_constraint,
            'sel': Bivariate.__dict__['select_copula'], 'gtm': T.Tree.get_tau_matrix, 'pnt': T.Tree.prepare_next_tree,
        }
        cap = self
        if self.fill is not None:
            T.np = _NpProxy(self.fill)
        o_fit, o_sort, o_cc = self._saved['fit'], self._saved['sort'], self._saved['cc']
        o_sel = self._saved['sel'].__func__

        def fit(tree, index, n_nodes, tau_matrix, previous_tree, edges=None):
            rec = {'index': index, 'n': n_nodes, 'tau': np.array(tau_matrix, dtype=float, copy=True), 'sort': [],
                   'sets': [], 'selects': [], 'tree': tree, 'cc': 0}
            cap.levels.append(rec)
            cap.cur = rec
            try:
                return o_fit(tree, index, n_nodes, tau_matrix, previous_tree, edges)
            finally:
                cap.cur = None

        def sort_tau(tree, y):
            r = o_sort(tree, y)
            cap._rec()['sort'].append([int(x) for x in r[:, 0]])
            return r

        def check_constraint(tree, e1, e2):
            rec = cap._rec()
            rec['cc'] = rec.get('cc', 0) + 1
            if rec['cc'] > cap.guard:
                raise SpinError('regular k-th tree loop does not terminate (guard)')
            return o_cc(tree, e1, e2)

        def wsorted(it, key=None, reverse=False):
            if isinstance(it, set) and it and all(isinstance(x, tuple) for x in it):
                cap._rec()['sets'].append([(int(a), int(b)) for a, b in it])
                if len(cap._rec()['sets']) > cap._rec()['n'] + 8:      # one call per successful round of a Prim loop: at most n_nodes - 1
                    raise SpinError('regular tree: the Prim loop does not terminate (guard)')
            return sorted(it, key=key, reverse=reverse)

        def select(cls, X):
            if cap.stub:
                res = _Stub()
            else:
                with warnings.catch_warnings():
                    warnings.simplefilter('ignore')
                    res = o_sel(cls, X)
            cap._rec()['selects'].append((np.array(X, copy=True), res.copula_type, res.theta))
            return res

        T.Tree.fit = fit
        T.Tree._sort_tau_by_y = sort_tau
        T.Tree._check_constraint = check_constraint
        T.sorted = wsorted
        Bivariate.select_copula = classmethod(select)
        if self.synth is not None:
            def get_tau_matrix(tree):
                return np.array(cap.synth[tree.level], dtype=float)     # matrix for the tree of index tree.level

            def prepare_next_tree(tree):
                for e in tree.edges:
                    e.U = np.zeros((2, 1))
            T.Tree.get_tau_matrix = get_tau_matrix
            T.Tree.prepare_next_tree = prepare_next_tree
        return self

    def __exit__(self, *exc):
        T, B = self.T, self.B
        T.np = self._saved['np']
        T.Tree.fit = self._saved['fit']
        T.Tree._sort_tau_by_y = self._saved['sort']
        T.Tree._check_constraint = self._saved['cc']
        T.Tree.get_tau_matrix = self._saved['gtm']
        T.Tree.prepare_next_tree = self._saved['pnt']
        B.select_copula = self._saved['sel']
        if 'sorted' in T.__dict__:
            del T.sorted
        return False


# ---------------------------------------------------------------- running the implementation
def drive_train_vine(vt, d, t, taus, fill=None):
    """Real VineCopula.train_vine with synthetic tau matrices taus[k] (k = tree index).  Returns (cap, vine, exc)."""
    from copulas.multivariate import VineCopula
    with warnings.catch_warnings():
        warnings.simplefilter('ignore')
        v = VineCopula(vt)
    v.n_var, v.truncated, v.depth = d, t, d - 1
    v.tau_mat = np.array(taus[0], dtype=float)
    v.u_matrix = np.zeros((1, d))
    v.trees = []
    exc = None
    with Capture(fill=fill, stub=True, synth_taus=taus) as cap:
        try:
            v.train_vine(vt)
        except Exception as ex:      # noqa
            exc = ex
    return cap, v, exc


def fit_vine(vt, X, t, fill):
    from copulas.multivariate import VineCopula
    exc = None
    with warnings.catch_warnings():
        warnings.simplefilter('ignore')
        v = VineCopula(vt)
        with Capture(fill=fill, stub=False) as cap:
            try:
                v.fit(X, truncated=t)
            except Exception as ex:      # noqa
                exc = ex
    return cap, v, exc


def edges_of(trees):
    """canonical structure: per tree a list of (index, (L, R), sorted D, parent positions or None)"""
    out = []
    for k, t in enumerate(trees):
        row = []
        for e in t.edges:
            par = None
            if e.parents is not None:
                prev = trees[k - 1].edges if k else []
                par = tuple(next((i for i, p in enumerate(prev) if p is q), -1) for q in e.parents)
            row.append((int(e.index), (int(e.L), int(e.R)), sorted(int(x) for x in e.D), par))
        out.append(row)
    return out


def edge_taus(trees):
    return [[None if e.tau is None else float(e.tau) for e in t.edges] for t in trees]


def same_floats(a, b):
    if len(a) != len(b):
        return False
    for r, s in zip(a, b):
        if len(r) != len(s):
            return False
        for x, y in zip(r, s):
            if x is None or y is None:
                if x is not y:
                    return False
            elif not (x == y or (x != x and y != y)):
                return False
    return True


# ---------------------------------------------------------------- Coq rendering / parsing
def cq(x):
    x = float(x)
    if x != x:
        return 'None'
    if math.isinf(x):
        raise ValueError('infinite tau entry cannot be rendered')
    f = Fraction(x)
    return f'q ({f.numerator}) {f.denominator}'


def coq_tmat(m):
    return '[' + '; '.join('[' + '; '.join(cq(x) for x in row) + ']' for row in np.asarray(m, dtype=float)) + ']'


def coq_natlist(l):
    return '[' + '; '.join(str(int(x)) for x in l) + ']'


def coq_pairs(l):
    return '[' + '; '.join(f'({a}, {b})' for a, b in l) + ']'


def coq_tie(levels):
    perms = [list(reversed(s)) for lv in levels for s in lv['sort']]
    lens = [len(p) for p in perms]
    return 'tie_of [' + '; '.join(coq_natlist(p) for p in perms) + ']', len(set(lens)) == len(lens)


def coq_order(levels):
    seen, recs, consistent = {}, [], True
    for lv in levels:
        for s in lv['sets']:
            key = frozenset(s)
            if key in seen:
                if seen[key] != s:
                    consistent = False
                continue
            seen[key] = s
            recs.append(s)
    return 'order_of [' + '; '.join(coq_pairs(s) for s in recs) + ']', consistent


def coq_replay(vt, d, t, levels, taus=None):
    """Gallina term replaying the whole vine in the model with the recorded tau matrices / argsort / set orders.
    `taus`: matrices per tree index (default: the ones captured at Tree.fit, padded with [] )."""
    if taus is None:
        taus = [lv['tau'] for lv in levels]
    tie, ok1 = coq_tie(levels)
    order, ok2 = coq_order(levels)
    mats = '[' + '; '.join(coq_tmat(m) for m in taus) + ']'
    term = (f'show_vine (train_vine_gen_opt ({tie}) pick_py {CTY[vt]} {d} {t} '
            f'(fun k => nth k {mats} []) ({order}))')
    return term, ok1 and ok2


def coq_edges(struct):
    def e(x):
        par = 'None' if x[3] is None else f'(Some ({x[3][0]}, {x[3][1]}))'
        return f'mkEdge {x[0]} {x[1][0]} {x[1][1]} {coq_natlist(x[2])} {par}'
    return '[' + '; '.join('[' + '; '.join(e(x) for x in row) + ']' for row in struct) + ']'


def coq_valid(vt, d, t, struct):
    return f'valid_vine {CTY[vt]} {d} {t} {coq_edges(struct)}'


def parse_vine(s):
    """show_vine output -> None | list of lists of (idx, (L, R), D, par)"""
    if s is None:
        return 'unevaluated'
    s = s.strip()
    if s == 'None':
        return None
    try:
        v = ast.literal_eval(s.replace(';', ',').replace('Some ', ''))
    except Exception:
        return 'unparsed: ' + s[:200]
    return [[(int(a), (int(b[0]), int(b[1])), [int(x) for x in c], None if p is None else (int(p[0]), int(p[1])))
             for (a, b, c, p) in row] for row in v]


VM_IMPORTS = 'From Cop Require Import Lib.FinGraph Model.Vine Model.BivCtl Spec.VineDefs Spec.VineValid.'
VM_SCOPE = 'Open Scope nat_scope.\n'


# ---------------------------------------------------------------- independent Python statement of the property
class _UF:
    def __init__(self, n):
        self.p = list(range(n))

    def find(self, a):
        while self.p[a] != a:
            self.p[a] = self.p[self.p[a]]
            a = self.p[a]
        return a

    def union(self, a, b):
        a, b = self.find(a), self.find(b)
        if a == b:
            return False
        self.p[a] = b
        return True


def _is_spanning_tree(n, pairs):
    if len(pairs) != n - 1:
        return False
    uf = _UF(n)
    for a, b in pairs:
        if not (0 <= a < n and 0 <= b < n) or a == b or not uf.union(a, b):
            return False
    return True


def _shape_ok(vt, n, pairs):
    deg = [0] * n
    for a, b in pairs:
        if 0 <= a < n and 0 <= b < n:
            deg[a] += 1
            deg[b] += 1
    if vt == 'center':
        return n <= 1 or any(dg == n - 1 for dg in deg) and len(pairs) == n - 1
    if vt == 'direct':
        return all(dg <= 2 for dg in deg)
    return True


def max_spanning_weight(w):
    """own Kruskal on the complete graph with weights w[i][j] (i<j)"""
    n = len(w)
    es = sorted(((w[i][j], i, j) for i in range(n) for j in range(i + 1, n)), reverse=True)
    uf, tot = _UF(n), 0.0
    for x, i, j in es:
        if uf.union(i, j):
            tot += x
    return tot


def py_validate(vt, d, t, struct, tau0=None):
    """the statement of C16 on a structure [(idx,(L,R),D,par)]; returns a list of problems (strings)"""
    bad = []
    want = max(1, min(d - 1, t))
    if len(struct) != want:
        bad.append(f'number of trees {len(struct)} != max(1, min(d-1, t)) = {want}')
    pairs_seen = {}
    for k, row in enumerate(struct):
        nn = d - k
        if len(row) != nn - 1:
            bad.append(f'tree {k + 1} has {len(row)} edges, expected {nn - 1}')
        if [e[0] for e in row] != list(range(len(row))):
            bad.append(f'tree {k + 1}: edge indices {[e[0] for e in row]} are not 0..m-1')
        for (idx, (L, R), D, par) in row:
            if not (0 <= L < R < d):
                bad.append(f'tree {k + 1} edge {idx}: conditioned pair ({L},{R}) is not two distinct sorted variables < d')
            if len(D) != k or len(set(D)) != len(D) or (set(D) & {L, R}):
                bad.append(f'tree {k + 1} edge {idx}: conditioning set {D} does not have {k} variables disjoint from the pair')
            if (L, R) in pairs_seen:
                bad.append(f'pair ({L},{R}) is conditioned twice: tree {pairs_seen[(L, R)]} and tree {k + 1}')
            pairs_seen[(L, R)] = k + 1
        if k == 0:
            g = [(L, R) for (_, (L, R), _, _) in row]
            if any(e[3] is not None for e in row):
                bad.append('tree 1 has edges with parents')
        else:
            prev = struct[k - 1]
            g = []
            for (idx, (L, R), D, par) in row:
                if par is None or len(par) != 2 or par[0] == par[1] or not all(0 <= p < len(prev) for p in par):
                    bad.append(f'tree {k + 1} edge {idx}: parents {par} are not two distinct edges of tree {k}')
                    continue
                g.append(par)
                a, b = prev[par[0]], prev[par[1]]
                Ua, Ub = {a[1][0], a[1][1], *a[2]}, {b[1][0], b[1][1], *b[2]}
                if k == 1:
                    share = bool({a[1][0], a[1][1]} & {b[1][0], b[1][1]})
                else:
                    share = a[3] is not None and b[3] is not None and bool(set(a[3]) & set(b[3]))
                if not share:
                    bad.append(f'tree {k + 1} edge {idx}: parents {par} do not share a node of tree {k} (proximity)')
                if set(D) != (Ua & Ub):
                    bad.append(f'tree {k + 1} edge {idx}: D = {D} is not the intersection {sorted(Ua & Ub)} of its parents\' variable sets')
                if {L, R} != (Ua ^ Ub):
                    bad.append(f'tree {k + 1} edge {idx}: conditioned pair ({L},{R}) is not the symmetric difference {sorted(Ua ^ Ub)}')
        if not _is_spanning_tree(nn, g):
            bad.append(f'tree {k + 1} is not a spanning tree on its {nn} nodes: {g}')
        elif not _shape_ok(vt, nn, g):
            bad.append(f'tree {k + 1} of a {vt} vine is not a {"star" if vt == "center" else "path"}: {g}')
    if vt == 'regular' and tau0 is not None and struct and len(struct[0]) == d - 1:
        w = np.abs(np.asarray(tau0, dtype=float))
        off = w[~np.eye(d, dtype=bool)]
        if not np.isnan(off).any() and np.allclose(w, w.T, rtol=0, atol=0, equal_nan=True):
            got = sum(float(w[L][R]) for (_, (L, R), _, _) in struct[0])
            best = max_spanning_weight(w)
            if abs(got - best) > 1e-12 * (1 + abs(best)):
                bad.append(f'first tree of the regular vine has total |tau| {got!r} < maximum spanning tree weight {best!r}')
    return bad


# ---------------------------------------------------------------- generators
def ordering_matrix(perm, signs):
    """symmetric d x d matrix whose off-diagonal |entries| are strictly ordered as the permutation `perm` of the pairs"""
    m = len(perm)
    d = int(round((1 + math.sqrt(1 + 8 * m)) / 2))
    pairs = [(i, j) for i in range(d) for j in range(i + 1, d)]
    tau = np.ones((d, d))
    for rank, pi in enumerate(perm):
        i, j = pairs[pi]
        v = (rank + 1) / float(m + 1) * (1 if signs[pi] else -1)
        tau[i, j] = tau[j, i] = v
    return tau


GRID = [k / 4.0 for k in range(-4, 5)]


def random_tau(rng, n, level, kind):
    """boundary-biased synthetic tau matrix (n x n).  level 0: symmetric (as X.corr gives); deeper: asymmetric with
    NaN cells (as get_tau_matrix leaves them).  kind: 'grid' (many ties), 'few' (three values only), 'distinct', 'nanvar' (NaN row+column),
    'sparse' (NaN cells)."""
    m = np.ones((n, n))
    sym = level == 0 and rng.random() < 0.9
    vals = rng.permutation(np.arange(1, 4 * n * n + 1))[: n * n] / float(4 * n * n + 2)
    for i in range(n):
        for j in range(n):
            if i == j or (sym and j < i):
                continue
            if kind == 'distinct':
                v = vals[i * n + j] * (1 if rng.random() < 0.5 else -1)
            elif kind == 'few':
                v = (0.25, 0.5, -0.5)[int(rng.integers(0, 3))]
            else:
                v = GRID[int(rng.integers(0, len(GRID)))]
                if rng.random() < 0.15:
                    v = float(rng.choice([0.0, 1.0, -1.0, 1e-300, -0.0]))
            m[i, j] = v
            if sym:
                m[j, i] = v
    if kind == 'nanvar' and n >= 2:
        for c in rng.choice(np.arange(n), size=int(rng.integers(1, max(2, n // 2 + 1))), replace=False):
            m[c, :] = np.nan
            m[:, c] = np.nan
    if kind == 'sparse' or (level > 0 and rng.random() < 0.5):
        mask = rng.random((n, n)) < (0.35 if level > 0 else 0.15)
        if sym:
            mask = np.triu(mask, 1)
            mask = mask | mask.T
        m[mask] = np.nan
    if level > 0 and rng.random() < 0.5:
        np.fill_diagonal(m, np.nan)
    return m


def make_table(seed, d, n, kind):
    """deterministic table generator of the end-to-end level"""
    import pandas as pd
    rng = np.random.default_rng(seed)
    a = rng.normal(size=(d, d))
    cov = a @ a.T + np.eye(d) * (0.2 if kind == 'strong' else 1.0)
    z = rng.multivariate_normal(np.zeros(d), cov, n)
    if kind == 'heavy':
        z = np.sign(z) * np.abs(z) ** 1.7 + rng.standard_t(3, size=(n, d)) * 0.3
    elif kind == 'mixed':
        for j in range(d):
            if j % 2:
                z[:, j] = np.exp(z[:, j] / 2)
            if j % 3 == 2:
                z[:, j] = -z[:, j] + 0.5 * z[:, (j + 1) % d] ** 2
    elif kind == 'ties':
        for j in range(0, d, 2):
            z[:, j] = np.round(z[:, j], 0)
    elif kind == 'indep':
        z = rng.normal(size=(n, d))
    return pd.DataFrame(z, columns=[f'c{i}' for i in range(d)])


# ---------------------------------------------------------------- replay entry points
def repro_unit(vt, d, t, taus, expected, fill=None):
    """run the real train_vine on the synthetic matrices; non-empty result = the violation manifests"""
    taus = [np.array([[float('nan') if x is None else x for x in row] for row in m], dtype=float) for m in taus]
    cap, v, exc = drive_train_vine(vt, d, t, taus, fill)
    struct = None if exc is not None else edges_of(v.trees)
    out = []
    if exc is not None:
        out.append(f'raised {type(exc).__name__}: {exc}')
    if expected != 'skip':
        exp = None if expected is None else [[(a, tuple(b), list(c), None if p is None else tuple(p)) for a, b, c, p in row] for row in expected]
        if struct != exp:
            out.append(f'implementation structure {struct} differs from the model\'s {exp}')
    if struct is not None:
        out += py_validate(vt, d, t, struct, taus[0])
    return out


def repro_fit(vt, seed, d, n, kind, t, fills=(float('nan'), 0.123, 2.0)):
    """end-to-end fit under several np.empty fills; returns (problems of the validator, structures differ?)"""
    X = make_table(seed, d, n, kind)
    structs, probs = [], []
    for f in fills:
        cap, v, exc = fit_vine(vt, X, t, f)
        if exc is not None:
            probs.append(f'fill={f}: raised {type(exc).__name__}: {exc}')
            structs.append(None)
            continue
        s = edges_of(v.trees)
        structs.append(s)
        probs += [f'fill={f}: {p}' for p in py_validate(vt, d, t, s, cap.levels[0]['tau'])]
    differ = any(s != structs[0] for s in structs[1:])
    return probs, differ, structs


def tolist(m):
    return [[None if x != x else float(x) for x in row] for row in np.asarray(m, dtype=float)]


def all_orderings(d):
    m = d * (d - 1) // 2
    return itertools.permutations(range(m))
