"""Shared machinery of the checks: build directories, coqc invocation, obligations, evidence,
violations / known findings, replay files."""
import fcntl
import fnmatch
import hashlib
import json
import os
import re
import shutil
import subprocess
import sys
import time
from concurrent.futures import ThreadPoolExecutor

VERIF = os.path.dirname(os.path.dirname(os.path.dirname(os.path.abspath(__file__))))
REPO = os.environ.get('VERIF_REPO', '/repo')
COQ = os.path.join(VERIF, 'coq')
# Output root.  Runs against /repo write build/, replays/ and evidence/ under /verif.  Runs against a scratch tree (VERIF_REPO set to
# something else: seeded changes, harmless rewrites) write them under /tmp/vf_out/<name of the tree>/ so that they can run concurrently
# with each other and with the real checks, and never overwrite the evidence of the tree under /repo.
OUT = os.environ.get('VERIF_OUT') or (VERIF if os.path.realpath(REPO) == '/repo' else os.path.join('/tmp/vf_out', os.path.basename(os.path.normpath(REPO))))
PY = '/venv/bin/python'
NCPU = min(16, os.cpu_count() or 4)

FORBIDDEN = re.compile(r'\b(Admitted|admit|Axiom|Parameter|Parameters|Conjecture|Axioms|Hypothesis|Variable|Variables|Hypotheses)\b'
                       r'|Unset\s+Guard|bypass_check|type-in-type|impredicative-set|Admit\s+Obligations|Unset\s+Universe\s+Checking'
                       r'|Unset\s+Positivity')
STMT = re.compile(r'^\s*(?:Local\s+|Global\s+|#\[[^\]]*\]\s*)?(Theorem|Lemma|Example|Corollary|Goal|Fact|Remark|Proposition)\b\s*([A-Za-z0-9_\']*)', re.M)

STD_TRUSTED = [
    'Coq 8.16.1 kernel (coqc), vm_compute for evaluation; no native_compute',
    'py2coq translator (tools/vf/py2coq.py) and the numpy denotation coq/Lib/NumpyR.v (validated by the certified correspondence, not verified)',
    'source normalisation (tools/vf/srcnorm.py): a function of the current source that is alpha-equivalent (bound names, docstrings, annotations, message texts) '
    'to its counterpart in the committed reference snapshot tools/vf/refsrc is read by the translators in its reference spelling; every other function is read as it is',
    'Python harness (tools/vf): generators, canonicalisers, oracle capture by monkeypatching',
    'IEEE-754 rounding is not modelled in real-number theorems (bounded empirically by the interval-certified comparison)',
]


def strip_comments(text):
    out, depth, i = [], 0, 0
    while i < len(text):
        if text.startswith('(*', i):
            depth += 1
            i += 2
        elif text.startswith('*)', i) and depth:
            depth -= 1
            i += 2
        else:
            if not depth:
                out.append(text[i])
            elif text[i] == '\n':
                out.append('\n')
            i += 1
    return ''.join(out)


def section_aware_gate(text):
    """Return forbidden constructs.  Variable/Hypothesis are allowed only inside a Section."""
    bad = []
    depth = 0
    for ln, line in enumerate(strip_comments(text).split('\n'), 1):
        if re.match(r'^\s*Section\b', line):
            depth += 1
        if re.match(r'^\s*End\b', line) and depth:
            depth -= 1
        for m in FORBIDDEN.finditer(line):
            w = m.group(0)
            if re.match(r'(Hypothesis|Hypotheses|Variable|Variables)$', w):
                if depth > 0 or not re.match(r'^\s*(Hypothes|Variable)', line):
                    continue
            if w in ('Parameter', 'Parameters') and not re.match(r'^\s*Parameter', line):
                continue
            bad.append((ln, w))
    return bad


class Ctx:
    def __init__(self, pid, tier, seed):
        self.pid, self.tier, self.seed = pid, tier, seed
        self.t0 = time.time()
        self.build = os.path.join(OUT, 'build', pid)
        shutil.rmtree(self.build, ignore_errors=True)
        os.makedirs(self.build, exist_ok=True)
        shutil.rmtree(os.path.join(OUT, 'replays', pid), ignore_errors=True)   # replays of earlier runs are stale
        self.obligations = []        # dicts: name, ok, kind, detail
        self.evals = 0
        self.distinct = set()
        self.samples = []
        self.rules = []
        self.violations = []         # dicts: key, what, replay(obj), found(bool)
        self.axioms = set()
        self.trusted = list(STD_TRUSTED)
        self.assumptions = []
        self.extra = {}
        self.checker_cmds = []
        self.log_lines = []

    # ---------- logging ----------
    def log(self, *a):
        msg = ' '.join(str(x) for x in a)
        self.log_lines.append(msg)
        print(f'[{self.pid}] {msg}', flush=True)

    # ---------- static build ----------
    def ensure_static(self):
        lock = open(os.path.join(VERIF, 'build', '.static.lock'), 'w')
        fcntl.flock(lock, fcntl.LOCK_EX)
        try:
            mk = os.path.join(COQ, 'Makefile')
            if not os.path.exists(mk) or os.path.getmtime(mk) < os.path.getmtime(os.path.join(COQ, '_CoqProject')):
                subprocess.run(['coq_makefile', '-f', '_CoqProject', '-o', 'Makefile'], cwd=COQ, check=True,
                               stdout=subprocess.DEVNULL)
            r = subprocess.run(['timeout', '3000', 'make', f'-j{NCPU}'], cwd=COQ, stdout=subprocess.PIPE,
                               stderr=subprocess.STDOUT, text=True)
            if r.returncode != 0:
                tail = '\n'.join(l for l in r.stdout.split('\n') if 'Warning' not in l and 'coercion' not in l)[-3000:]
                self.obligation('static-library-build', False, 'proof', tail)
                return False
            return True
        finally:
            fcntl.flock(lock, fcntl.LOCK_UN)

    def gate(self):
        bad = []
        for root in (COQ, self.build):
            for dp, dn, fn in os.walk(root):
                for f in fn:
                    if f.endswith('.v'):
                        p = os.path.join(dp, f)
                        for ln, w in section_aware_gate(open(p).read()):
                            bad.append(f'{os.path.relpath(p, VERIF)}:{ln}:{w}')
        self.obligation('gate:no-admit-no-axiom', not bad, 'gate', '; '.join(bad[:20]))
        return not bad

    # ---------- files ----------
    def write(self, rel, text):
        p = os.path.join(self.build, rel)
        os.makedirs(os.path.dirname(p), exist_ok=True)
        with open(p, 'w') as f:
            f.write(text)
        return p

    def copy_src(self, rel_in_coq, rel_out=None):
        """Copy a Bridge/Props source from coq/ into the build dir (they depend on generated files)."""
        src = os.path.join(COQ, rel_in_coq)
        dst = os.path.join(self.build, rel_out or os.path.basename(rel_in_coq))
        shutil.copy(src, dst)
        return dst

    def _coqc(self, rel, timeout):
        t = time.time()
        cmd = ['timeout', str(timeout), 'coqc', '-q', '-w', '-all', '-Q', COQ, 'Cop', '-Q', self.build, 'CopRun', rel]
        r = subprocess.run(cmd, cwd=self.build, stdout=subprocess.PIPE, stderr=subprocess.PIPE, text=True)
        return {'file': rel, 'ok': r.returncode == 0, 'rc': r.returncode, 'out': r.stdout, 'err': r.stderr,
                's': time.time() - t}

    def coqc_cmd(self):
        return f'coqc -q -Q {COQ} Cop -Q {self.build} CopRun <file>.v   (per generated/bridge/property file; static library: make in coq/)'

    @staticmethod
    def failing_statement(path, err):
        m = re.search(r'line (\d+), characters', err)
        if not m:
            return None
        ln = int(m.group(1))
        text = open(path).read().split('\n')
        name = None
        for i, line in enumerate(text[:ln], 1):
            mm = STMT.match(line)
            if mm:
                name = mm.group(2) or f'Goal@{i}'
        return name

    def compile(self, rels, kind='proof', timeout=600, count_statements=True):
        """Compile files sequentially (dependency order).  Each Theorem/Lemma/... statement in a file that
        compiles is one discharged obligation; a failing file yields one failed obligation named after the
        statement the error points into.  Returns True iff all compiled."""
        allok = True
        for rel in rels:
            path = os.path.join(self.build, rel)
            r = self._coqc(rel, timeout)
            self.extra.setdefault('coqc_seconds', {})[rel] = round(r['s'], 1)
            names = [m.group(2) or 'Goal' for m in STMT.finditer(strip_comments(open(path).read()))]
            if r['ok']:
                if count_statements:
                    for n in names:
                        self.obligations.append({'name': f'{rel}:{n}', 'ok': True, 'kind': kind})
                self._collect_axioms(r['out'])
            else:
                allok = False
                err = (r['err'] or r['out'])
                if r['rc'] == 124:
                    err = f'TIMEOUT after {timeout}s\n' + err
                st = self.failing_statement(path, err) or '(unknown statement)'
                clean = '\n'.join(l for l in err.split('\n') if 'Warning' not in l)[-1500:]
                self.obligations.append({'name': f'{rel}:{st}', 'ok': False, 'kind': kind, 'detail': clean})
                self.log(f'coqc FAILED {rel} at {st}: {clean[-400:]}')
                break   # later files depend on this one
        return allok

    def compile_parallel(self, rels, kind='correspondence', timeout=900):
        """Independent files (cases); returns list of result dicts."""
        with ThreadPoolExecutor(NCPU) as ex:
            res = list(ex.map(lambda rel: self._coqc(rel, timeout), rels))
        return res

    def _collect_axioms(self, out):
        # output of Print Assumptions
        for block in re.split(r'\n(?=Axioms:|Closed under)', out):
            if block.startswith('Axioms:'):
                for m in re.finditer(r'^([A-Za-z_][\w\.\']*)\s*:', block[7:], re.M):
                    self.axioms.add(m.group(1))

    def coqchk(self, module, timeout=2400):
        """Thorough tier: re-check the compiled property file and everything it depends on with the independent checker."""
        t = time.time()
        cmd = ['timeout', str(timeout), 'coqchk', '-silent', '-o', '-Q', COQ, 'Cop', '-Q', self.build, 'CopRun', f'CopRun.{module}']
        r = subprocess.run(cmd, cwd=self.build, stdout=subprocess.PIPE, stderr=subprocess.STDOUT, text=True)
        out = r.stdout
        ok = r.returncode == 0 and 'CONTEXT SUMMARY' in out
        axioms = []
        if ok:
            sec = out.split('* Axioms:')[1].split('* Constants/Inductives relying on type-in-type')[0]
            axioms = [l.strip() for l in sec.strip().split('\n') if l.strip() and l.strip() != '<none>']
            bad = [k for k in ('type-in-type', 'unsafe (co)fixpoints', 'positivity is assumed') if
                   out.split(k + ':')[1].strip().split('\n')[0].strip() != '<none>'] if all(k + ':' in out for k in ('type-in-type', 'unsafe (co)fixpoints', 'positivity is assumed')) else []
            ok = not bad
        self.obligation(f'coqchk:{module}', ok, 'proof', out[-1500:] if not ok else '')
        self.extra.setdefault('coqchk', {})[module] = {'seconds': round(time.time() - t, 1), 'axioms': axioms}
        for a in axioms:
            self.axioms.add(a.split(':')[0].strip())
        return ok

    # ---------- bookkeeping ----------
    def obligation(self, name, ok, kind='proof', detail=''):
        self.obligations.append({'name': name, 'ok': bool(ok), 'kind': kind, 'detail': detail})
        if not ok:
            self.log(f'obligation FAILED: {name}: {str(detail)[-300:]}')

    def case(self, key, sample=None, nontrivial=True):
        self.evals += 1
        if nontrivial:
            self.distinct.add(key)
        if sample is not None and len(self.samples) < 12:
            self.samples.append(sample)

    def rule(self, text):
        if text not in self.rules:
            self.rules.append(text)

    def violation(self, key, what, replay, found=True):
        self.violations.append({'key': key, 'what': what, 'replay': replay, 'found': found})

    # ---------- finish ----------
    def finish(self, level_text=''):
        kf = json.load(open(os.path.join(VERIF, 'known_findings.json')))
        known = [f for f in kf.get('findings', []) if f['property'] == self.pid]
        exit_code = 0
        out_lines = []
        reported = 0
        seen_known = set()
        seen_keys = set()
        for v in self.violations:
            if v['key'] in seen_keys:
                continue
            seen_keys.add(v['key'])
            match = next((f for f in known if fnmatch.fnmatchcase(v['key'], f['key'])), None)
            if match is not None:
                if match['key'] not in seen_known:
                    seen_known.add(match['key'])
                    out_lines.append(f"KNOWN-FINDING: property={self.pid} {match['what']}")
                continue
            reported += 1
            exit_code = 1
            rp = self._write_replay(v)
            tail = '' if v['found'] else ' no-failing-input-found'
            out_lines.append(f'VIOLATION property={self.pid} replay={rp}{tail}')
        failed = [o for o in self.obligations if not o['ok']]
        # a failed obligation without any violation recorded is itself a violation (property no longer shown)
        if failed and not reported and not (self.violations and exit_code == 0 and not self._unexplained(failed)):
            for o in failed:
                v = {'key': 'obligation:' + o['name'], 'what': f"{o['kind']} obligation no longer checks: {o['name']}",
                     'replay': {'failed_obligation': o['name'], 'kind': o['kind'], 'detail': o.get('detail', '')[-1500:]},
                     'found': False}
                rp = self._write_replay(v)
                out_lines.append(f'VIOLATION property={self.pid} replay={rp} no-failing-input-found')
                reported += 1
                exit_code = 1
        wall = time.time() - self.t0
        # an obligation that failed ONLY because of a listed known finding (the violation that explains it was matched above) is not an
        # obligation of this run: it is reported on the KNOWN-FINDING line and in `known_findings_seen`, and kept out of the counts so that
        # a proof-level record of a quiet run has discharged == obligations
        explained_by_known = set()
        if exit_code == 0 and failed:
            explained = {v.get('replay', {}).get('explains') for v in self.violations if isinstance(v.get('replay'), dict)}
            explained_by_known = {o['name'] for o in failed if o['name'] in explained}
        counted = [o for o in self.obligations if o['name'] not in explained_by_known]
        n_ob = len(counted)
        n_ok = sum(1 for o in counted if o['ok'])
        ev = {
            'property_id': self.pid,
            'tier': self.tier,
            'seed': int(self.seed),
            'level': 'proof',
            'coverage': {
                'obligations': n_ob,
                'discharged': n_ok,
                'checker_cmd': self.coqc_cmd(),
                'trusted_base': self.trusted + ['Axioms reported by Print Assumptions (all from the Coq standard library / installed libraries): '
                                                 + (', '.join(sorted(self.axioms)) or 'none (closed under the global context)')],
                'evaluations': self.evals,
                'distinct_nontrivial': len(self.distinct),
                'rule': ' | '.join(self.rules),
                'samples': self.samples[:12] or ['(no correspondence cases in this run)'],
                'failed_obligations': [o['name'] for o in failed if o['name'] not in explained_by_known],
                'obligations_explained_by_known_findings': sorted(explained_by_known),
                'obligation_kinds': {k: sum(1 for o in counted if o['kind'] == k)
                                     for k in sorted({o['kind'] for o in counted})},
                'known_findings_seen': sorted(seen_known),
                **self.extra,
            },
            'assumptions': self.assumptions,
            'wall_s': round(wall, 2),
            'violations': reported,
        }
        os.makedirs(os.path.join(OUT, 'evidence'), exist_ok=True)
        with open(os.path.join(OUT, 'evidence', f'{self.pid}.json'), 'w') as f:
            json.dump(ev, f, indent=1, default=str)
        for l in out_lines:
            print(l, flush=True)
        self.log(f'obligations {n_ok}/{n_ob}, cases {self.evals} ({len(self.distinct)} distinct non-trivial), '
                 f'violations {reported}, wall {wall:.1f}s')
        return exit_code

    def _unexplained(self, failed):
        """failed obligations not explained by a recorded (known) violation"""
        explained = {v.get('replay', {}).get('explains') for v in self.violations if isinstance(v.get('replay'), dict)}
        return [o for o in failed if o['name'] not in explained]

    def _write_replay(self, v):
        d = os.path.join(OUT, 'replays', self.pid)
        os.makedirs(d, exist_ok=True)
        body = {'property': self.pid, 'key': v['key'], 'what': v['what'], 'found_failing_input': v['found'],
                'seed': self.seed, 'tier': self.tier, 'replay': v['replay']}
        h = hashlib.sha1(json.dumps(body, sort_keys=True, default=str).encode()).hexdigest()[:12]
        p = os.path.join(d, f'{h}.json')
        with open(p, 'w') as f:
            json.dump(body, f, indent=1, default=str)
        return p


def run_snippet(code, timeout=600, env_extra=None):
    """Run a Python snippet against /repo in a fresh interpreter; returns (rc, stdout, stderr)."""
    env = dict(os.environ)
    env['PYTHONPATH'] = REPO + os.pathsep + os.path.join(VERIF, 'tools')
    env['PYTHONHASHSEED'] = '0'
    env.setdefault('SDV_DEV_COPULAS_VERIF', '1')
    if env_extra:
        env.update(env_extra)
    r = subprocess.run([PY, '-W', 'ignore', '-c', code], stdout=subprocess.PIPE, stderr=subprocess.PIPE, text=True,
                       timeout=timeout, env=env, cwd='/')
    return r.returncode, r.stdout, r.stderr


def frac(x):
    """Exact Coq real literal of a Python float."""
    from fractions import Fraction
    f = Fraction(float(x))
    if f.denominator == 1:
        return f'({f.numerator})' if f.numerator >= 0 else f'(-{-f.numerator})'
    s = f'({abs(f.numerator)}/{f.denominator})'
    return s if f >= 0 else f'(-{s})'
