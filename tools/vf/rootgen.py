"""copulas/optimize/__init__.py (`bisect`, `chandrupatla`): strict, fail-closed translators from the Python AST to Coq
definitions over the `arith` record of coq/Model/RootFind.v (used by C18).

The two functions are executed SYMBOLICALLY, statement by statement, per lane of the batch: every assignment becomes a
`let`, every arithmetic / comparison / numpy call is mapped to the corresponding primitive of the arithmetic record with the
operator, the operand order and the constants taken from the source text; boolean-mask gathers/scatters (`x[m] = y[m]`),
`np.choose`, `np.clip`, reductions (`.all()`, `.max()`, `np.all`) and the loop skeletons (`for _ in range(maxiter)` with a
trailing `if ...: break`; `while maxiter > 0: maxiter -= 1; ...; if np.all(...): break; ...`) are recognised by shape.
Everything else raises Unsupported (=> failed translation obligation).

Generated file  Gen_rootfind.v  (all definitions are polymorphic in the arithmetic instance, so the bridge lemmas of
coq/Props/C18.v  `gen_X A ... = X A ...`  hold for the real-number instance RA and for the PrimFloat instance FA):

  bisect        gen_bisect_default_tol  gen_bisect_default_maxiter  gen_binit  gen_bprecond  gen_bguess  gen_bstep  gen_bstop
                gen_bresult  gen_bisect_loop  gen_bisect_lanes  gen_bisect_full_fun  gen_bisect_fun
  chandrupatla  gen_chand_default_maxiter  gen_cinit  gen_cprecond  gen_cphase1  gen_call_term  gen_cphase2_array
                gen_cphase2_scalar  gen_cresult  gen_chand_loop_{array,scalar}  gen_chand_lanes_{array,scalar}
                gen_chandrupatla_full_fun  gen_chandrupatla_fun  gen_chandrupatla_scalar
"""
import ast
from . import srcnorm as _srcnorm
import os
import re

from .core import REPO


class Unsupported(Exception):
    pass


OPATH = os.path.join(REPO, 'copulas', 'optimize', '__init__.py')
IDENT = re.compile(r'^[A-Za-z_][A-Za-z0-9_]*$')

# the only numeric literals the arithmetic record knows
CONSTS = {0: 'zero', 1: 'one', 2: 'two', 0.5: 'half'}


def _u(n):
    return ast.unparse(n)


def _cm(s):
    """text safe inside a Coq comment"""
    return s.replace('(*', '( *').replace('*)', '* )').replace('\n', ' ; ').replace('"', "''")


class V:
    """symbolic value.  kind: 'T' float (lane or broadcast scalar), 'B' bool, 'F' objective function, 'NONE', 'SHAPE',
    'NAT' (the iteration budget).  closed = does not depend on the lane binder.  mask = term of the boolean mask the
    value has been gathered with (x[m]).  fresh = bound to a freshly allocated array nobody else can see."""
    __slots__ = ('kind', 'term', 'mask', 'fresh', 'closed')

    def __init__(self, kind, term, mask=None, fresh=False, closed=False):
        self.kind, self.term, self.mask, self.fresh, self.closed = kind, term, mask, fresh, closed


class Exec:
    """symbolic executor of straight-line lane code"""

    def __init__(self, where, lane, batch, mode=None, dead=(), counters=None):
        self.where, self.lane, self.batch, self.mode = where, lane, batch, mode
        self.env = {}
        self.lets = []            # (coq name, term, python statement)
        self.cnt = counters if counters is not None else {}
        self.order = []           # python names in order of first binding
        self.dead = set(dead)
        self.allow_reduce = False
        self.fcalls = []          # (number of lets at the call, argument term) of every call of the objective
        self.cur = ''

    # ------------------------------------------------------------------ helpers
    def bad(self, msg, node=None):
        raise Unsupported(f'{self.where}: {msg}' + (f': `{_u(node)[:80]}`' if node is not None else ''))

    def prefix(self, upto=None, indent='  '):
        ls = self.lets if upto is None else self.lets[:upto]
        return ''.join(f'{indent}let {n} := {t} in   (* {_cm(c)} *)\n' for n, t, c in ls)

    def inline_prefix(self, upto=None):
        ls = self.lets if upto is None else self.lets[:upto]
        return ''.join(f'let {n} := {t} in ' for n, t, c in ls)

    def bind(self, name, v):
        if not IDENT.match(name):
            self.bad(f'identifier {name!r}')
        if name not in self.order:
            self.order.append(name)
        if v.kind in ('T', 'B') and not v.closed:
            if v.mask is not None:
                # a gathered value stays symbolic (its mask is part of the value)
                self.env[name] = v
                return
            k = self.cnt.get(name, 0) + 1
            self.cnt[name] = k
            cn = f'v_{name}_{k}'
            self.lets.append((cn, v.term, self.cur))
            self.env[name] = V(v.kind, cn, None, v.fresh, False)
        else:
            self.env[name] = v

    def num(self, v, node):
        if v.kind != 'T':
            self.bad(f'float operand expected, got {v.kind}', node)
        return v

    def boolean(self, v, node):
        if v.kind != 'B':
            self.bad(f'boolean operand expected, got {v.kind}', node)
        return v

    def join(self, vs, node):
        """mask / closedness of an elementwise operation"""
        open_ = [v for v in vs if not v.closed]
        masks = {v.mask for v in open_}
        if len(masks) > 1:
            self.bad('operands gathered with different masks (or a gathered and a full array) are combined', node)
        return (masks.pop() if masks else None), not open_

    def op(self, kind, fmt, vs, node):
        mask, closed = self.join(vs, node)
        return V(kind, fmt, mask, True, closed)

    # ------------------------------------------------------------------ expressions
    def e(self, n):
        if isinstance(n, ast.Constant):
            v = n.value
            if v is None:
                return V('NONE', 'None', closed=True)
            if isinstance(v, bool):
                return V('B', 'true' if v else 'false', closed=True)
            if isinstance(v, (int, float)) and v in CONSTS:
                return V('T', f'({CONSTS[v]} A)', closed=True)
            self.bad('constant outside {0, 1, 2, 0.5} (not in the arithmetic record of Model.RootFind)', n)
        if isinstance(n, ast.Name):
            if n.id not in self.env:
                self.bad(f'name `{n.id}` is not bound on this path (or is not carried by the model state)', n)
            return self.env[n.id]
        if isinstance(n, ast.Attribute):
            if _u(n) in ('np.finfo(float).eps', 'np.finfo(np.float64).eps', 'sys.float_info.epsilon'):
                return V('T', '(eps A)', closed=True)
            self.bad('attribute', n)
        if isinstance(n, ast.BinOp):
            if isinstance(n.op, ast.Pow):
                if isinstance(n.right, ast.Constant) and n.right.value == 2 and not isinstance(n.right.value, bool):
                    x = self.num(self.e(n.left), n.left)
                    return self.op('T', f'(mul A {x.term} {x.term})', [x], n)
                self.bad('power other than **2', n)
            if isinstance(n.op, (ast.BitOr, ast.BitAnd)):
                x, y = self.boolean(self.e(n.left), n.left), self.boolean(self.e(n.right), n.right)
                f = 'orb' if isinstance(n.op, ast.BitOr) else 'andb'
                return self.op('B', f'({f} {x.term} {y.term})', [x, y], n)
            ops = {ast.Add: 'add', ast.Sub: 'sub', ast.Mult: 'mul', ast.Div: 'div'}
            if type(n.op) not in ops:
                self.bad('binary operator', n)
            x, y = self.num(self.e(n.left), n.left), self.num(self.e(n.right), n.right)
            return self.op('T', f'({ops[type(n.op)]} A {x.term} {y.term})', [x, y], n)
        if isinstance(n, ast.Compare):
            if len(n.ops) != 1:
                self.bad('chained comparison', n)
            x, y = self.num(self.e(n.left), n.left), self.num(self.e(n.comparators[0]), n.comparators[0])
            o = type(n.ops[0])
            if o is ast.Lt:
                t = f'(ltb A {x.term} {y.term})'
            elif o is ast.LtE:
                t = f'(leb A {x.term} {y.term})'
            elif o is ast.Gt:                                   # x > y  <=>  y < x  (also for nan: both false)
                t = f'(ltb A {y.term} {x.term})'
            elif o is ast.GtE:
                t = f'(leb A {y.term} {x.term})'
            elif o is ast.Eq:
                t = f'(eqb A {x.term} {y.term})'
            else:
                self.bad('comparison operator', n)
            return self.op('B', t, [x, y], n)
        if isinstance(n, ast.Subscript):
            x = self.e(n.value)
            m = self.boolean(self.e(n.slice), n.slice)
            if x.kind not in ('T', 'B') or x.closed or x.mask is not None or m.closed or m.mask is not None:
                self.bad('gather x[mask] needs a full lane array and a full lane mask', n)
            return V(x.kind, x.term, m.term, True, False)
        if isinstance(n, ast.Call):
            return self.call(n)
        self.bad('expression', n)

    def reduce_(self, kind, x, node):
        if not self.allow_reduce:
            self.bad('reduction over the batch outside an assert / break test', node)
        if x.closed or x.mask is not None:
            self.bad('reduction of a scalar or of a gathered array', node)
        lam = f'(fun {self.lane} => {self.inline_prefix()}{x.term})'
        if kind == 'all':
            self.boolean(x, node)
            return V('B', f'(forallb {lam} {self.batch})', closed=True)
        self.num(x, node)
        return V('T', f'(maxl A (map {lam} {self.batch}))', closed=True)

    def call(self, n):
        if n.keywords and _u(n.func) in ('np.array', 'np.asarray_chkfinite') and len(n.keywords) == 1 and n.keywords[0].arg == 'dtype' \
                and _u(n.keywords[0].value) in ('float', 'np.float64'):
            pass        # np.array(x, dtype=float): a private float64 copy (the model's carrier type T is the float type already)
        elif n.keywords and not (_u(n.func) == 'np.zeros'):
            self.bad('keyword arguments', n)
        fn = n.func
        args = n.args
        if any(isinstance(a, ast.Starred) for a in args):
            self.bad('starred argument', n)
        # the objective
        if isinstance(fn, ast.Name) and fn.id in self.env and self.env[fn.id].kind == 'F':
            if len(args) != 1:
                self.bad('objective called with other than one argument', n)
            x = self.num(self.e(args[0]), args[0])
            if x.closed or x.mask is not None:
                self.bad('objective applied to a scalar / gathered array', n)
            self.fcalls.append((len(self.lets), x.term))
            return V('T', f'({self.env[fn.id].term} {x.term})', None, True, False)
        # methods
        if isinstance(fn, ast.Attribute) and not (isinstance(fn.value, ast.Name) and fn.value.id == 'np'):
            if fn.attr in ('all', 'max') and not args:
                return self.reduce_(fn.attr, self.e(fn.value), n)
            self.bad('method call', n)
        name = _u(fn)
        if name == 'abs':
            name = 'np.abs'
        a = args

        def need(k):
            if len(a) != k:
                self.bad(f'{name} with {len(a)} arguments', n)
        if name in ('np.array', 'np.copy'):
            need(1)
            x = self.num(self.e(a[0]), a[0])
            return V('T', x.term, x.mask, True, x.closed)
        if name in ('np.abs', 'np.absolute', 'np.fabs', 'np.sign'):
            need(1)
            x = self.num(self.e(a[0]), a[0])
            return self.op('T', f'({"sign" if name == "np.sign" else "abs"} A {x.term})', [x], n)
        if name in ('np.minimum', 'np.maximum'):
            need(2)
            x, y = self.num(self.e(a[0]), a[0]), self.num(self.e(a[1]), a[1])
            return self.op('T', f'({name[3:]} A {x.term} {y.term})', [x, y], n)
        if name == 'np.clip':
            need(3)
            x, lo, hi = (self.num(self.e(t), t) for t in a)
            return self.op('T', f'(clip A {x.term} {lo.term} {hi.term})', [x, lo, hi], n)
        if name in ('np.logical_or', 'np.logical_and'):
            need(2)
            x, y = self.boolean(self.e(a[0]), a[0]), self.boolean(self.e(a[1]), a[1])
            return self.op('B', f'({"orb" if name.endswith("or") else "andb"} {x.term} {y.term})', [x, y], n)
        if name == 'np.choose':
            need(2)
            m = self.boolean(self.e(a[0]), a[0])
            if not isinstance(a[1], (ast.List, ast.Tuple)) or len(a[1].elts) != 2:
                self.bad('np.choose needs a literal list of two alternatives', n)
            x0, x1 = self.e(a[1].elts[0]), self.e(a[1].elts[1])
            if x0.kind != x1.kind or x0.kind not in ('T', 'B'):
                self.bad('np.choose alternatives', n)
            # index 0 (False) selects the first, index 1 (True) the second alternative
            return self.op(x0.kind, f'(if {m.term} then {x1.term} else {x0.term})', [m, x0, x1], n)
        if name == 'np.all':
            need(1)
            return self.reduce_('all', self.e(a[0]), n)
        if name == 'np.shape':
            need(1)
            x = self.e(a[0])
            if x.kind not in ('T', 'B') or x.closed or x.mask is not None:
                self.bad('np.shape of something that is not a full lane array', n)
            return V('SHAPE', 'shape', closed=True)
        if name == 'np.zeros':
            if len(a) != 1 or len(n.keywords) != 1 or n.keywords[0].arg != 'dtype' or _u(n.keywords[0].value) != 'bool' \
                    or self.e(a[0]).kind != 'SHAPE':
                self.bad('np.zeros other than np.zeros(shape, dtype=bool)', n)
            return V('B', 'false', None, True, True)
        if name == 'np.full':
            need(2)
            if self.e(a[0]).kind != 'SHAPE':
                self.bad('np.full with a shape that is not the batch shape', n)
            c = self.num(self.e(a[1]), a[1])
            if not c.closed:
                self.bad('np.full with a non-scalar fill value', n)
            # a fresh full-size array: one value per lane
            return V('T', c.term, None, True, False)
        self.bad('call', n)

    # ------------------------------------------------------------------ statements
    def static_test(self, t):
        """tests decided at translation time: `x is None`, `not shape` / `shape`.  Returns True/False/None (not static)."""
        if isinstance(t, ast.Compare) and len(t.ops) == 1 and isinstance(t.ops[0], (ast.Is, ast.IsNot)) \
                and isinstance(t.comparators[0], ast.Constant) and t.comparators[0].value is None:
            v = self.e(t.left)
            r = v.kind == 'NONE'
            return r if isinstance(t.ops[0], ast.Is) else not r
        neg = False
        while isinstance(t, ast.UnaryOp) and isinstance(t.op, ast.Not):
            neg, t = not neg, t.operand
        if isinstance(t, ast.Name) and t.id in self.env and self.env[t.id].kind == 'SHAPE':
            if self.mode not in ('scalar', 'array'):
                self.bad('scalar/array case distinction outside the loop body', t)
            nonempty = self.mode == 'array'           # bool(()) is False: the scalar case
            return nonempty != neg
        return None

    def block(self, stmts, on_assert=None):
        for st in stmts:
            self.stmt(st, on_assert)

    def stmt(self, st, on_assert=None):
        self.cur = _u(st).split('\n')[0][:100]
        if isinstance(st, ast.Pass):
            return
        if isinstance(st, ast.Expr) and isinstance(st.value, ast.Constant) and isinstance(st.value.value, str):
            return
        if isinstance(st, ast.Assert):
            if on_assert is None or st.msg is not None:
                self.bad('assert in this position', st)
            on_assert(st)
            return
        if isinstance(st, ast.AugAssign):
            if isinstance(st.target, ast.Name) and st.target.id in self.dead and self.pure(st.value):
                return
            if isinstance(st.target, ast.Name) and isinstance(st.op, (ast.Add, ast.Sub, ast.Mult, ast.Div)):
                tgt = self.env.get(st.target.id)
                if tgt is not None and tgt.kind == 'T' and tgt.fresh and tgt.mask is None:
                    v = self.e(ast.BinOp(left=ast.Name(id=st.target.id, ctx=ast.Load()), op=st.op, right=st.value))
                    self.bind(st.target.id, V('T', v.term, v.mask, True, v.closed))
                    return
            self.bad('augmented assignment', st)
        if isinstance(st, ast.Assign):
            if len(st.targets) != 1:
                self.bad('chained assignment', st)
            tg = st.targets[0]
            if isinstance(tg, ast.Tuple):
                if not isinstance(st.value, ast.Tuple) or len(st.value.elts) != len(tg.elts) \
                        or not all(isinstance(x, ast.Name) for x in tg.elts):
                    self.bad('tuple assignment shape', st)
                vals = [self.e(x) for x in st.value.elts]          # right-hand side first, as Python does
                for x, v in zip(tg.elts, vals):
                    self.assign_name(x.id, v, st)
                return
            if isinstance(tg, ast.Name):
                if tg.id in self.dead and self.pure(st.value):
                    return
                if isinstance(st.value, ast.Name) and st.value.id in self.env and self.env[st.value.id].kind in ('T', 'B') \
                        and not self.env[st.value.id].closed:
                    # alias: neither name owns the array any more
                    src = self.env[st.value.id]
                    self.env[st.value.id] = V(src.kind, src.term, src.mask, False, src.closed)
                    self.assign_name(tg.id, V(src.kind, src.term, src.mask, False, src.closed), st)
                    return
                self.assign_name(tg.id, self.e(st.value), st)
                return
            if isinstance(tg, ast.Subscript) and isinstance(tg.value, ast.Name):
                # boolean-mask scatter  x[m] = y[m]  /  x[m] = <expression of arrays gathered with m>
                nm = tg.value.id
                if nm not in self.env:
                    self.bad(f'store into unbound `{nm}`', st)
                old = self.env[nm]
                if old.kind != 'T' or old.closed or old.mask is not None:
                    self.bad('masked store into something that is not a full lane array', st)
                if not old.fresh:
                    self.bad(f'in-place masked store into `{nm}`, which may alias an argument of the caller or another '
                             f'local (the model treats it as a private copy)', st)
                m = self.boolean(self.e(tg.slice), tg.slice)
                if m.closed or m.mask is not None:
                    self.bad('mask of the store', st)
                v = self.num(self.e(st.value), st.value)
                if not v.closed and v.mask != m.term:
                    self.bad('masked store whose right-hand side is not gathered with the same mask', st)
                self.bind(nm, V('T', f'(if {m.term} then {v.term} else {old.term})', None, True, False))
                return
            self.bad('assignment target', st)
        if isinstance(st, ast.If):
            s = self.static_test(st.test)
            if s is not None:
                self.block(st.body if s else st.orelse, on_assert)
                return
            if self.mode != 'scalar':
                self.bad('data-dependent `if` outside the scalar branch', st)
            c = self.boolean(self.e(st.test), st.test)
            if c.mask is not None:
                self.bad('condition', st)
            env0 = dict(self.env)
            self.block(st.body)
            env1 = self.env
            self.env = dict(env0)
            self.block(st.orelse)
            env2 = self.env
            self.env = dict(env0)
            self.cur = f'merge of `if {_u(st.test)[:60]}`'
            for nm in list(dict.fromkeys(list(env1) + list(env2))):
                v1, v2 = env1.get(nm), env2.get(nm)
                if v1 is v2:
                    continue
                if v1 is None or v2 is None:
                    self.env.pop(nm, None)                        # bound on one path only
                    continue
                if v1.kind != v2.kind or v1.kind not in ('T', 'B') or v1.mask is not None or v2.mask is not None:
                    self.bad(f'`{nm}` has different kinds on the two paths', st)
                self.bind(nm, V(v1.kind, f'(if {c.term} then {v1.term} else {v2.term})', None, False, False))
            return
        self.bad('statement', st)

    def assign_name(self, name, v, st):
        if v.kind in ('F',):
            self.bad('rebinding of the objective', st)
        self.bind(name, v)

    @staticmethod
    def pure(n):
        return all(isinstance(x, (ast.Name, ast.Constant, ast.BinOp, ast.UnaryOp, ast.operator, ast.unaryop, ast.Load))
                   for x in ast.walk(n))


# ----------------------------------------------------------------------------------------------------
# source access
def load():
    mod = _srcnorm.parse_file(OPATH)
    funcs = {}
    np_ok = False
    for n in mod.body:
        if isinstance(n, ast.Expr) and isinstance(n.value, ast.Constant) and isinstance(n.value.value, str):
            continue
        if isinstance(n, ast.Import):
            for a in n.names:
                if a.name == 'numpy' and a.asname == 'np':
                    np_ok = True
                elif (a.asname or a.name) == 'np':
                    raise Unsupported('`np` is not numpy')
            continue
        if isinstance(n, ast.ImportFrom):
            if any((a.asname or a.name) in ('np', 'abs', 'range', 'bisect', 'chandrupatla') for a in n.names):
                raise Unsupported('import rebinding a name the translation relies on')
            continue
        if isinstance(n, ast.FunctionDef):
            if n.name in funcs:
                raise Unsupported(f'{n.name} defined twice')
            if n.name in ('abs', 'range', 'np'):
                raise Unsupported(f'module-level function shadows `{n.name}`')
            funcs[n.name] = n
            continue
        raise Unsupported('module-level statement other than import / def: ' + _u(n)[:60])
    if not np_ok:
        raise Unsupported('the module does not `import numpy as np`')
    return funcs


def _body(f):
    return [s for s in f.body if not (isinstance(s, ast.Expr) and isinstance(s.value, ast.Constant)
                                      and isinstance(s.value.value, str))]


def _signature(f, n):
    a = f.args
    if f.decorator_list or a.vararg or a.kwarg or a.kwonlyargs or a.posonlyargs or len(a.args) != n:
        raise Unsupported(f'{f.name}: signature')
    names = [x.arg for x in a.args]
    for x in names:
        if not IDENT.match(x):
            raise Unsupported(f'{f.name}: parameter name')
    return names, a.defaults


def _names(nodes, ctx):
    out = []
    for st in nodes:
        for x in ast.walk(st):
            if isinstance(x, ast.Name) and isinstance(x.ctx, ctx):
                out.append(x.id)
    return out


def _stored(nodes):
    """names assigned (also through x[m] = ..., x += ...) anywhere below the statements"""
    out = set()
    for st in nodes:
        for x in ast.walk(st):
            if isinstance(x, ast.Name) and isinstance(x.ctx, ast.Store):
                out.add(x.id)
            if isinstance(x, (ast.Assign, ast.AugAssign)):
                for t in (x.targets if isinstance(x, ast.Assign) else [x.target]):
                    if isinstance(t, ast.Subscript) and isinstance(t.value, ast.Name):
                        out.add(t.value.id)
    return out


def _no_jumps(stmts, where, allow_last_break=False):
    body = stmts[:-1] if allow_last_break else stmts
    for st in body:
        for x in ast.walk(st):
            if isinstance(x, (ast.Break, ast.Continue, ast.Return, ast.For, ast.While, ast.Try, ast.With, ast.Raise,
                              ast.FunctionDef, ast.Lambda, ast.Global, ast.Nonlocal, ast.Delete, ast.Yield, ast.Await,
                              ast.NamedExpr)):
                raise Unsupported(f'{where}: control flow / construct `{type(x).__name__}` in straight-line code')


def _break_if(st, where):
    if not (isinstance(st, ast.If) and all(isinstance(x, ast.Pass) for x in st.orelse) and len(st.body) == 1
            and isinstance(st.body[0], ast.Break)):
        raise Unsupported(f'{where}: expected `if <test>: break`, got `{_u(st)[:60]}`')
    return st.test


def _closed_bool(x, test, node):
    x.allow_reduce = True
    try:
        v = x.e(test)
    finally:
        x.allow_reduce = False
    if v.kind != 'B' or not v.closed:
        x.bad('test is not a reduction over the whole batch', node)
    return v.term


def _split(body, loop_type, where):
    idx = [i for i, s in enumerate(body) if isinstance(s, (ast.For, ast.While))]
    if len(idx) != 1 or not isinstance(body[idx[0]], loop_type):
        raise Unsupported(f'{where}: expected exactly one top-level {loop_type.__name__} loop')
    i = idx[0]
    pre, loop, post = body[:i], body[i], body[i + 1:]
    if loop.orelse:
        raise Unsupported(f'{where}: loop with an else clause')
    if len(post) != 1 or not isinstance(post[0], ast.Return) or post[0].value is None:
        raise Unsupported(f'{where}: the loop must be followed by a single `return <expr>`')
    _no_jumps(pre, where)
    return pre, loop, post[0]


# ----------------------------------------------------------------------------------------------------
# bisect
def translate_bisect(f):
    W = 'bisect'
    (pf, pmin, pmax, ptol, pmaxit), defaults = _signature(f, 5)
    if len(defaults) != 2 or not all(isinstance(d, ast.Constant) for d in defaults):
        raise Unsupported('bisect: defaults of tol / maxiter')
    dtol, dmax = defaults[0].value, defaults[1].value
    if not isinstance(dtol, float) or not (0 < dtol < 1) or not isinstance(dmax, int) or isinstance(dmax, bool) or dmax < 0:
        raise Unsupported('bisect: default tol must be a float literal in (0,1), default maxiter a natural number')
    body = _body(f)
    pre, loop, ret = _split(body, ast.For, W)
    loads = _names(body, ast.Load)
    dead = {n for n in _stored(body) if n not in loads}

    def lanes_env(x, fresh=None):
        fresh = fresh or {}
        x.env = {pf: V('F', '(bf l)', closed=False),
                 pmin: V('T', '(blo l)', None, fresh.get(pmin, False)),
                 pmax: V('T', '(bhi l)', None, fresh.get(pmax, False)),
                 ptol: V('T', 'tol', closed=True),
                 pmaxit: V('NAT', 'maxiter', closed=True)}
    cnt = {}
    # --- before the loop: copies and asserts
    x = Exec(W + ' (before the loop)', 'l', 'ls', dead=dead, counters=cnt)
    lanes_env(x)
    pre_terms = []
    x.block(pre, on_assert=lambda st: pre_terms.append(_closed_bool(x, st.test, st)))
    for p in (pf, pmin, pmax, ptol, pmaxit):
        if p not in x.env:
            raise Unsupported(f'bisect: parameter {p} unbound at the loop')
    if x.env[pf].kind != 'F' or x.env[ptol].term != 'tol' or x.env[pmaxit].term != 'maxiter':
        raise Unsupported('bisect: f / tol / maxiter are rebound before the loop')
    binit = (x.prefix() + f'  {{| bf := {x.env[pf].term}; blo := {x.num(x.env[pmin], None).term}; '
             f'bhi := {x.num(x.env[pmax], None).term} |}}')
    fresh = {pmin: x.env[pmin].fresh, pmax: x.env[pmax].fresh}
    carried = {n: v for n, v in x.env.items() if n not in (pf, pmin, pmax, ptol, pmaxit) and v.closed}
    precond = ' && '.join(pre_terms) if pre_terms else 'true'
    # --- the loop header
    if not (isinstance(loop.target, ast.Name) and isinstance(loop.iter, ast.Call) and _u(loop.iter) == f'range({pmaxit})'):
        raise Unsupported(f'bisect: loop header is not `for _ in range({pmaxit})`: `for {_u(loop.target)} in {_u(loop.iter)[:40]}`')
    if loop.target.id in _names(loop.body, ast.Load) or loop.target.id in (pf, pmin, pmax, ptol, pmaxit):
        raise Unsupported('bisect: the loop variable is used')
    if pmaxit in _stored(loop.body) or ptol in _stored(loop.body) or pf in _stored(loop.body):
        raise Unsupported('bisect: maxiter / tol / f assigned in the loop body')
    if len(loop.body) < 2:
        raise Unsupported('bisect: loop body')
    test = _break_if(loop.body[-1], W)
    _no_jumps(loop.body, W, allow_last_break=True)
    # statements at the end of the body that only prepare the stop test (e.g. `width = xmax - xmin`) are evaluated with
    # it, on the updated lanes: a suffix of plain assignments to names read nowhere else
    steps = list(loop.body[:-1])
    test_prep = []
    while steps:
        st = steps[-1]
        if not (isinstance(st, ast.Assign) and len(st.targets) == 1 and isinstance(st.targets[0], ast.Name)):
            break
        nm = st.targets[0].id
        if nm in (pf, pmin, pmax, ptol, pmaxit) or nm in _names(steps[:-1], ast.Load) or nm in _names([ret], ast.Load) \
                or nm in _stored(steps[:-1]) or nm not in _names(test_prep + [loop.body[-1]], ast.Load):
            break
        test_prep.insert(0, steps.pop())
    # --- one loop body on one lane
    y = Exec(W + ' (loop body)', 'l', 'ls', dead=dead, counters=cnt)
    lanes_env(y, fresh)
    y.env.update(carried)
    y.block(steps)
    if len(y.fcalls) != 1:
        raise Unsupported(f'bisect: the loop body evaluates the objective {len(y.fcalls)} times (expected once)')
    bguess = y.prefix(y.fcalls[0][0]) + f'  {y.fcalls[0][1]}'
    bstep = (y.prefix() + f'  {{| bf := {y.env[pf].term}; blo := {y.num(y.env[pmin], None).term}; '
             f'bhi := {y.num(y.env[pmax], None).term} |}}')
    # --- the stop test, on the updated lanes
    z = Exec(W + ' (stop test)', 'l', 'ls', dead=dead, counters=cnt)
    lanes_env(z)
    z.env.update(carried)
    z.block(test_prep)
    bstop = _closed_bool(z, test, loop.body[-1])
    # --- the result
    r = Exec(W + ' (return)', 'l', 'ls', dead=dead, counters=cnt)
    lanes_env(r)
    r.env.update(carried)
    rv = r.num(r.e(ret.value), ret.value)
    if rv.closed or rv.mask is not None:
        raise Unsupported('bisect: the returned value is not a full lane array')
    text = f'''(* ---------------------------------------------------------------------------------------------- *)
(* bisect({pf}, {pmin}, {pmax}, {ptol}={dtol!r}, {pmaxit}={dmax})                                               *)
Definition gen_bisect_default_tol : float := ({float(dtol).hex()})%float.
Definition gen_bisect_default_maxiter : nat := {dmax}.

(* the lanes as they enter the loop (copies of the arguments) *)
Definition gen_binit {{T : Type}} (A : arith T) (l : blane T) : blane T :=
{binit}.

(* the asserts, in source order *)
Definition gen_bprecond {{T : Type}} (A : arith T) (ls : list (blane T)) : bool :=
  {precond}.

(* the point at which the objective is evaluated in the loop body *)
Definition gen_bguess {{T : Type}} (A : arith T) (l : blane T) : T :=
{bguess}.

(* one loop body on one lane *)
Definition gen_bstep {{T : Type}} (A : arith T) (l : blane T) : blane T :=
{bstep}.

(* `if {_cm(_u(test))}: break`, evaluated on the updated lanes *)
Definition gen_bstop {{T : Type}} (A : arith T) (tol : T) (ls : list (blane T)) : bool :=
  {bstop}.

(* `{_cm(_u(ret))}` *)
Definition gen_bresult {{T : Type}} (A : arith T) (l : blane T) : T :=
  {rv.term}.

(* `for {loop.target.id} in range({pmaxit})`: body, then the stop test *)
Fixpoint gen_bisect_loop {{T : Type}} (A : arith T) (fuel : nat) (tol : T) (ls : list (blane T)) (k : nat)
  : list (blane T) * nat :=
  match fuel with
  | O => (ls, k)
  | S n =>
      let ls' := map (gen_bstep A) ls in
      if gen_bstop A tol ls' then (ls', S k) else gen_bisect_loop A n tol ls' (S k)
  end.

(* None = AssertionError (or ValueError of `.max()` on an empty batch when the loop body runs at all) *)
Definition gen_bisect_lanes {{T : Type}} (A : arith T) (maxiter : nat) (tol : T) (ls : list (blane T))
  : option (list (blane T) * nat) :=
  if gen_bprecond A ls then
    match ls, maxiter with
    | [], S _ => None
    | _, _ => Some (gen_bisect_loop A maxiter tol (map (gen_binit A) ls) 0)
    end
  else None.

Definition gen_bisect_full_fun {{T : Type}} (A : arith T) (maxiter : nat) (tol : T)
  (fs : list (T -> T)) (xmin xmax : list T) : option (list (blane T) * nat) :=
  match bzip fs xmin xmax with
  | None => None
  | Some ls => gen_bisect_lanes A maxiter tol ls
  end.

Definition gen_bisect_fun {{T : Type}} (A : arith T) (maxiter : nat) (tol : T)
  (fs : list (T -> T)) (xmin xmax : list T) : option (list T) :=
  match gen_bisect_full_fun A maxiter tol fs xmin xmax with
  | None => None
  | Some r => Some (map (gen_bresult A) (fst r))
  end.
'''
    defs = ['gen_bisect_default_tol', 'gen_bisect_default_maxiter', 'gen_binit', 'gen_bprecond', 'gen_bguess', 'gen_bstep',
            'gen_bstop', 'gen_bresult', 'gen_bisect_loop', 'gen_bisect_lanes', 'gen_bisect_full_fun', 'gen_bisect_fun']
    facts = {'signature': [pf, pmin, pmax, ptol, pmaxit], 'default_tol': dtol, 'default_maxiter': dmax,
             'asserts': len(pre_terms), 'private_copies': [n for n in (pmin, pmax) if fresh[n]],
             'dead_names': sorted(dead)}
    return text, defs, facts


# ----------------------------------------------------------------------------------------------------
# chandrupatla
STATE = ['a', 'b', 'c', 'fa', 'fb', 'fc', 't', 'terminate']
FIELD = {'a': 'ca', 'b': 'cb', 'c': 'cc', 'fa': 'cfa', 'fb': 'cfb', 'fc': 'cfc', 't': 'ct', 'terminate': 'cterm'}
MID = {'xm': 'mxm', 'fm': 'mfm', 'tlim': 'mtlim'}


def translate_chandrupatla(f):
    W = 'chandrupatla'
    (pf, pmin, pmax, pem, pea, pmaxit), defaults = _signature(f, 6)
    if len(defaults) != 3 or not all(isinstance(d, ast.Constant) for d in defaults):
        raise Unsupported('chandrupatla: defaults')
    if defaults[0].value is not None or defaults[1].value is not None:
        raise Unsupported('chandrupatla: the model covers the default eps_m=None, eps_a=None only')
    dmax = defaults[2].value
    if not isinstance(dmax, int) or isinstance(dmax, bool) or dmax < 0:
        raise Unsupported('chandrupatla: default maxiter')
    params = (pf, pmin, pmax, pem, pea, pmaxit)
    body = _body(f)
    pre, loop, ret = _split(body, ast.While, W)
    loads = _names(body, ast.Load)
    dead = {n for n in _stored(body) if n not in loads}
    cnt = {}

    # --- initialisation, per lane
    x = Exec(W + ' (initialisation)', 'l', 'ls', dead=dead, counters=cnt)
    x.env = {pf: V('F', '(bf l)'), pmin: V('T', '(blo l)'), pmax: V('T', '(bhi l)'),
             pem: V('NONE', 'None', closed=True), pea: V('NONE', 'None', closed=True), pmaxit: V('NAT', 'maxiter', closed=True)}
    asserts = []      # (statement, snapshot of the environment)
    shape_asserts = []

    def is_shape(n):
        return (isinstance(n, ast.Call) and _u(n.func) == 'np.shape') or \
            (isinstance(n, ast.Name) and n.id in x.env and x.env[n.id].kind == 'SHAPE')

    def on_assert(st):
        t = st.test
        if isinstance(t, ast.Compare) and len(t.ops) == 1 and isinstance(t.ops[0], ast.Eq) \
                and is_shape(t.left) and is_shape(t.comparators[0]):
            if x.e(t.left).kind == 'SHAPE' and x.e(t.comparators[0]).kind == 'SHAPE':
                shape_asserts.append(_u(st))                # all lane arrays have the batch shape: the zip of the model
                return
        asserts.append((st, dict(x.env)))
    x.block(pre, on_assert)
    if x.env.get(pf) is None or x.env[pf].kind != 'F' or x.env[pmaxit].term != 'maxiter':
        raise Unsupported('chandrupatla: f / maxiter rebound before the loop')

    # --- the loop header:  while maxiter > 0:  maxiter -= 1
    h = loop.test
    ok = isinstance(h, ast.Compare) and len(h.ops) == 1 and (
        (isinstance(h.ops[0], ast.Gt) and _u(h.left) == pmaxit and _u(h.comparators[0]) == '0') or
        (isinstance(h.ops[0], ast.Lt) and _u(h.left) == '0' and _u(h.comparators[0]) == pmaxit))
    if not ok:
        raise Unsupported(f'chandrupatla: loop header is not `while {pmaxit} > 0`: `while {_u(h)[:40]}`')
    lb = loop.body
    if not lb or _u(lb[0]) not in (f'{pmaxit} -= 1', f'{pmaxit} = {pmaxit} - 1'):
        raise Unsupported(f'chandrupatla: the loop body does not start with `{pmaxit} -= 1`')
    lb = lb[1:]
    if pmaxit in _names(lb, ast.Load) or pmaxit in _stored(lb):
        raise Unsupported('chandrupatla: the iteration budget is used in the loop body')
    bi = [i for i, s in enumerate(lb) if any(isinstance(y, ast.Break) for y in ast.walk(s))]
    if len(bi) != 1:
        raise Unsupported('chandrupatla: expected exactly one `if np.all(...): break` at the top level of the loop body')
    p1, brk, p2 = lb[:bi[0]], lb[bi[0]], lb[bi[0] + 1:]
    test = _break_if(brk, W)
    _no_jumps(p1, W)
    _no_jumps(p2, W)
    if any(p in _stored(lb) for p in (pf, pmin, pmax)):
        raise Unsupported('chandrupatla: f / xmin / xmax assigned in the loop body')
    if not isinstance(ret.value, ast.Name):
        raise Unsupported('chandrupatla: `return <name>` expected')

    # --- which Python names play the role of the model's state components
    stored_body = _stored(lb)
    if all(n in x.env and n in stored_body for n in STATE):
        role = {n: n for n in STATE}
    else:
        cand = [n for n in x.order if n in stored_body and n in loads and n not in params]
        if len(cand) != 9:
            raise Unsupported('chandrupatla: cannot identify the loop-carried variables (expected a b fa fb fc c t iqi '
                              f'terminate in this order of first binding), found {cand}')
        role = dict(zip(['a', 'b', 'fa', 'fb', 'fc', 'c', 't', 'iqi', 'terminate'], cand))
        role.pop('iqi')
    for r_, n in role.items():
        v = x.env[n]
        if v.kind != ('B' if r_ == 'terminate' else 'T') or v.mask is not None:
            raise Unsupported(f'chandrupatla: `{n}` (role {r_}) has the wrong kind before the loop')
    state_names = set(role.values())
    cinit = (x.prefix() + '  {| cf := %s; cmin := %s; cmax := %s;\n     ' % (x.env[pf].term, x.env[pmin].term, x.env[pmax].term)
             + '; '.join(f'{FIELD[r_]} := {x.env[role[r_]].term}' for r_ in STATE) + ' |}')
    carried = {n: v for n, v in x.env.items() if n not in (pf, pmin, pmax, pmaxit) and n not in state_names and v.closed
               and n not in stored_body}

    def state_env(e, rec):
        e.env = {pf: V('F', f'(cf {rec})'), pmin: V('T', f'(cmin {rec})'), pmax: V('T', f'(cmax {rec})')}
        for r_ in STATE:
            e.env[role[r_]] = V('B' if r_ == 'terminate' else 'T', f'({FIELD[r_]} {rec})')
        e.env.update(carried)

    # --- the bracketing assert, restated on the initial state
    pre_terms = []
    for st, snap in asserts:
        used = set(_names([st.test], ast.Load))
        for n in used:
            if n in ('np', 'abs'):
                continue
            if n in state_names or n in (pf, pmin, pmax):
                if snap.get(n) is not x.env.get(n):
                    raise Unsupported(f'chandrupatla: `{n}` is rebound between `{_u(st)[:50]}` and the loop')
            elif not (n in carried and snap.get(n) is x.env.get(n)):
                raise Unsupported(f'chandrupatla: assert reads `{n}`, which is not part of the initial state')
        a = Exec(W + ' (assert)', 's', 'ls', dead=dead, counters=cnt)
        state_env(a, 's')
        pre_terms.append(_closed_bool(a, st.test, st))
    precond = ' && '.join(pre_terms) if pre_terms else 'true'

    # --- loop body, in the scalar and in the array reading of `if not shape`
    out = {}
    for mode in ('array', 'scalar'):
        q = Exec(f'{W} (loop body up to the break, {mode} case)', 's', 'ls', mode=mode, dead=dead, counters=dict(cnt))
        state_env(q, 's')
        q.block(p1)
        # roles of the values handed over the break
        p1_names = [n for n in q.order if n not in state_names]
        if all(n in q.env and n not in state_names for n in MID):
            mid = {n: n for n in MID}
        else:
            tl = [n for n in p1_names if n in q.env and q.env[n].kind == 'T' and not q.env[n].closed]
            live2 = [n for n in tl if n in _names(p2, ast.Load)]
            xm_ = ret.value.id
            if xm_ not in tl or tl.index(xm_) + 1 >= len(tl) or len(live2) != 1:
                raise Unsupported('chandrupatla: cannot identify xm / fm / tlim in the loop body')
            mid = {'xm': xm_, 'fm': tl[tl.index(xm_) + 1], 'tlim': live2[0]}
        if len(set(mid.values())) != 3:
            raise Unsupported('chandrupatla: xm / fm / tlim are not three distinct names')
        for r_, n in mid.items():
            if q.env[n].kind != 'T' or q.env[n].mask is not None:
                raise Unsupported(f'chandrupatla: `{n}` (role {r_}) is not a lane value at the break')
        if len(q.fcalls) != 1:
            raise Unsupported(f'chandrupatla: the loop body evaluates the objective {len(q.fcalls)} times before the break')
        for r_ in STATE:
            v = q.env.get(role[r_])
            if v is None or v.kind != ('B' if r_ == 'terminate' else 'T') or v.mask is not None:
                raise Unsupported(f'chandrupatla: `{role[r_]}` is not a lane value at the break')
        phase1 = (q.prefix() + '  {| mst := {| cf := %s; cmin := %s; cmax := %s;\n              ' % (q.env[pf].term, q.env[pmin].term, q.env[pmax].term)
                  + '; '.join(f'{FIELD[r_]} := {q.env[role[r_]].term}' for r_ in STATE) + ' |};\n     '
                  + '; '.join(f'{MID[r_]} := {q.env[mid[r_]].term}' for r_ in MID) + ' |}')

        def mid_env(e):
            state_env(e, '(mst m)')
            for r_, n in mid.items():
                e.env[n] = V('T', f'({MID[r_]} m)')
            # closed values bound before the break stay visible (they do not depend on the lane)
            for n, v in q.env.items():
                if n not in e.env and v.closed and v.kind in ('T', 'B', 'SHAPE', 'NONE'):
                    e.env[n] = v
        # the break test
        b = Exec(f'{W} (break test)', 'm', 'ms', mode=mode, dead=dead, counters=dict(q.cnt))
        mid_env(b)
        cterm_all = _closed_bool(b, test, brk)
        # after the break
        w = Exec(f'{W} (loop body after the break, {mode} case)', 'm', 'ms', mode=mode, dead=dead, counters=dict(q.cnt))
        mid_env(w)
        w.block(p2)
        for r_ in STATE:
            v = w.env.get(role[r_])
            if v is None or v.kind != ('B' if r_ == 'terminate' else 'T') or v.mask is not None:
                raise Unsupported(f'chandrupatla: `{role[r_]}` is not a lane value at the end of the loop body ({mode} case)')
        phase2 = (w.prefix() + '  {| cf := %s; cmin := %s; cmax := %s;\n     ' % (w.env[pf].term, w.env[pmin].term, w.env[pmax].term)
                  + '; '.join(f'{FIELD[r_]} := {w.env[role[r_]].term}' for r_ in STATE) + ' |}')
        # the result
        rr = Exec(f'{W} (return)', 'm', 'ms', mode=mode, dead=dead, counters=dict(q.cnt))
        mid_env(rr)
        rv = rr.num(rr.e(ret.value), ret.value)
        if rv.closed or rv.mask is not None:
            raise Unsupported('chandrupatla: the returned value is not a full lane array')
        out[mode] = dict(phase1=phase1, phase2=phase2, call_term=cterm_all, result=rv.term, mid=mid)
    for k in ('phase1', 'call_term', 'result'):
        if out['array'][k] != out['scalar'][k]:
            raise Unsupported(f'chandrupatla: the scalar and the array case differ outside the computation of t ({k})')
    o = out['array']

    def loop_text(mode):
        return f'''Fixpoint gen_chand_loop_{mode} {{T : Type}} (A : arith T) (fuel : nat) (ls : list (cstate T)) (prev : list (cmid T)) (k : nat)
  : list (cmid T) * nat :=
  match fuel with
  | O => (prev, k)
  | S n =>
      let ms := map (gen_cphase1 A) ls in
      if gen_call_term A ms then (ms, S k)
      else gen_chand_loop_{mode} A n (map (gen_cphase2_{mode} A) ms) ms (S k)
  end.

(* None = AssertionError, or maxiter = 0 (UnboundLocalError: the returned name is never bound) *)
Definition gen_chand_lanes_{mode} {{T : Type}} (A : arith T) (maxiter : nat) (ls : list (cstate T))
  : option (list (cmid T) * nat) :=
  if gen_cprecond A ls then
    match maxiter with
    | O => None
    | S _ => Some (gen_chand_loop_{mode} A maxiter ls [] 0)
    end
  else None.
'''
    text = f'''(* ---------------------------------------------------------------------------------------------- *)
(* chandrupatla({pf}, {pmin}, {pmax}, {pem}=None, {pea}=None, {pmaxit}={dmax})                                  *)
(* state components: {', '.join(f'{r_} = `{n}`' for r_, n in role.items())}; handed over the break: {', '.join(f'{r_} = `{n}`' for r_, n in o['mid'].items())} *)
Definition gen_chand_default_maxiter : nat := {dmax}.

(* the statements before the loop, per lane *)
Definition gen_cinit {{T : Type}} (A : arith T) (l : blane T) : cstate T :=
{cinit}.

(* the bracketing assert, on the initial state *)
Definition gen_cprecond {{T : Type}} (A : arith T) (ls : list (cstate T)) : bool :=
  {precond}.

(* loop body from `{pmaxit} -= 1` to the break test *)
Definition gen_cphase1 {{T : Type}} (A : arith T) (s : cstate T) : cmid T :=
{o['phase1']}.

(* `if {_cm(_u(test))}: break` *)
Definition gen_call_term {{T : Type}} (A : arith T) (ms : list (cmid T)) : bool :=
  {o['call_term']}.

(* loop body after the break test, array case (`else` of `if not shape`) *)
Definition gen_cphase2_array {{T : Type}} (A : arith T) (m : cmid T) : cstate T :=
{out['array']['phase2']}.

(* loop body after the break test, scalar case *)
Definition gen_cphase2_scalar {{T : Type}} (A : arith T) (m : cmid T) : cstate T :=
{out['scalar']['phase2']}.

(* `{_cm(_u(ret))}` *)
Definition gen_cresult {{T : Type}} (A : arith T) (m : cmid T) : T :=
  {o['result']}.

(* `while {pmaxit} > 0: {pmaxit} -= 1; <phase 1>; if ...: break; <phase 2>`; when the budget runs out the name returned is
   the one bound in the last executed body *)
{loop_text('array')}
{loop_text('scalar')}
Definition gen_chandrupatla_full_fun {{T : Type}} (A : arith T) (maxiter : nat)
  (fs : list (T -> T)) (xmin xmax : list T) : option (list (cmid T) * nat) :=
  match bzip fs xmin xmax with
  | None => None
  | Some ls => gen_chand_lanes_array A maxiter (map (gen_cinit A) ls)
  end.

Definition gen_chandrupatla_fun {{T : Type}} (A : arith T) (maxiter : nat)
  (fs : list (T -> T)) (xmin xmax : list T) : option (list T) :=
  match gen_chandrupatla_full_fun A maxiter fs xmin xmax with
  | None => None
  | Some r => Some (map (gen_cresult A) (fst r))
  end.

(* the scalar call: one lane, scalar branch of the loop body *)
Definition gen_chandrupatla_scalar {{T : Type}} (A : arith T) (maxiter : nat) (f : T -> T) (lo hi : T) : option (list T) :=
  match gen_chand_lanes_scalar A maxiter [gen_cinit A (mk_blane f lo hi)] with
  | None => None
  | Some r => Some (map (gen_cresult A) (fst r))
  end.
'''
    defs = ['gen_chand_default_maxiter', 'gen_cinit', 'gen_cprecond', 'gen_cphase1', 'gen_call_term', 'gen_cphase2_array',
            'gen_cphase2_scalar', 'gen_cresult', 'gen_chand_loop_array', 'gen_chand_lanes_array', 'gen_chand_loop_scalar',
            'gen_chand_lanes_scalar', 'gen_chandrupatla_full_fun', 'gen_chandrupatla_fun', 'gen_chandrupatla_scalar']
    facts = {'signature': list(params), 'default_maxiter': dmax, 'state_roles': role, 'mid_roles': o['mid'],
             'shape_asserts': shape_asserts, 'bracket_asserts': len(pre_terms), 'dead_names': sorted(dead)}
    return text, defs, facts


HEADER = '''(* GENERATED by tools/vf/rootgen.py from copulas/optimize/__init__.py -- regenerated on every run.
   Every definition is the statement-by-statement image of the Python source over the arithmetic record of
   Cop.Model.RootFind; Props/C18.v proves each of them equal to the hand-written model for every instance. *)
From Coq Require Import List Bool PrimFloat.
From Cop Require Import Model.RootFind.
Import ListNotations.
Open Scope bool_scope.

'''

BISECT_DEFS = ['gen_bisect_default_tol', 'gen_bisect_default_maxiter', 'gen_binit', 'gen_bprecond', 'gen_bguess', 'gen_bstep',
               'gen_bstop', 'gen_bresult', 'gen_bisect_loop', 'gen_bisect_lanes', 'gen_bisect_full_fun', 'gen_bisect_fun']
CHAND_DEFS = ['gen_chand_default_maxiter', 'gen_cinit', 'gen_cprecond', 'gen_cphase1', 'gen_call_term', 'gen_cphase2_array',
              'gen_cphase2_scalar', 'gen_cresult', 'gen_chand_loop_array', 'gen_chand_lanes_array', 'gen_chand_loop_scalar',
              'gen_chand_lanes_scalar', 'gen_chandrupatla_full_fun', 'gen_chandrupatla_fun', 'gen_chandrupatla_scalar']


def generate(ctx, rel='Gen_rootfind.v'):
    """Write Gen_rootfind.v.  Returns (status, facts): status maps every generated definition to None (translated) or to
    the reason the translation of its function was refused."""
    status, facts = {}, {}
    out = HEADER
    try:
        funcs = load()
        err = None
    except (Unsupported, OSError, SyntaxError) as ex:
        funcs, err = {}, f'{type(ex).__name__}: {ex}'
    for name, tr, defs in (('bisect', translate_bisect, BISECT_DEFS), ('chandrupatla', translate_chandrupatla, CHAND_DEFS)):
        why = err
        if why is None and name not in funcs:
            why = f'function {name} not found in copulas/optimize/__init__.py'
        if why is None:
            try:
                text, got, fc = tr(funcs[name])
                assert got == defs
                out += text + '\n'
                facts[name] = fc
            except Unsupported as ex:
                why = f'Unsupported: {ex}'
            except Exception as ex:                                   # fail closed on anything unexpected
                why = f'{type(ex).__name__}: {ex}'
        if why is not None:
            out += f'(* {name}: NOT TRANSLATED -- {_cm(why)} *)\n\n'
        for d in defs:
            status[d] = why
    ctx.write(rel, out)
    return status, facts
