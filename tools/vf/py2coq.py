"""py2coq — fail-closed translator from the Python AST of /repo's numeric kernels to Coq.

Fragment E (expressions over reals / lanes of reals).  One public entry point per use:

  translate_kernel(path, cls, meth, lanes, ...)  ->  Coq text with
        <cls>_<meth>        row-level   (theta tau : R) lanes... : R
        <cls>_<meth>_batch  batch-level (theta tau : R) (X : list lane_tuple) : list R

Anything outside the supported fragment raises Unsupported (fail-closed): the caller treats it as
"the tie between model and code is broken" and starts the witness search.

The translator never looks at line numbers, comments or docstrings.
"""
import ast
from . import srcnorm as _srcnorm
from fractions import Fraction


def comment_safe(x):
    """text that can be put inside a Coq comment: no comment delimiters, no double quotes (Coq lexes strings inside comments)"""
    return str(x).replace('(*', '( *').replace('*)', '* )').replace('"', "'").replace('\n', ' ')[:400]


class Unsupported(Exception):
    pass


NP_UNARY = {'exp': 'np_exp', 'log': 'np_log', 'sqrt': 'np_sqrt', 'abs': 'np_abs', 'sign': 'np_sign'}
NP_BINARY = {'power': 'np_power', 'minimum': 'np_minimum', 'maximum': 'np_maximum'}


def num(v):
    """Exact Coq real literal for a Python number."""
    if isinstance(v, bool):
        raise Unsupported('bool constant in numeric position')
    if isinstance(v, int):
        return f'{v}' if v >= 0 else f'(-{-v})'
    if isinstance(v, float):
        if v != v or v in (float('inf'), float('-inf')):
            raise Unsupported('non-finite float literal')
        f = Fraction(v)
        if f.denominator == 1:
            return num(int(f.numerator))
        s = f'({abs(f.numerator)}/{f.denominator})'
        return s if f >= 0 else f'(-{s})'
    raise Unsupported(f'constant {v!r}')


class Scope:
    """Translation scope for one method."""

    def __init__(self, cls_name, lanes, matrix_param, class_methods, module_consts, self_attrs):
        self.cls = cls_name
        self.lanes = lanes                  # python name -> coq lane variable, e.g. {'U':'u','V':'v'}
        self.matrix_param = matrix_param    # name of the (n,2) parameter (e.g. 'X') or None
        self.class_methods = class_methods  # name -> (arity kind) for inlined self.m(...) calls
        self.consts = module_consts         # module-level constants -> coq term
        self.self_attrs = self_attrs        # self.<attr> -> coq term
        self.env = {}                       # local python names -> coq variable
        self.counter = 0

    def fresh(self, base):
        self.counter += 1
        return f'{base}_{self.counter}'


class ExprTr:
    def __init__(self, scope):
        self.s = scope

    # ---- numeric expressions (lane level or scalar) ----
    def e(self, n):
        s = self.s
        if isinstance(n, ast.Constant):
            return num(n.value)
        if isinstance(n, ast.Name):
            if n.id in s.env:
                return s.env[n.id]
            if n.id in s.lanes:
                return s.lanes[n.id]
            if n.id in s.consts:
                return s.consts[n.id]
            raise Unsupported(f'name {n.id}')
        if isinstance(n, ast.Attribute):
            if isinstance(n.value, ast.Name) and n.value.id == 'self' and n.attr in s.self_attrs:
                return s.self_attrs[n.attr]
            raise Unsupported('attribute ' + ast.unparse(n))
        if isinstance(n, ast.UnaryOp):
            if isinstance(n.op, ast.USub):
                return f'(- {self.e(n.operand)})'
            if isinstance(n.op, ast.UAdd):
                return self.e(n.operand)
            raise Unsupported('unary ' + ast.unparse(n))
        if isinstance(n, ast.BinOp):
            a, b = self.e(n.left), self.e(n.right)
            op = {ast.Add: '+', ast.Sub: '-', ast.Mult: '*', ast.Div: '/'}.get(type(n.op))
            if op:
                return f'({a} {op} {b})'
            if isinstance(n.op, ast.Pow):
                if isinstance(n.right, ast.Constant) and n.right.value == 2:
                    return f'({a} * {a})'
                return f'(np_power {a} {b})'
            raise Unsupported('binop ' + ast.unparse(n))
        if isinstance(n, ast.IfExp):
            return f'(if {self.b(n.test)} then {self.e(n.body)} else {self.e(n.orelse)})'
        if isinstance(n, ast.Subscript):
            # U[i] inside a comprehension over range(len(U)) -> the lane itself
            if isinstance(n.value, ast.Name) and n.value.id in s.lanes and isinstance(n.slice, ast.Name):
                return s.lanes[n.value.id]
            raise Unsupported('subscript ' + ast.unparse(n))
        if isinstance(n, ast.Call):
            return self.call(n)
        raise Unsupported('expr ' + ast.dump(n)[:100])

    def call(self, n):
        s = self.s
        f = n.func
        if n.keywords:
            raise Unsupported('keyword arguments in ' + ast.unparse(n))
        if isinstance(f, ast.Attribute) and isinstance(f.value, ast.Name) and f.value.id == 'np':
            if f.attr in NP_UNARY and len(n.args) == 1:
                return f'({NP_UNARY[f.attr]} {self.e(n.args[0])})'
            if f.attr in NP_BINARY and len(n.args) == 2:
                return f'({NP_BINARY[f.attr]} {self.e(n.args[0])} {self.e(n.args[1])})'
            if f.attr == 'clip' and len(n.args) == 3:
                return f'(np_clip {self.e(n.args[0])} {self.e(n.args[1])} {self.e(n.args[2])})'
            raise Unsupported('numpy call ' + ast.unparse(n))
        if isinstance(f, ast.Attribute) and isinstance(f.value, ast.Name) and f.value.id == 'self':
            if f.attr in s.class_methods:
                kind = s.class_methods[f.attr]
                params = ' '.join(s.self_attrs[a] for a in ('theta', 'tau') if a in s.self_attrs)
                if kind == 'matrix':
                    if len(n.args) == 1 and isinstance(n.args[0], ast.Name) and n.args[0].id == s.matrix_param:
                        lanes = ' '.join(s.lanes.values())
                        return f'({s.cls.lower()}_{f.attr} {params} {lanes})'
                    raise Unsupported('matrix method called on a derived matrix: ' + ast.unparse(n))
                if kind == 'scalar' and len(n.args) == 1:
                    return f'({s.cls.lower()}_{f.attr} {params} {self.e(n.args[0])})'
            raise Unsupported('self call ' + ast.unparse(n))
        raise Unsupported('call ' + ast.unparse(n))

    # ---- boolean expressions ----
    def b(self, n):
        if isinstance(n, ast.Compare):
            parts = []
            left = n.left
            for op, right in zip(n.ops, n.comparators):
                parts.append(self.cmp(op, left, right))
                left = right
            return parts[0] if len(parts) == 1 else '(' + ' && '.join(parts) + ')'
        if isinstance(n, ast.BoolOp):
            j = ' && ' if isinstance(n.op, ast.And) else ' || '
            return '(' + j.join(self.b(v) for v in n.values) + ')'
        if isinstance(n, ast.UnaryOp) and isinstance(n.op, ast.Not):
            return f'(negb {self.b(n.operand)})'
        if isinstance(n, ast.Constant) and isinstance(n.value, bool):
            return 'true' if n.value else 'false'
        raise Unsupported('bool ' + ast.unparse(n))

    def is_inf(self, n):
        src = ast.unparse(n)
        return src in ('np.inf', "float('inf')", 'np.Inf', 'numpy.inf')

    def cmp(self, op, l, r):
        if self.is_inf(r):
            if isinstance(op, ast.Eq):
                return f'(np_isinf {self.e(l)})'
            raise Unsupported('comparison with inf: ' + ast.unparse(l))
        if self.is_inf(l):
            raise Unsupported('comparison with inf on the left')
        a, b = self.e(l), self.e(r)
        t = type(op)
        if t is ast.Gt:
            return f'(Rltb {b} {a})'
        if t is ast.Lt:
            return f'(Rltb {a} {b})'
        if t is ast.GtE:
            return f'(Rleb {b} {a})'
        if t is ast.LtE:
            return f'(Rleb {a} {b})'
        if t is ast.Eq:
            return f'(Reqb {a} {b})'
        if t is ast.NotEq:
            return f'(negb (Reqb {a} {b}))'
        raise Unsupported('comparison op')


# ---- statement IR ----
class Let:
    def __init__(self, name, expr, rest):
        self.name, self.expr, self.rest = name, expr, rest


class If:
    def __init__(self, cond, then, orelse):
        self.cond, self.then, self.orelse = cond, then, orelse


class BatchIf:
    def __init__(self, bcond, then, orelse):
        self.bcond, self.then, self.orelse = bcond, then, orelse   # bcond: tree of ('all'|'any', lanepred) / ('or'|'and', [..])


class Ret:
    def __init__(self, expr):
        self.expr = expr


class BodyTr:
    def __init__(self, scope, skip_calls=('self.check_fit()',)):
        self.s = scope
        self.x = ExprTr(scope)
        self.skip_calls = skip_calls
        self.guards = []

    def has_batch(self, n):
        return any(isinstance(k, ast.Call) and isinstance(k.func, ast.Attribute) and k.func.attr in ('all', 'any')
                   and not k.args for k in ast.walk(n))

    def bcond(self, n):
        if isinstance(n, ast.BoolOp):
            return ('or' if isinstance(n.op, ast.Or) else 'and', [self.bcond(v) for v in n.values])
        if isinstance(n, ast.Call) and isinstance(n.func, ast.Attribute) and n.func.attr in ('all', 'any') and not n.args:
            return (n.func.attr, self.x.b(n.func.value))
        raise Unsupported('batch condition ' + ast.unparse(n))

    def ret(self, v):
        s = self.s
        if isinstance(v, ast.Call):
            src = ast.unparse(v.func)
            if src == 'np.zeros' and len(v.args) == 1 and self.is_len(v.args[0]):
                return '0'
            if src == 'np.ones' and len(v.args) == 1 and self.is_len(v.args[0]):
                return '1'
            if src == 'np.array' and len(v.args) == 1 and isinstance(v.args[0], ast.Name) and v.args[0].id in s.env:
                return s.env[v.args[0].id]
        return self.x.e(v)

    def is_len(self, n):
        src = ast.unparse(n)
        names = list(self.s.lanes)
        return any(src in (f'len({a})', f'{a}.shape[0]') for a in names)

    def rhs(self, v):
        if isinstance(v, ast.ListComp):
            return self.listcomp(v)
        return self.x.e(v)

    def listcomp(self, n):
        # [ elt for i in range(len(U)) ]   ->  lane expression
        if len(n.generators) != 1:
            raise Unsupported('nested comprehension')
        g = n.generators[0]
        if g.ifs or not isinstance(g.target, ast.Name):
            raise Unsupported('comprehension filter/target')
        it = ast.unparse(g.iter)
        if not any(it == f'range(len({a}))' for a in self.s.lanes):
            raise Unsupported('comprehension iterable ' + it)
        return self.x.e(n.elt)

    def body(self, stmts):
        if not stmts:
            raise Unsupported('function may fall off the end (returns None)')
        st, rest = stmts[0], stmts[1:]
        s = self.s
        if isinstance(st, ast.Expr) and isinstance(st.value, ast.Constant) and isinstance(st.value.value, str):
            return self.body(rest)
        if isinstance(st, ast.Expr) and isinstance(st.value, ast.Call) and ast.unparse(st.value) in self.skip_calls:
            self.guards.append(ast.unparse(st.value))
            return self.body(rest)
        if isinstance(st, ast.Assign) and len(st.targets) == 1:
            t = st.targets[0]
            if isinstance(t, ast.Tuple) and s.matrix_param and ast.unparse(st.value) == f'split_matrix({s.matrix_param})':
                if len(t.elts) != 2 or not all(isinstance(e, ast.Name) for e in t.elts):
                    raise Unsupported('split_matrix target')
                # first component is column 0, second column 1
                s.lanes = {t.elts[0].id: 'u', t.elts[1].id: 'v'}
                return self.body(rest)
            if isinstance(t, ast.Tuple) and isinstance(st.value, ast.Tuple) and len(t.elts) == len(st.value.elts) \
                    and all(isinstance(e, ast.Name) for e in t.elts):
                # a, b = e1, e2  (right-hand sides are evaluated before any binding)
                rhss = [self.rhs(e) for e in st.value.elts]
                names = [s.fresh(e.id) for e in t.elts]
                for e, v in zip(t.elts, names):
                    s.env[e.id] = v
                node = self.body(rest)
                for v, r in reversed(list(zip(names, rhss))):
                    node = Let(v, r, node)
                return node
            if isinstance(t, ast.Name):
                rhs = self.rhs(st.value)
                v = s.fresh(t.id)
                node = Let(v, rhs, None)
                s.env[t.id] = v
                node.rest = self.body(rest)
                return node
            raise Unsupported('assignment target ' + ast.unparse(t))
        if isinstance(st, ast.Return):
            if st.value is None:
                raise Unsupported('bare return')
            return Ret(self.ret(st.value))
        if isinstance(st, ast.If):
            saved = dict(s.env)
            then = self.body(st.body)
            s.env = dict(saved)
            orelse = self.body(st.orelse if st.orelse else rest)
            if st.orelse and rest:
                raise Unsupported('statements after if/else')
            s.env = saved
            if self.has_batch(st.test):
                return BatchIf(self.bcond(st.test), then, orelse)
            return If(self.x.b(st.test), then, orelse)
        raise Unsupported('statement ' + ast.dump(st)[:120])


def pr_row(ir, ind='  '):
    if isinstance(ir, Let):
        return f'let {ir.name} := {ir.expr} in\n{ind}{pr_row(ir.rest, ind)}'
    if isinstance(ir, If):
        return f'if {ir.cond} then ({pr_row(ir.then, ind)}) else ({pr_row(ir.orelse, ind)})'
    if isinstance(ir, BatchIf):
        return pr_row(ir.orelse, ind)
    return ir.expr


def wrap_lets(lets, term):
    for name, expr in reversed(lets):
        term = f'let {name} := {expr} in {term}'
    return term


def pr_bcond(bc, lets, lane_binder):
    k = bc[0]
    if k in ('or', 'and'):
        j = ' || ' if k == 'or' else ' && '
        return '(' + j.join(pr_bcond(c, lets, lane_binder) for c in bc[1]) + ')'
    fn = 'forallb' if k == 'all' else 'existsb'
    return f'({fn} (fun p => {lane_binder}{wrap_lets(lets, bc[1])}) X)'


def pr_batch(ir, lets, lane_binder, ind='  '):
    if isinstance(ir, Let):
        return pr_batch(ir.rest, lets + [(ir.name, ir.expr)], lane_binder, ind)
    if isinstance(ir, If):
        # scalar condition on parameters only
        return (f'if {ir.cond} then ({pr_batch(ir.then, lets, lane_binder, ind)})\n{ind}'
                f'else ({pr_batch(ir.orelse, lets, lane_binder, ind)})')
    if isinstance(ir, BatchIf):
        return (f'if {pr_bcond(ir.bcond, lets, lane_binder)}\n{ind}then ({pr_batch(ir.then, lets, lane_binder, ind)})\n{ind}'
                f'else ({pr_batch(ir.orelse, lets, lane_binder, ind)})')
    return f'map (fun p => {lane_binder}{wrap_lets(lets, ir.expr)}) X'


def find_method(path, cls, meth):
    mod = _srcnorm.parse_file(path)
    for n in mod.body:
        if isinstance(n, ast.ClassDef) and n.name == cls:
            for m in n.body:
                if isinstance(m, ast.FunctionDef) and m.name == meth:
                    return mod, n, m
    raise Unsupported(f'{cls}.{meth} not found in {path}')


def find_function(path, name):
    mod = _srcnorm.parse_file(path)
    for n in mod.body:
        if isinstance(n, ast.FunctionDef) and n.name == name:
            return mod, n
    raise Unsupported(f'{name} not found in {path}')


def translate_kernel(path, cls, meth, class_methods, consts=None, with_tau=False):
    """Translate a Bivariate kernel method.  Returns (coq_text, info)."""
    mod, c, f = find_method(path, cls, meth)
    if f.decorator_list:
        raise Unsupported(f'{cls}.{meth} has decorators: ' + ', '.join(ast.unparse(d) for d in f.decorator_list))
    args = [a.arg for a in f.args.args]
    if args[0] != 'self' or f.args.vararg or f.args.kwarg or f.args.kwonlyargs or f.args.defaults:
        raise Unsupported('signature of ' + meth)
    params = args[1:]
    if params == ['X']:
        lanes, matrix = {}, 'X'
        lane_vars = ['u', 'v']
    else:
        lanes = {p: p.lower() if p.lower() not in ('theta', 'tau') else p + '_' for p in params}
        matrix = None
        lane_vars = list(lanes.values())
    self_attrs = {'theta': 'theta'}
    if with_tau:
        self_attrs['tau'] = 'tau'
    sc = Scope(cls, lanes, matrix, class_methods, consts or {}, self_attrs)
    bt = BodyTr(sc)
    ir = bt.body(f.body)
    pnames = 'theta' + (' tau' if with_tau else '')
    name = f'{cls.lower()}_{meth}'
    lane_sig = ' '.join(lane_vars)
    row = f'Definition {name} ({pnames} : R) ({lane_sig} : R) : R :=\n  {pr_row(ir)}.\n'
    if len(lane_vars) == 1:
        binder, ty = f'let {lane_vars[0]} := p in ', 'list R'
    elif len(lane_vars) == 2:
        binder, ty = f'let {lane_vars[0]} := fst p in let {lane_vars[1]} := snd p in ', 'list (R * R)'
    else:
        raise Unsupported('lane arity')
    batch = (f'Definition {name}_batch ({pnames} : R) (X : {ty}) : list R :=\n  '
             f'{pr_batch(ir, [], binder)}.\n')
    info = {'name': name, 'lanes': lane_vars, 'guards': bt.guards}
    return row + batch, info


def class_attr(path, cls, attr):
    mod = _srcnorm.parse_file(path)
    for n in mod.body:
        if isinstance(n, ast.ClassDef) and n.name == cls:
            for m in n.body:
                if isinstance(m, ast.Assign) and len(m.targets) == 1 and isinstance(m.targets[0], ast.Name) \
                        and m.targets[0].id == attr:
                    return m.value
    raise Unsupported(f'{cls}.{attr} not found')


def rbar(n):
    src = ast.unparse(n)
    if src in ("float('inf')", 'np.inf'):
        return 'p_infty'
    if src in ("-float('inf')", '-np.inf'):
        return 'm_infty'
    if isinstance(n, ast.Constant) or (isinstance(n, ast.UnaryOp) and isinstance(n.operand, ast.Constant)):
        v = ast.literal_eval(n)
        return f'(Finite {num(v)})'
    raise Unsupported('interval bound ' + src)


def translate_theta_domain(path, cls):
    iv = class_attr(path, cls, 'theta_interval')
    inv = class_attr(path, cls, 'invalid_thetas')
    if not isinstance(iv, ast.List) or len(iv.elts) != 2 or not isinstance(inv, ast.List):
        raise Unsupported('theta_interval / invalid_thetas shape')
    lo, hi = rbar(iv.elts[0]), rbar(iv.elts[1])
    invs = '; '.join(num(ast.literal_eval(e)) for e in inv.elts)
    c = cls.lower()
    return (f'Definition {c}_theta_interval : Rbar * Rbar := ({lo}, {hi}).\n'
            f'Definition {c}_invalid_thetas : list R := [{invs}].\n')


HEADER = '''(* GENERATED by tools/vf/py2coq.py from {src} -- do not edit; regenerated on every run *)
From Coq Require Import Reals List Bool.
From Coquelicot Require Import Rbar.
From Cop Require Import Lib.NumpyR.
Import ListNotations.
Open Scope R_scope.
'''


def translate_compute_theta(path, cls):
    """compute_theta: a function of self.tau returning a value, np.inf, or raising."""
    mod, c, f = find_method(path, cls, 'compute_theta')
    sc = Scope(cls, {}, None, {}, {}, {'tau': 'tau'})
    x = ExprTr(sc)

    def body(stmts):
        if not stmts:
            raise Unsupported('compute_theta falls off the end')
        st, rest = stmts[0], stmts[1:]
        if isinstance(st, ast.Expr) and isinstance(st.value, ast.Constant):
            return body(rest)
        if isinstance(st, ast.Return):
            if x.is_inf(st.value):
                return 'ThetaInf'
            return f'ThetaVal {x.e(st.value)}'
        if isinstance(st, ast.Raise):
            if 'ValueError' not in ast.unparse(st):
                raise Unsupported('raise of ' + ast.unparse(st))
            return 'ThetaErr'
        if isinstance(st, ast.If):
            if st.orelse and rest:
                raise Unsupported('statements after if/else')
            return f'if {x.b(st.test)} then ({body(st.body)}) else ({body(st.orelse if st.orelse else rest)})'
        raise Unsupported('statement in compute_theta: ' + ast.dump(st)[:80])

    return f'Definition {cls.lower()}_compute_theta (tau : R) : theta_result :=\n  {body(f.body)}.\n'


class QExprTr(ExprTr):
    """Rational-arithmetic printer (Q) for the small closed-form functions that must be executed by vm_compute."""

    def e(self, n):
        if isinstance(n, ast.Constant):
            v = n.value
            if isinstance(v, bool):
                raise Unsupported('bool')
            f = Fraction(v)
            return f'({f.numerator} # {f.denominator})' if f >= 0 else f'(-({-f.numerator} # {f.denominator}))'
        if isinstance(n, ast.BinOp):
            op = {ast.Add: '+', ast.Sub: '-', ast.Mult: '*', ast.Div: '/'}.get(type(n.op))
            if not op:
                raise Unsupported('Q binop')
            return f'({self.e(n.left)} {op} {self.e(n.right)})'
        if isinstance(n, ast.UnaryOp) and isinstance(n.op, ast.USub):
            return f'(- {self.e(n.operand)})'
        if isinstance(n, ast.Attribute) and ast.unparse(n) == 'self.tau':
            return 'tau'
        raise Unsupported('Q expr ' + ast.unparse(n))

    def cmp(self, op, l, r):
        a, b = self.e(l), self.e(r)
        t = type(op)
        if t is ast.Eq:
            return f'(Qeq_bool {a} {b})'
        if t is ast.Lt:
            return f'(negb (Qle_bool {b} {a}))'
        if t is ast.LtE:
            return f'(Qle_bool {a} {b})'
        if t is ast.Gt:
            return f'(negb (Qle_bool {a} {b}))'
        if t is ast.GtE:
            return f'(Qle_bool {b} {a})'
        raise Unsupported('Q cmp')


def translate_compute_theta_q(path, cls):
    mod, c, f = find_method(path, cls, 'compute_theta')
    x = QExprTr(Scope(cls, {}, None, {}, {}, {'tau': 'tau'}))

    def body(stmts):
        if not stmts:
            raise Unsupported('falls off the end')
        st, rest = stmts[0], stmts[1:]
        if isinstance(st, ast.Expr) and isinstance(st.value, ast.Constant):
            return body(rest)
        if isinstance(st, ast.Return):
            return 'TInf' if x.is_inf(st.value) else f'TVal {x.e(st.value)}'
        if isinstance(st, ast.Raise):
            if 'ValueError' not in ast.unparse(st):
                raise Unsupported('raise')
            return 'TErr'
        if isinstance(st, ast.If):
            if st.orelse and rest:
                raise Unsupported('statements after if/else')
            return f'if {x.b(st.test)} then ({body(st.body)}) else ({body(st.orelse if st.orelse else rest)})'
        raise Unsupported('statement')
    return f'Definition {cls.lower()}_compute_theta_q (tau : Q) : theta_res :=\n  {body(f.body)}.\n'


def qext(n):
    src = ast.unparse(n)
    if src in ("float('inf')", 'np.inf'):
        return 'PInf'
    if src in ("-float('inf')", '-np.inf'):
        return 'MInf'
    f = Fraction(ast.literal_eval(n))
    return f'(Fin ({f.numerator} # {f.denominator}))'


def translate_theta_domain_q(path, cls):
    iv = class_attr(path, cls, 'theta_interval')
    inv = class_attr(path, cls, 'invalid_thetas')
    invs = '; '.join(f'({Fraction(ast.literal_eval(e)).numerator} # {Fraction(ast.literal_eval(e)).denominator})' for e in inv.elts)
    return (f'Definition {cls.lower()}_dom : dom := {{| d_lo := {qext(iv.elts[0])}; d_hi := {qext(iv.elts[1])}; '
            f'd_invalid := [{invs}] |}}.\n')
