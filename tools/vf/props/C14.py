"""C14 -- serialisation round-trips preserve every model's observable behaviour.

static : key sets of every to_dict / from_dict / _set_params regenerated from the AST (tools/vf/serial.py, fail-closed)
         -> Gen_serialfacts.v; Props/C14.v proves (vm_compute) that they are the keys of Model.Lifecycle / Spec.VineSerial
         and restates the round-trip, idempotence, dispatch, json_safe theorems and every refutation.
dynamic: REAL round trips (dict, JSON text, pickle / JSON files, n = 1..3) for class x constructor option x data kind;
         the real dict and the abstraction of the reconstructed object are compared with vm_compute of the model's
         to_dict_* / from_dict_* on the abstraction of the real original; the model's prediction "behaviour kind k is
         preserved" is compared with the bitwise comparison of the real outputs.
oracle : the property itself on the real classes (same family, to_dict equality, bitwise pdf/cdf/ppf/partial
         derivative, identical sample stream under the same random state, unfitted, dispatch, vines).
"""
COQCHK = ['C14_biv', 'C14_vine', 'C14_rest']   # cones without Coquelicot / Interval: coqchk -o re-checks them in about a minute each (thorough tier)
import json
import os
import shutil
import tempfile
import traceback
from concurrent.futures import ThreadPoolExecutor

import numpy as np

from .. import serial as S
from ..core import COQ, run_snippet

IMPORTS = 'From Cop Require Import Model.Lifecycle Spec.LifecycleProofs Spec.VineSerial.'
SCOPE = 'Open Scope string_scope.\n'

PRELUDE = '''import copy, json, os, pickle, shutil, tempfile, warnings
import numpy as np, pandas as pd
warnings.simplefilter('ignore')
from copulas.univariate import (BetaUnivariate, GammaUnivariate, GaussianKDE, GaussianUnivariate, LogLaplace,
                                StudentTUnivariate, TruncatedGaussian, UniformUnivariate, Univariate)
from copulas.univariate.base import BoundedType, ParametricType
from copulas.bivariate import Bivariate, Clayton, Frank, Gumbel
from copulas.multivariate import GaussianMultivariate, Multivariate, VineCopula
from copulas.multivariate.tree import Tree, get_tree
from copulas.utils import validate_random_state
from vf.serial import call, show_call, canon, canon_unordered, nan_empty
np.random.seed(1234)
'''

# round-trip paths: code that turns `m` into `r` (N round trips) through the entry point ENTRY
PATHS = {
    'dict': 'r = m\nfor _ in range({n}):\n    r = {entry}.from_dict(r.to_dict())\n',
    'json': 'r = m\nfor _ in range({n}):\n    r = {entry}.from_dict(json.loads(json.dumps(r.to_dict())))\n',
    'file': ('r = m\n_d = tempfile.mkdtemp(prefix="vf_c14_", dir="/tmp")\ntry:\n    for _ in range({n}):\n'
             '        r.save(os.path.join(_d, "model.bin"))\n        r = {entry}.load(os.path.join(_d, "model.bin"))\n'
             'finally:\n    shutil.rmtree(_d, ignore_errors=True)\n'),
}


def arr(a):
    a = np.asarray(a, dtype=float)
    if a.ndim == 1:
        return 'np.array([' + ', '.join(repr(float(x)) for x in a) + '])'
    return 'np.array([' + ', '.join('[' + ', '.join(repr(float(x)) for x in row) + ']' for row in a) + '])'


def run_src(src, extra=''):
    """execute a case source (the same text that goes into the repro); returns its namespace"""
    env = {}
    exec(compile(PRELUDE + src + extra, '<c14-case>', 'exec'), env)     # noqa: S102 - our own generated text
    return env


class Evaluator:
    """Coq side of the correspondence, in one parallel batch:
       goals  `A = B`  closed by `vm_compute. reflexivity.` (kernel-checked; nothing is printed: printing rationals with
              1074-bit denominators is what costs time) - a failing file is split into one file per goal;
       printed expressions (small ones: behaviour selectors) for the "is kind k preserved" predictions."""

    HDR = ('From Coq Require Import List ZArith QArith Bool String.\n' + IMPORTS + '\nImport ListNotations.\n' + SCOPE +
           'Set Printing Width 1000000.\nSet Printing Depth 1000000.\n')

    def __init__(self):
        self.exprs, self.index, self.out, self.errors = [], {}, None, {}
        self.goals, self.gindex, self.gok, self.gerr = [], {}, None, {}
        self.lits, self.litname = [], {}          # big literals are elaborated once per file (number notations are slow)
        self.group, self.egroup, self.ggroup = 'misc', [], []

    def lit(self, term):
        if len(term) < 120:
            return term
        if term not in self.litname:
            self.litname[term] = f'vflit_{len(self.lits)}'
            self.lits.append(term)
        return self.litname[term]

    def add(self, e):
        if e not in self.index:
            self.index[e] = len(self.exprs)
            self.exprs.append(e)
            self.egroup.append(self.group)
        return self.index[e]

    def goal(self, a, b):
        if (a, b) not in self.gindex:
            self.gindex[(a, b)] = len(self.goals)
            self.goals.append((a, b))
            self.ggroup.append(self.group)
        return self.gindex[(a, b)]

    def _lits_of(self, text):
        import re
        return sorted({int(x) for x in re.findall(r'vflit_(\d+)', text)})

    def _defs(self, texts):
        need = sorted({i for t in texts for i in self._lits_of(t)})
        return ''.join(f'Definition vflit_{i} := {self.lits[i]}.\n' for i in need)

    def _bins(self, texts, groups, nfiles):
        """whole groups (one real case = one group, sharing its literals) are spread over the files by size"""
        by = {}
        for i, g in enumerate(groups):
            by.setdefault(g, []).append(i)
        def gsize(idx):
            ls = {k for i in idx for k in self._lits_of(texts[i])}
            return sum(len(self.lits[k]) for k in ls) + sum(len(texts[i]) + 300 for i in idx)
        order = sorted(by, key=lambda g: -gsize(by[g]))
        nfiles = max(1, min(nfiles, len(texts) // 8))
        bins, sizes = [[] for _ in range(nfiles)], [0] * nfiles
        for g in order:
            k = sizes.index(min(sizes))
            bins[k] += by[g]
            sizes[k] += gsize(by[g])
        return [b for b in bins if b]

    def _print_batch(self, ctx, tag, groups):
        import re
        rels = []
        for k, idx in enumerate(groups):
            txt = self.HDR + self._defs([self.exprs[i] for i in idx]) + \
                ''.join(f'Definition vfcase_{i} := Eval vm_compute in ({self.exprs[i]}).\nPrint vfcase_{i}.\n' for i in idx)
            rel = f'Cases_C14_{tag}_{k}.v'
            ctx.write(rel, txt)
            rels.append(rel)
        missing = []
        for idx, r in zip(groups, ctx.compile_parallel(rels, timeout=600)):
            text = r['out'] + '\n : '
            for m in re.finditer(r'vfcase_(\d+) =\s*(.*?)\n\s*:\s', text, re.S):
                self.out[int(m.group(1))] = ' '.join(m.group(2).split())
            if not r['ok']:
                err = '\n'.join(l for l in (r['err'] or '').split('\n') if 'Warning' not in l)[-600:]
                for i in idx:
                    if self.out[i] is None:
                        missing.append(i)
                        self.errors[i] = ('TIMEOUT ' if r['rc'] == 124 else '') + err
        return missing

    def _goal_batch(self, ctx, tag, groups):
        rels = []
        for k, idx in enumerate(groups):
            txt = self.HDR + self._defs([self.goals[i][0] + self.goals[i][1] for i in idx]) + \
                ''.join(f'Lemma vfeq_{i} : ({self.goals[i][0]}) = ({self.goals[i][1]}).\nProof. vm_compute. match goal with |- ?a = ?a => reflexivity | _ => fail "the two sides differ" end. Qed.\n' for i in idx)
            rel = f'Cases_C14_{tag}_{k}.v'
            ctx.write(rel, txt)
            rels.append(rel)
        failed = []
        res = ctx.compile_parallel(rels, timeout=600)
        ctx.extra.setdefault('coq_case_files', []).append({'tag': tag, 'files': len(rels), 'slowest_s': round(max([r['s'] for r in res] or [0]), 1),
                                                           'total_s': round(sum(r['s'] for r in res), 1)})
        for idx, r in zip(groups, res):
            if r['ok']:
                for i in idx:
                    self.gok[i] = True
            else:
                err = '\n'.join(l for l in (r['err'] or '').split('\n') if 'Warning' not in l)[-500:]
                for i in idx:
                    failed.append(i)
                    self.gerr[i] = ('TIMEOUT ' if r['rc'] == 124 else '') + err
        return failed

    def run(self, ctx):
        self.out = [None] * len(self.exprs)
        self.gok = [False] * len(self.goals)
        with ThreadPoolExecutor(2) as ex:
            f1 = ex.submit(self._print_batch, ctx, 'p', self._bins(self.exprs, self.egroup, 10))
            f2 = ex.submit(self._goal_batch, ctx, 'g', self._bins([a + ' ' + b for a, b in self.goals], self.ggroup, 22))
            missing, failed = f1.result(), f2.result()
        if missing:
            self.errors = {}
            self._print_batch(ctx, 'pi', [[i] for i in missing])
        if failed:      # isolate: first one file per real case (group) of the failing files, then one per goal
            by = {}
            for i in failed:
                by.setdefault(self.ggroup[i], []).append(i)
            self.gerr = {}
            failed2 = self._goal_batch(ctx, 'gg', list(by.values()))
            still = []
            if failed2:
                self.gerr = {}
                still = self._goal_batch(ctx, 'gi', [[i] for i in failed2[:400]])
            # diagnostics for the goals that really fail: print both sides (bounded)
            for i in still[:6]:
                for side in self.goals[i]:
                    self.add(side)
            self.egroup += ['diag'] * (len(self.exprs) - len(self.egroup))
            todo = [i for i in range(len(self.out), len(self.exprs))]
            if todo:
                self.out += [None] * len(todo)
                self._print_batch(ctx, 'pd', [[i] for i in todo])

    def val(self, e):
        i = self.index.get(e)
        return None if i is None or i >= len(self.out) else self.out[i]

    def err(self, e):
        return self.errors.get(self.index.get(e), '')

    def same(self, a, b):
        va, vb = self.val(a), self.val(b)
        return va is not None and vb is not None and va == vb

    def holds(self, a, b):
        return self.gok[self.gindex[(a, b)]]


class Pending:
    """comparisons registered during the real runs, resolved after the Coq batch"""

    def __init__(self, ctx, E):
        self.ctx, self.E, self.items = ctx, E, []

    def eq(self, name, model_expr, expected_expr, detail, on_fail=None):
        """obligation: vm_compute(model_expr) = vm_compute(expected_expr), checked by the Coq kernel"""
        self.E.goal(model_expr, expected_expr)
        self.items.append(('eq', name, model_expr, expected_expr, detail, on_fail))

    def later(self, fn):
        self.items.append(('fn', fn))

    def resolve(self):
        for it in self.items:
            if it[0] == 'fn':
                it[1]()
                continue
            _, name, a, b, detail, on_fail = it
            ok = self.E.holds(a, b)
            msg = ''
            if not ok:
                va, vb = self.E.val(a), self.E.val(b)
                msg = (f'{detail}\n model   : {str(va)[:700]}\n expected: {str(vb)[:700]}\n'
                       f' {self.E.gerr.get(self.E.gindex[(a, b)], "")[-300:]}')
            self.ctx.obligation(name, ok, 'correspondence', msg)
            if not ok and on_fail:
                on_fail()


# =====================================================================================================
# univariate
# =====================================================================================================
UNI_KINDS = ('cdf', 'pdf', 'ppf', 'logpdf', 'sample')
QK = {'cdf': 'QCdf', 'pdf': 'QPdf', 'ppf': 'QPpf', 'logpdf': 'QLogPdf', 'sample': 'QSample'}


def uni_behaviour(m, P, U, seed=7):
    out = {}
    out['cdf'] = S.call(m.cumulative_distribution, P.copy())
    out['pdf'] = S.call(m.probability_density, P.copy())
    out['ppf'] = S.call(m.percent_point, U.copy())
    out['logpdf'] = S.call(m.log_probability_density, P.copy())
    m.set_random_state(seed)
    out['sample'] = S.call(lambda: np.concatenate([np.ravel(m.sample(5)), np.ravel(m.sample(3))]))
    return out


UNI_CHECK = {
    'cdf': 'a, b = call(m.cumulative_distribution, P.copy()), call(r.cumulative_distribution, P.copy())\n',
    'pdf': 'a, b = call(m.probability_density, P.copy()), call(r.probability_density, P.copy())\n',
    'ppf': 'a, b = call(m.percent_point, U.copy()), call(r.percent_point, U.copy())\n',
    'logpdf': 'a, b = call(m.log_probability_density, P.copy()), call(r.log_probability_density, P.copy())\n',
    'sample': ('m.set_random_state(7); r.set_random_state(7)\n'
               'a = call(lambda: np.concatenate([np.ravel(m.sample(5)), np.ravel(m.sample(3))]))\n'
               'b = call(lambda: np.concatenate([np.ravel(r.sample(5)), np.ravel(r.sample(3))]))\n'),
}
TAIL = 'print("original     :", show_call(a)); print("reconstructed:", show_call(b)); assert a == b, "behaviour differs after the round trip"\n'


def uni_data(rng, fam, kind):
    n = int(rng.integers(8, 19))
    if kind == 'const':
        c = [3.0, 0.0, -2.5, 1000000.3, round(float(rng.normal(5, 3)), 2)][int(rng.integers(0, 5))]
        return np.full(5, c)
    if fam in ('GammaUnivariate', 'LogLaplace'):
        return rng.gamma(2.0, 1.5, n) + 0.5
    if fam == 'BetaUnivariate':
        return rng.beta(2.0, 3.0, n) * 4.0 + 1.0
    return rng.normal(float(rng.uniform(-3, 3)), float(rng.uniform(0.5, 2.5)), n)


def probes(X, rng):
    X = np.asarray(X, dtype=float)
    lo, hi = float(X.min()), float(X.max())
    w = (hi - lo) or 1.0
    P = np.concatenate([[X[0], lo, hi, lo - 0.5 * w, hi + 0.5 * w, (lo + hi) / 2], rng.uniform(lo - 0.2 * w, hi + 0.2 * w, 3)])
    U = np.array([0.001, 0.1, 0.37, 0.5, 0.9, 0.999])
    return P, U


def uni_cases(rng, quick):
    """list of dicts: key, cls, opts (dict of non-default constructor options), kind, src, entry"""
    out = []

    def add(cls, ctor, kind, X, opts, extra_fit='', tag=''):
        P, U = probes(X, rng)
        src = f'X = {arr(X)}\nP = {arr(P)}\nU = {arr(U)}\nm = {ctor}\n{extra_fit}m.fit(X)\n'
        optsig = ','.join(sorted(opts)) or 'default'
        out.append({'key': f'uni:{cls}:{optsig}:{kind}{tag}', 'cls': cls, 'opts': opts, 'kind': kind, 'src': src,
                    'n': len(X)})
    fams = list(S.FAM_ORDER)
    for fam in fams:
        for kind in ('nonconst', 'const'):
            X = uni_data(rng, fam, kind)
            add(fam, f'{fam}()', kind, X, {})
        X = uni_data(rng, fam, 'nonconst')
        add(fam, f'{fam}(random_state=42)', 'nonconst', X, {'random_state': 42})
    # constant-data sweep for StudentT (F25 depends on the value) and the wrapper
    for c in (3.0, -2.5, 1000000.3):
        add('StudentTUnivariate', 'StudentTUnivariate()', 'const', np.full(5, c), {}, tag=f':c={c}')
    # TruncatedGaussian bounds
    X = uni_data(rng, 'TruncatedGaussian', 'nonconst')
    lo, hi = float(np.floor(X.min() - 1)), float(np.ceil(X.max() + 1))
    add('TruncatedGaussian', f'TruncatedGaussian(minimum={lo}, maximum={hi})', 'nonconst', X, {'minimum': lo, 'maximum': hi})
    add('TruncatedGaussian', f'TruncatedGaussian({lo})', 'nonconst', X, {'minimum': lo}, tag=':positional')
    add('TruncatedGaussian', f'TruncatedGaussian(minimum={lo}, maximum={hi})', 'const', np.full(5, (lo + hi) / 2), {'minimum': lo, 'maximum': hi})
    # GaussianKDE options
    X = uni_data(rng, 'GaussianKDE', 'nonconst')
    w = np.round(rng.uniform(0.5, 3.0, len(X)), 3)
    add('GaussianKDE', 'GaussianKDE(bw_method=0.3)', 'nonconst', X, {'bw_method': 0.3})
    add('GaussianKDE', "GaussianKDE(bw_method='silverman')", 'nonconst', X, {'bw_method': 'silverman'})
    add('GaussianKDE', f'GaussianKDE(weights={arr(w)})', 'nonconst', X, {'weights': 'array'})
    add('GaussianKDE', 'GaussianKDE(sample_size=10)', 'nonconst', X, {'sample_size': 10})
    add('GaussianKDE', 'GaussianKDE(sample_size=10)', 'const', np.full(5, 2.5), {'sample_size': 10})
    add('GaussianKDE', 'GaussianKDE(bw_method=0.3)', 'const', np.full(4, -1.25), {'bw_method': 0.3})
    add('GaussianKDE', 'GaussianKDE()', 'nonconst', np.array([float(rng.normal()), float(rng.normal()) + 3.0]), {}, tag=':two-points')
    # the selecting wrapper
    X = uni_data(rng, 'GaussianUnivariate', 'nonconst')
    add('Univariate', 'Univariate()', 'nonconst', X, {})
    add('Univariate', 'Univariate()', 'const', np.full(5, 7.0), {})
    add('Univariate', 'Univariate(parametric=ParametricType.PARAMETRIC, random_state=42)', 'nonconst', X,
        {'parametric': 'PARAMETRIC', 'random_state': 42})
    add('Univariate', 'Univariate(bounded=BoundedType.BOUNDED)', 'nonconst', X, {'bounded': 'BOUNDED'})
    add('Univariate', 'Univariate(candidates=[GaussianUnivariate, UniformUnivariate])', 'nonconst', X, {'candidates': 'classes'})
    add('Univariate', "Univariate(candidates=['copulas.univariate.gamma.GammaUnivariate', GaussianKDE(bw_method=0.5)])", 'nonconst',
        np.abs(X) + 0.5, {'candidates': 'name+instance'})
    # histories / edge data
    add('GaussianUnivariate', 'GaussianUnivariate()', 'nonconst', X, {}, extra_fit='m.fit(np.full(5, 3.0))\n', tag=':after-constant-fit')
    add('GaussianUnivariate', 'GaussianUnivariate()', 'underflow', np.array([0.0, 1e-320]), {}, tag=':std-underflow')
    if not quick:
        for fam in fams:
            for _ in range(8):
                for kind in ('nonconst', 'const'):
                    add(fam, f'{fam}()', kind, uni_data(rng, fam, kind), {}, tag=f':r{len(out)}')
            add(fam, f'{fam}()', 'nonconst', uni_data(rng, fam, 'nonconst'), {}, extra_fit='m.fit(np.full(4, 1.5))\n',
                tag=':after-constant-fit')
    return out


def uni_expected_class(m):
    return type(m._instance).__name__ if type(m).__name__ == 'Univariate' else type(m).__name__


def uni_key(case, path, what, m, r, d, exc=None):
    """stable key of a round-trip failure; the known defects are recognised by class / option / data kind AND mechanism"""
    cls, opts, kind = case['cls'], case['opts'], case['kind']
    if path == 'file' and what == 'raises' and isinstance(exc, AttributeError) and 'set_bandwidth.<locals>.<lambda>' in str(exc):
        inner = m._instance if cls == 'Univariate' else m
        if type(inner).__name__ == 'GaussianKDE' and isinstance(inner.bw_method, (int, float)) and '_model' in inner.__dict__:
            return 'F-C14d:kde-scalar-bw_method-save-raises' + (':wrapper-candidate-instance' if cls == 'Univariate' else '')
    beh = what in UNI_KINDS
    same_dict = False
    try:
        same_dict = S.canon_unordered(S.canon(r.to_dict())) == S.canon_unordered(S.canon(d))
    except Exception:       # noqa: BLE001
        pass
    if path in ('dict', 'json') and beh and same_dict and r is not None:
        if cls == 'GaussianKDE' and kind != 'const' and set(opts) == {'bw_method'} and getattr(r, 'bw_method', 0) is None:
            return 'F15:kde-bw_method-dropped'
        if cls == 'GaussianKDE' and kind != 'const' and set(opts) == {'weights'} and getattr(r, 'weights', 0) is None:
            return 'F15:kde-weights-dropped'
        if cls == 'Univariate' and opts.get('candidates') == 'name+instance' and type(r).__name__ == 'GaussianKDE' \
                and getattr(r, 'bw_method', 0) is None and m._instance.bw_method is not None:
            return 'F15:kde-bw_method-dropped:wrapper-candidate-instance'
        if cls == 'StudentTUnivariate' and kind == 'const' \
                and r._constant_value == d['loc'] and m._constant_value != d['loc']:
            return 'F25:studentt-constant-roundtrip'
        if ':after-constant-fit' in case['key'] and all(k in m.__dict__ for k in S.OV_NAMES) \
                and not any(k in r.__dict__ for k in S.OV_NAMES):
            return f'F5:stale-constant-overrides-lost-in-roundtrip:{cls}'
        if cls == 'GaussianUnivariate' and kind == 'underflow' and d['scale'] == 0 and m._constant_value is None \
                and r._constant_value is not None:
            return 'F-C14b:gaussian-std-underflow-roundtrip'
    if path in ('dict', 'json') and what == 'refit' and cls == 'GaussianKDE' and 'sample_size' in opts and kind != 'const' \
            and getattr(r, '_sample_size', None) == 1:
        return 'F26:kde-sample_size-nested-dataset'
    optsig = ','.join(sorted(opts)) or 'default'
    return f'rt:{cls}:{optsig}:{kind}:{path}:{what}'


class Viols:
    def __init__(self, ctx):
        self.ctx, self.seen = ctx, {}

    def add(self, key, what, repro, extra=None):
        if key in self.seen:
            return
        self.seen[key] = repro
        body = {'repro': PRELUDE + repro}
        body.update(extra or {})
        self.ctx.violation(key, what, body)

    def validate(self):
        """every repro must exit non-zero on the tree under test (it is what the replay runs)"""
        items = list(self.seen.items())
        if len(items) > 24:      # a broken tree yields hundreds of violations: validate a sample only
            self.ctx.extra['repros_not_validated'] = len(items) - 24
            items = items[:24]

        def one(kv):
            try:
                rc, out, err = run_snippet(PRELUDE + kv[1], timeout=300)
            except Exception as ex:      # noqa: BLE001
                return kv[0], 1, f'{type(ex).__name__}'
            return kv[0], rc, (err or out)[-300:]
        with ThreadPoolExecutor(8) as ex:
            for key, rc, tail in ex.map(one, items):
                self.ctx.obligation(f'repro-fails-on-this-tree:{key}', rc != 0, 'harness',
                                    '' if rc != 0 else 'the repro snippet of this violation exits 0')


def dict_canon(r):
    try:
        return S.canon_unordered(S.canon(r.to_dict())), S.canon(r.to_dict())
    except Exception as ex:       # noqa: BLE001
        return ('raised', type(ex).__name__), ('raised', type(ex).__name__)


PERTURB = '''r = m; m = copy.deepcopy(m)      # m: pristine copy, r: the object that gets serialised
r.to_dict(); r.to_dict()
'''


def path_code(path, n, entry):
    return PATHS[path].format(n=n, entry=entry)


def apply_path(m, path, entry_obj, tmpdir):
    """one round trip of the real object through the real entry point"""
    if path == 'dict':
        return entry_obj.from_dict(m.to_dict())
    if path == 'json':
        return entry_obj.from_dict(json.loads(json.dumps(m.to_dict())))
    p = os.path.join(tmpdir, 'model.bin')
    m.save(p)
    try:
        return entry_obj.load(p)
    finally:
        os.remove(p)


def safe_alpha(fn, *a):
    try:
        return fn(*a), None
    except S.Unmodelled as ex:
        return None, str(ex)


def run_uni(ctx, pend, E, case, viol, tmpdir):
    import pickle
    from copulas.univariate import Univariate
    key = case['key']
    E.group, L = key, E.lit
    env = run_src(case['src'])
    m, P, U, X = env['m'], env['P'], env['U'], env['X']
    import copy
    m0 = copy.deepcopy(m)        # taken before anything is serialised
    am, why = safe_alpha(S.alpha_u, m)
    if am is None:
        ctx.obligation(f'corr:{key}:abstraction', False, 'correspondence', why)
        return
    am0 = S.alpha_u(m, 'none')
    dres, d = S.result_term(m.to_dict, S.jv, 'jv')
    pend.eq(f'corr:{key}:to_dict', f'to_dict_u {L(am)}', L(dres), f'to_dict of {case["src"][-200:]}')
    ctx.case(key, {'class': case['cls'], 'options': case['opts'], 'data': case['kind'], 'n': case['n'],
                   'dict_keys': list(d) if isinstance(d, dict) else str(d)[:60]}, nontrivial=True)
    if not isinstance(d, dict):
        viol.add(f'rt:{case["cls"]}:{case["kind"]}:to_dict-raises', f'{key}: to_dict() of a fitted model raised {type(d).__name__}: {d}',
                 case['src'] + 'm.to_dict()\n')
        return
    # JSON clause
    try:
        text = json.dumps(d)
        d2 = json.loads(text)
        json_ok = S.jv(d2) == S.jv(d)
        why = '' if json_ok else 'json.loads(json.dumps(d)) is not the same value'
    except Exception as ex:       # noqa: BLE001
        json_ok, why = False, f'{type(ex).__name__}: {ex}'
    pend.eq(f'corr:{key}:json_safe', f'json_safe {L(S.jv(d))}', 'true', 'the model says the dict is JSON-safe')
    if not json_ok:
        viol.add(f'rt:{case["cls"]}:{case["kind"]}:json', f'{key}: dict does not survive JSON text: {why}',
                 case['src'] + 'd = m.to_dict(); d2 = json.loads(json.dumps(d))\nassert canon(d2) == canon(json.loads(json.dumps(d2))) and '
                 'canon_unordered(canon(Univariate.from_dict(d2).to_dict())) == canon_unordered(canon(d))\n')
    # ---- phase 1: all reconstructions, before anything draws from a random state ----
    chains = {}
    for path in ('dict', 'json', 'file'):
        prev, chain = m, []
        for n in (1, 2, 3):
            try:
                r = apply_path(prev, path, Univariate, tmpdir)
            except Exception as ex:       # noqa: BLE001
                chain.append(ex)
                break
            chain.append(r)
            prev = r
        chains[path] = chain
    expect_cls = uni_expected_class(m)
    dcanon = S.canon_unordered(S.canon(d))
    alphas = {}
    for path, chain in chains.items():
        for n, r in enumerate(chain, 1):
            if isinstance(r, Exception):
                if path != 'file' and n == 1:
                    pend.eq(f'corr:{key}:{path}:from_dict-raises', f'from_dict_u {L(S.jv(d))}',
                            f'(@Err uobj {S.ERR.get(type(r).__name__, "Unmodelled")})',
                            f'{path} round trip {n} raised {type(r).__name__}: {r}')
                viol.add(uni_key(case, path, 'raises', m, None, d, r), f'{key}: {path} round trip #{n} raised {type(r).__name__}: {r}',
                         case['src'] + path_code(path, n, 'Univariate'))
                continue
            ar, why = safe_alpha(S.alpha_u, r)
            if ar is None:
                ctx.obligation(f'corr:{key}:{path}:{n}:abstraction', False, 'correspondence', why)
                continue
            alphas[(path, n)] = ar
            if path == 'file':
                # pickle oracle hypothesis: deep copy of the attribute record (overrides, seed, hidden state included)
                ctx.obligation(f'corr:{key}:pickle-is-a-copy:{n}', ar == am, 'correspondence',
                               '' if ar == am else f'abstraction of the loaded object differs:\n loaded  : {ar[:600]}\n original: {am[:600]}')
            elif n == 1:
                pend.eq(f'corr:{key}:{path}:from_dict', f'from_dict_u {L(S.jv(d))}', f'(Ok {L(ar)})',
                        f'state of the object rebuilt by Univariate.from_dict ({path})')
                pend.eq(f'corr:{key}:{path}:to_dict-after', f'to_dict_u {L(ar)}', L(dres), 'to_dict of the rebuilt object')
            else:
                a1 = alphas.get((path, 1))
                ctx.obligation(f'corr:{key}:{path}:idempotent:{n}', ar == a1, 'correspondence',
                               '' if ar == a1 else f'round trip #{n} differs from #1:\n #{n}: {ar[:500]}\n #1: {str(a1)[:500]}')
    # model: n round trips = one round trip (evaluated, not only proved)
    if ('dict', 1) in alphas and type(m).__name__ != 'Univariate':
        sm = S.alpha_s(m)
        pend.eq(f'corr:{key}:rt_n', f'rt_n 3 {L(sm)}', f'rt_n 1 {L(sm)}', 'three model round trips = one')
    # ---- phase 2: oracles on the real objects ----
    bm = uni_behaviour(m, P, U)
    b0 = uni_behaviour(m0, P, U)
    for k in UNI_KINDS:      # serialising must not change the model that was serialised
        if b0[k] != bm[k]:
            viol.add(f'to_dict-perturbs:{case["cls"]}:{case["kind"]}:{k}',
                     f'{key}: {k} of the ORIGINAL changes once it has been serialised: before {S.show_call(b0[k])}; after {S.show_call(bm[k])}',
                     case['src'] + PERTURB + UNI_CHECK[k] + TAIL)
    real_equal = {}
    for path, chain in chains.items():
        for n, r in enumerate(chain, 1):
            if isinstance(r, Exception):
                continue
            code = case['src'] + path_code(path, n, 'Univariate')
            want = expect_cls if path != 'file' else type(m).__name__
            if type(r).__name__ != want:
                viol.add(uni_key(case, path, 'class', m, r, d), f'{key}: {path} round trip gives a {type(r).__name__}, expected {want}',
                         code + f'assert type(r).__name__ == {want!r}, type(r).__name__\n')
            if not r.fitted:
                viol.add(uni_key(case, path, 'fitted', m, r, d), f'{key}: {path} round trip gives an unfitted model', code + 'assert r.fitted\n')
            try:
                rc = S.canon_unordered(S.canon(r.to_dict()))
            except Exception as ex:       # noqa: BLE001
                rc = ('raised', type(ex).__name__)
            if rc != dcanon:
                viol.add(uni_key(case, path, 'to_dict', m, r, d),
                         f'{key}: to_dict() after {n} {path} round trip(s) differs: {S.canon_diff(S.canon(d), S.canon(r.to_dict()) if rc[0] != "raised" else rc)[:2]}',
                         code + 'a, b = canon_unordered(canon(m.to_dict())), canon_unordered(canon(r.to_dict()))\nassert a == b, "to_dict differs"\n')
            if n == 2:
                continue
            br = uni_behaviour(r, P, U)
            for k in UNI_KINDS:
                same = br[k] == bm[k]
                if n == 1:
                    real_equal[(path, k)] = same
                if not same:
                    viol.add(uni_key(case, path, k, m, r, d),
                             f'{key}: {k} differs after {n} {path} round trip(s): original {S.show_call(bm[k])}; reconstructed {S.show_call(br[k])}',
                             code + UNI_CHECK[k] + TAIL,
                             {'class': case['cls'], 'options': case['opts'], 'data': case['kind'], 'path': path, 'observable': k})
    # hidden state: re-fitting the reconstructed object on the training data must not crash if the original does not
    for path in ('dict',):
        ch = chains[path]
        if ch and not isinstance(ch[0], Exception):
            try:
                m2, r2 = pickle.loads(pickle.dumps(m)), pickle.loads(pickle.dumps(ch[0]))
                a = S.call(lambda: (np.random.seed(5), m2.fit(X), 0.0)[2])
                b = S.call(lambda: (np.random.seed(5), r2.fit(X), 0.0)[2])
            except Exception as ex:       # noqa: BLE001
                a = b = ('err', f'copy:{type(ex).__name__}')
            if a[0] != b[0]:
                viol.add(uni_key(case, path, 'refit', m, ch[0], d),
                         f'{key}: re-fitting on the training data: original {S.show_call(a) if a[0] == "err" else "succeeds"}, '
                         f'reconstructed {S.show_call(b) if b[0] == "err" else "succeeds"} (hidden state differs: _sample_size '
                         f'{getattr(m, "_sample_size", None)} vs {getattr(ch[0], "_sample_size", None)})',
                         case['src'] + path_code(path, 1, 'Univariate') +
                         'm2, r2 = pickle.loads(pickle.dumps(m)), pickle.loads(pickle.dumps(r))\nnp.random.seed(5); m2.fit(X)\nnp.random.seed(5); r2.fit(X)\n')
    # ---- model prediction vs real: "kind k is preserved by the dict round trip" ----
    if ('dict', 1) in alphas:
        r1 = chains['dict'][0]
        ar0 = S.alpha_u(r1, 'none')
        for k in UNI_KINDS:
            ea, eb = f'q_u {L(ar0)} {QK[k]}', f'q_u {L(am0)} {QK[k]}'
            E.add(ea)
            E.add(eb)

            def chk(k=k, ea=ea, eb=eb):
                pred = E.same(ea, eb)
                real = real_equal.get(('dict', k))
                # the model may be pessimistic (it does not know that e.g. uniform weights are harmless), never optimistic
                ok = (not pred) or bool(real)
                ctx.obligation(f'corr:{key}:predict:{k}', ok, 'correspondence',
                               '' if ok else f'model predicts {k} is preserved by the round trip, the real outputs differ')
                ctx.extra.setdefault('predictions', {'preserved': 0, 'model-says-differs': 0, 'real-differs': 0})
                ctx.extra['predictions']['preserved' if pred else 'model-says-differs'] += 1
                if real is False:
                    ctx.extra['predictions']['real-differs'] += 1
            pend.later(chk)


# =====================================================================================================
# bivariate
# =====================================================================================================
BIV_KINDS = ('cdf', 'pdf', 'partial', 'ppf', 'logpdf', 'sample')
BK = {'cdf': 'BCdf', 'pdf': 'BPdf', 'partial': 'BPartial', 'ppf': 'BPpf', 'logpdf': 'BLogPdf', 'sample': 'BSample'}


def biv_behaviour(b, P, seed=7):
    from copulas.utils import validate_random_state
    out = {}
    out['cdf'] = S.call(b.cumulative_distribution, P.copy())
    out['pdf'] = S.call(b.probability_density, P.copy())
    out['partial'] = S.call(b.partial_derivative, P.copy())
    out['ppf'] = S.call(b.percent_point, P[:, 0].copy(), P[:, 1].copy())
    out['logpdf'] = S.call(b.log_probability_density, P.copy())
    b.random_state = validate_random_state(seed)
    out['sample'] = S.call(lambda: np.concatenate([np.ravel(b.sample(4)), np.ravel(b.sample(2))]))
    return out


BIV_CHECK = {
    'cdf': 'a, b = call(m.cumulative_distribution, P.copy()), call(r.cumulative_distribution, P.copy())\n',
    'pdf': 'a, b = call(m.probability_density, P.copy()), call(r.probability_density, P.copy())\n',
    'partial': 'a, b = call(m.partial_derivative, P.copy()), call(r.partial_derivative, P.copy())\n',
    'ppf': 'a, b = call(m.percent_point, P[:, 0].copy(), P[:, 1].copy()), call(r.percent_point, P[:, 0].copy(), P[:, 1].copy())\n',
    'logpdf': 'a, b = call(m.log_probability_density, P.copy()), call(r.log_probability_density, P.copy())\n',
    'sample': ('m.random_state = validate_random_state(7); r.random_state = validate_random_state(7)\n'
               'a = call(lambda: np.concatenate([np.ravel(m.sample(4)), np.ravel(m.sample(2))]))\n'
               'b = call(lambda: np.concatenate([np.ravel(r.sample(4)), np.ravel(r.sample(2))]))\n'),
}


def pyf(x):
    if x is None:
        return 'None'
    x = float(x)
    if x != x:
        return "float('nan')"
    if x in (float('inf'), float('-inf')):
        return "float('inf')" if x > 0 else "float('-inf')"
    return repr(x)


def biv_cases(rng, quick):
    out = []
    P = np.column_stack([rng.uniform(0.05, 0.95, 5), rng.uniform(0.05, 0.95, 5)])
    P = np.vstack([P, [[0.5, 0.5], [1e-3, 0.999]]])
    for fam in ('clayton', 'frank', 'gumbel'):
        for seed in (None, 7):
            n = int(rng.integers(12, 40))
            u = rng.uniform(0.02, 0.98, n)
            v = np.clip(0.6 * u + 0.4 * rng.uniform(0.02, 0.98, n), 0.01, 0.99)
            X = np.column_stack([u, v])
            ctor = f"Bivariate(copula_type='{fam}'" + (f', random_state={seed})' if seed is not None else ')')
            out.append({'key': f'biv:{fam}:fit:seed={seed}', 'fam': fam, 'kind': 'fit', 'seed': seed,
                        'src': f'X = {arr(X)}\nP = {arr(P)}\nm = {ctor}\nm.fit(X)\n'})
    edge = [('clayton', float('inf'), 1.0), ('clayton', 0.0, 0.0), ('clayton', 2.5, float('nan')), ('clayton', None, None),
            ('frank', -3.0, -0.3), ('frank', 709.782712893384, 1.0), ('frank', None, None), ('frank', float('nan'), float('nan')),
            ('gumbel', 1.0, 0.0), ('gumbel', float('inf'), 1.0), ('gumbel', None, None), ('gumbel', 0.5, -1.0)]
    if not quick:
        for _ in range(30):
            fam = ['clayton', 'frank', 'gumbel'][int(rng.integers(0, 3))]
            edge.append((fam, float(np.round(rng.uniform(-5, 20), 3)), float(np.round(rng.uniform(-1, 1), 3))))
    for fam, th, ta in edge:
        cls = {'clayton': 'Clayton', 'frank': 'Frank', 'gumbel': 'Gumbel'}[fam]
        ctor = f'{cls}(random_state=7)' if th == 2.5 else f"Bivariate(copula_type='{fam.upper() if th is None else fam}')"
        src = f'P = {arr(P)}\nm = {ctor}\nm.theta = {pyf(th)}\nm.tau = {pyf(ta)}\n' if th is not None or ta is not None \
            else f'P = {arr(P)}\nm = {ctor}\n'
        out.append({'key': f'biv:{fam}:theta={th}:tau={ta}', 'fam': fam, 'kind': 'unfitted' if th is None else 'params', 'seed': None,
                    'src': src})
    return out


def run_biv(ctx, pend, E, case, viol, tmpdir):
    from copulas.bivariate import Bivariate
    key = case['key']
    E.group, L = key, E.lit
    env = run_src(case['src'])
    m, P = env['m'], env['P']
    import copy
    m0 = copy.deepcopy(m)
    am = S.alpha_b(m)
    am0 = S.alpha_b(m, 'none')
    dres, d = S.result_term(m.to_dict, S.jv, 'jv')
    pend.eq(f'corr:{key}:to_dict', f'to_dict_biv {L(am)}', L(dres), 'Bivariate.to_dict')
    if not isinstance(d, dict):
        return
    ctx.case(key, {'family': case['fam'], 'kind': case['kind'], 'seed': case['seed'], 'dict': {k: repr(v) for k, v in d.items()}},
             nontrivial=True)
    try:
        d2 = json.loads(json.dumps(d))
        json_ok, why = S.jv(d2) == S.jv(d), 'value changed'
    except Exception as ex:       # noqa: BLE001
        json_ok, why = False, f'{type(ex).__name__}: {ex}'
    pend.eq(f'corr:{key}:json_safe', f'json_safe {L(S.jv(d))}', 'true', 'model: the dict is JSON-safe')
    if not json_ok:
        viol.add(f'rt:biv:{case["fam"]}:{case["kind"]}:json', f'{key}: the dict does not survive JSON text ({why})',
                 case['src'] + 'd = m.to_dict(); assert canon(json.loads(json.dumps(d))) == canon(d)\n')
    chains, alphas = {}, {}
    for path in ('dict', 'json', 'file'):
        prev, chain = m, []
        for n in (1, 2, 3):
            w0 = S.world_term()
            try:
                r = apply_path(prev, path, Bivariate, tmpdir)
            except Exception as ex:       # noqa: BLE001
                chain.append(ex)
                viol.add(f'rt:biv:{case["fam"]}:{case["kind"]}:{path}:raises', f'{key}: {path} round trip #{n} raised {type(ex).__name__}: {ex}',
                         case['src'] + path_code(path, n, 'Bivariate'))
                break
            ar = S.alpha_b(r)
            alphas[(path, n)] = ar
            if n == 1:
                pend.eq(f'corr:{key}:{path}:from_dict', f'snd (from_dict_biv {w0} None {L(S.jv(d))})', f'(Ok {L(ar)})',
                        f'state rebuilt by Bivariate.from_dict ({path})')
                pend.eq(f'corr:{key}:{path}:class-cache', f'{S.WORLD_SHOW} (fst (from_dict_biv {w0} None {L(S.jv(d))}))',
                        S.world_show_literal(), 'class-level _subclasses caches after the call')
                pend.eq(f'corr:{key}:{path}:to_dict-after', f'to_dict_biv {L(ar)}', L(dres), 'to_dict of the rebuilt copula')
            else:
                ctx.obligation(f'corr:{key}:{path}:idempotent:{n}', ar == alphas[(path, 1)], 'correspondence',
                               f'round trip #{n}: {L(ar)} vs #1: {alphas[(path, 1)]}')
            chain.append(r)
            prev = r
        chains[path] = chain
    if ('dict', 1) in alphas:
        pend.eq(f'corr:{key}:rt_n', f'snd (rt_biv_n 3 {S.world_term()} {L(am)})', f'(Ok {alphas[("dict", 1)]})', 'three model round trips = one')
    bm = biv_behaviour(m, P)
    b0 = biv_behaviour(m0, P)
    for k in BIV_KINDS:
        if b0[k] != bm[k]:
            viol.add(f'to_dict-perturbs:biv:{case["fam"]}:{k}',
                     f'{key}: {k} of the ORIGINAL changes once it has been serialised: before {S.show_call(b0[k])}; after {S.show_call(bm[k])}',
                     case['src'] + PERTURB + BIV_CHECK[k] + TAIL)
    dc = S.canon_unordered(S.canon(d))
    real_equal = {}
    want = type(m).__name__
    for path, chain in chains.items():
        for n, r in enumerate(chain, 1):
            if isinstance(r, Exception):
                continue
            code = case['src'] + path_code(path, n, 'Bivariate')
            if type(r).__name__ != want:
                viol.add(f'rt:biv:{case["fam"]}:{case["kind"]}:{path}:class', f'{key}: {path} round trip gives {type(r).__name__}, expected {want}',
                         code + f'assert type(r).__name__ == {want!r}, type(r).__name__\n')
            if dict_canon(r)[0] != dc:
                viol.add(f'rt:biv:{case["fam"]}:{case["kind"]}:{path}:to_dict',
                         f'{key}: to_dict() differs after {n} {path} round trip(s): {S.canon_diff(S.canon(d), dict_canon(r)[1])[:2]}',
                         code + 'assert canon_unordered(canon(m.to_dict())) == canon_unordered(canon(r.to_dict())), (m.to_dict(), r.to_dict())\n')
            if n == 2:
                continue
            br = biv_behaviour(r, P)
            for k in BIV_KINDS:
                same = br[k] == bm[k]
                if n == 1:
                    real_equal[(path, k)] = same
                if not same:
                    viol.add(f'rt:biv:{case["fam"]}:{case["kind"]}:{path}:{k}',
                             f'{key}: {k} differs after {n} {path} round trip(s): original {S.show_call(bm[k])}; reconstructed {S.show_call(br[k])}',
                             code + BIV_CHECK[k] + TAIL)
    if ('dict', 1) in alphas:
        ar0 = S.alpha_b(chains['dict'][0], 'none')
        for k in BIV_KINDS:
            ea, eb = f'q_b {L(ar0)} {BK[k]}', f'q_b {L(am0)} {BK[k]}'
            E.add(ea)
            E.add(eb)

            def chk(k=k, ea=ea, eb=eb):
                pred, real = E.same(ea, eb), real_equal.get(('dict', k))
                ok = (not pred) or bool(real)
                ctx.obligation(f'corr:{key}:predict:{k}', ok, 'correspondence',
                               '' if ok else f'model predicts {k} is preserved, the real outputs differ')
            pend.later(chk)
            # the model also predicts WHETHER the query raises (and which class)
            if k not in ('sample', 'ppf'):      # ppf: the root finder may fail numerically (not modelled here; C08)
                bk = bm[k]
                exp = f'(ObsErr {S.ERR[bk[1]]})' if bk[0] == 'err' and bk[1] in S.ERR else None
                e1 = f'match q_b {L(am0)} {BK[k]} with ObsErr e => ObsErr e | _ => ObsNone end'
                pend.eq(f'corr:{key}:raises:{k}', e1, exp or 'ObsNone', f'{k} on the original: real {S.show_call(bk)[:60]}')


def run_biv_subclass_entry(ctx, pend, E, rng):
    """in-process: from_dict called on SUBCLASSES under the current class-cache state (history dependent)"""
    from copulas.bivariate import Bivariate, Clayton, Frank, Gumbel
    classes = {'Clayton': Clayton, 'Frank': Frank, 'Gumbel': Gumbel, 'Bivariate': Bivariate}
    names = ['Clayton', 'Frank', 'Gumbel', 'Bivariate']
    for i in range(10):
        cn = names[int(rng.integers(0, 4))]
        ct = ['CLAYTON', 'frank', 'Gumbel', 'INDEPENDENCE', 'nope'][int(rng.integers(0, 5))]
        d = {'copula_type': ct, 'theta': float(np.round(rng.uniform(1.1, 6), 3)), 'tau': 0.25}
        w0 = S.world_term()
        res, r = S.result_term(lambda: classes[cn].from_dict(d), S.alpha_b, 'binst')
        c = 'None' if cn == 'Bivariate' else f'(Some {cn})'
        pend.eq(f'corr:biv:entry:{i}:{cn}.from_dict({ct})', f'snd (from_dict_biv {w0} {c} {S.jv(d)})', res,
                f'{cn}.from_dict({d}) under class-cache state {w0}')
        pend.eq(f'corr:biv:entry:{i}:{cn}.from_dict({ct}):class-cache', f'{S.WORLD_SHOW} (fst (from_dict_biv {w0} {c} {S.jv(d)}))',
                S.world_show_literal(), 'class caches after the call')
        ctx.case(('biv-entry', i), {'entry': f'{cn}.from_dict', 'copula_type': ct, 'world': w0, 'real': res[:60]}, nontrivial=True)


FRESH = r"""
import json, sys, os, tempfile
INDEP_FIRST, STEPS = {indep}, {steps}
if INDEP_FIRST:
    import copulas.bivariate.independence
from copulas.bivariate import Bivariate, Clayton, Frank, Gumbel
def classes():
    c = {{'Bivariate': Bivariate, 'Clayton': Clayton, 'Frank': Frank, 'Gumbel': Gumbel}}
    ind = sys.modules.get('copulas.bivariate.independence')
    if ind: c['Independence'] = ind.Independence
    return c
def world():
    ind = sys.modules.get('copulas.bivariate.independence')
    own = ['_subclasses' in c.__dict__ for c in (Clayton, Frank, Gumbel)] + [bool(ind) and '_subclasses' in ind.Independence.__dict__]
    return [bool(Bivariate.__dict__.get('_subclasses')), own, bool(ind)]
out = []
for cn, ct, th, ta, via in STEPS:
    d = {{'copula_type': ct, 'theta': th, 'tau': ta}}
    try:
        cls = classes()[cn]
        if via == 'load':
            fd, p = tempfile.mkstemp(prefix='vf_c14_', dir='/tmp'); os.close(fd)
            try:
                with open(p, 'w') as f: json.dump(d, f)
                r = cls.load(p)
            finally:
                os.remove(p)
        else:
            r = cls.from_dict(d)
        res = ['ok', type(r).__name__, 'random_state' in r.__dict__, r.theta, r.tau]
    except Exception as e:
        res = ['err', type(e).__name__]
    out.append([res, world()])
print(json.dumps(out))
"""


def run_biv_fresh(ctx, pend, E, viol, rng, nseq):
    """class-cache histories in FRESH interpreters (what a user who only loads a model sees)"""
    seqs = [(False, [['Frank', 'FRANK', 2.5, 0.5, 'dict'], ['Bivariate', 'FRANK', 2.5, 0.5, 'dict'], ['Frank', 'FRANK', 2.5, 0.5, 'dict'],
                     ['Clayton', 'FRANK', 2.5, 0.5, 'dict']]),
            (False, [['Clayton', 'CLAYTON', 2.0, 0.5, 'load']]), (False, [['Gumbel', 'GUMBEL', 2.0, 0.5, 'dict']]),
            (False, [['Bivariate', 'INDEPENDENCE', None, None, 'load']]), (True, [['Bivariate', 'INDEPENDENCE', None, None, 'load']]),
            (True, [['Independence', 'INDEPENDENCE', None, None, 'dict'], ['Bivariate', 'INDEPENDENCE', None, None, 'dict']])]
    for _ in range(nseq):
        indep = bool(rng.random() < 0.3)
        names = ['Bivariate', 'Clayton', 'Frank', 'Gumbel'] + (['Independence'] if indep else [])
        steps = []
        for _ in range(int(rng.integers(1, 6))):
            steps.append([names[int(rng.integers(0, len(names)))], ['CLAYTON', 'frank', 'Gumbel', 'INDEPENDENCE', 'nope'][int(rng.integers(0, 5))],
                          float(np.round(rng.uniform(1.1, 6), 3)), 0.25, ['dict', 'load'][int(rng.integers(0, 2))]])
        seqs.append((indep, steps))

    def one(sq):
        indep, steps = sq
        try:
            rc, out, err = run_snippet(FRESH.format(indep=indep, steps=repr(steps)), timeout=300)
            return json.loads(out.strip().split('\n')[-1]) if rc == 0 else ('fail', err[-300:])
        except Exception as ex:       # noqa: BLE001
            return ('fail', f'{type(ex).__name__}: {ex}')
    with ThreadPoolExecutor(12) as ex:
        results = list(ex.map(one, seqs))
    own_names = ['Clayton', 'Frank', 'Gumbel', 'Independence']
    for si, ((indep, steps), res) in enumerate(zip(seqs, results)):
        name = f'corr:biv:fresh:{si}'
        if isinstance(res, tuple):
            ctx.obligation(name, False, 'correspondence', f'snippet failed: {res[1]}')
            continue
        w = f'(mkBW false [] {S._b(indep)})'
        lets, items, exp = [], [], []
        for k, (st, (r, wd)) in enumerate(zip(steps, res)):
            cn, ct, th, ta, via = st
            c = 'None' if cn == 'Bivariate' else f'(Some {cn})'
            jd = S.jv({'copula_type': ct, 'theta': th, 'tau': ta})
            prevw = w if k == 0 else f'(fst r{k - 1})'
            lets.append(f'let r{k} := from_dict_biv {prevw} {c} {jd} in')
            items.append(f'({S.WORLD_SHOW} (fst r{k}), snd r{k})')
            wl = f'({S._b(wd[0])}, [{"; ".join(S._b(x) for x in wd[1])}], {S._b(wd[2])})'
            if r[0] == 'ok':
                cls = 'None' if r[1] == 'Bivariate' else f'(Some {r[1]})'
                exp.append(f'({wl}, Ok (mkB {cls} {S.jv(r[3])} {S.jv(r[4])} None {S._b(r[2])}))')
            else:
                exp.append(f'({wl}, @Err binst {S.ERR.get(r[1], "Unmodelled")})')
        pend.eq(name, ' '.join(lets) + ' [' + '; '.join(items) + ']', '[' + '; '.join(exp) + ']',
                f'fresh interpreter (independence imported first: {indep}), steps {steps}, real {res}')
        ctx.case(('biv-fresh', si), {'independence_imported_first': indep, 'steps': steps, 'real': [r for r, _ in res]}, nontrivial=True)
        # the property on these histories: an entry point called with a dict of ITS OWN family must rebuild that family
        for st, (r, wd) in zip(steps, res):
            cn, ct, th, ta, via = st
            own = cn != 'Bivariate' and ct.upper() == cn.upper()
            generic = cn == 'Bivariate' and ct.upper() in ('CLAYTON', 'FRANK', 'GUMBEL', 'INDEPENDENCE')
            if not (own or generic) or (r[0] == 'ok' and r[1].upper() == ct.upper()):
                continue
            call = f'{cn}.load(path)' if via == 'load' else f'{cn}.from_dict(d)'
            pre = 'import copulas.bivariate.independence\n' if indep else ''
            body = (pre + f"d = {{'copula_type': {ct!r}, 'theta': {th!r}, 'tau': {ta!r}}}\n"
                    "path = os.path.join(tempfile.mkdtemp(prefix='vf_c14_', dir='/tmp'), 'c.json')\njson.dump(d, open(path, 'w'))\n"
                    f"try:\n    r = {call}\nfinally:\n    shutil.rmtree(os.path.dirname(path), ignore_errors=True)\n"
                    f"assert type(r).__name__.upper() == {ct.upper()!r}, type(r).__name__\n")
            first = st is steps[0]
            if own and r == ['err', 'AttributeError']:
                key = 'F24:subclass-from_dict-AttributeError' if first else 'F24:subclass-from_dict-AttributeError:after-other-calls'
                what = (f'{call} in a fresh interpreter raises AttributeError (Bivariate.__new__ returns None: the subclass caches its own '
                        f'empty _subclasses list)')
                if not first:
                    k = steps.index(st)
                    body = pre + ''.join(f"try:\n    {s[0]}.from_dict({{'copula_type': {s[1]!r}, 'theta': {s[2]!r}, 'tau': {s[3]!r}}})\nexcept Exception:\n    pass\n"
                                         for s in steps[:k]) + body[len(pre):]
            elif generic and ct.upper() == 'INDEPENDENCE' and not indep and r == ['err', 'AttributeError']:
                key, what = 'F-C14a:independence-from_dict-AttributeError', \
                    (f'{call} on an INDEPENDENCE dict raises AttributeError when copulas.bivariate.independence has not been imported '
                     f'(the package does not import it, so Bivariate.__new__ finds no subclass and returns None)')
            else:
                key, what = f'rt:biv:entry:{cn}:{ct.upper()}:{via}:{r[1] if r[0] == "err" else "class-" + r[1]}', f'{call}: {r}'
            viol.add(key, what, body, {'steps': steps, 'independence_imported_first': indep})


# =====================================================================================================
# Gaussian multivariate
# =====================================================================================================
GM_KINDS = ('pdf', 'cdf', 'sample')
GK = {'pdf': 'GPdf', 'cdf': 'GCdf', 'sample': 'GSample'}


def gm_behaviour(g, P, seed=7):
    out = {}
    out['pdf'] = S.call(g.probability_density, P.copy())
    out['cdf'] = S.call(lambda: (np.random.seed(0), g.cumulative_distribution(P.copy()))[1])
    g.set_random_state(seed)
    out['sample'] = S.call(lambda: np.concatenate([g.sample(4).to_numpy().ravel(), g.sample(2).to_numpy().ravel()]))
    return out


GM_CHECK = {
    'pdf': 'a, b = call(m.probability_density, P.copy()), call(r.probability_density, P.copy())\n',
    'cdf': ('a = call(lambda: (np.random.seed(0), m.cumulative_distribution(P.copy()))[1])\n'
            'b = call(lambda: (np.random.seed(0), r.cumulative_distribution(P.copy()))[1])\n'),
    'sample': ('m.set_random_state(7); r.set_random_state(7)\n'
               'a = call(lambda: np.concatenate([m.sample(4).to_numpy().ravel(), m.sample(2).to_numpy().ravel()]))\n'
               'b = call(lambda: np.concatenate([r.sample(4).to_numpy().ravel(), r.sample(2).to_numpy().ravel()]))\n'),
}


def frame(cols, data):
    return 'pd.DataFrame({' + ', '.join(f'{c!r}: {arr(data[:, j])}' for j, c in enumerate(cols)) + '})'


def gm_cases(rng, quick):
    out = []

    def table(n, const=None):
        z = rng.normal(size=(n, 3))
        z[:, 1] = 0.7 * z[:, 0] + 0.5 * z[:, 1]
        z[:, 2] = np.abs(z[:, 2]) + 0.3 + 0.2 * np.abs(z[:, 0])
        z = np.round(z, 4)
        if const is not None:
            z = np.column_stack([z, np.full(n, const)])
        return z

    def add(tag, ctor, T, cols, opts, known=None):
        P = np.vstack([T[:3], T[:2] * 1.1 + 0.05])
        if cols is None:
            src = f'T = {arr(T)}\nP = {arr(P)}\nm = {ctor}\nm.fit(T)\nP = pd.DataFrame(P)\n'
        else:
            src = f'T = {frame(cols, T)}\nP = {frame(cols, P)}\nm = {ctor}\nm.fit(T)\n'
        out.append({'key': f'gm:{tag}', 'tag': tag, 'opts': opts, 'src': src, 'known': known, 'shape': list(T.shape)})
    n = int(rng.integers(10, 16))
    T = table(n)
    add('default-wrapper', 'GaussianMultivariate()', T, ['a', 'b', 'c'], {})
    add('class', 'GaussianMultivariate(distribution=GaussianUnivariate, random_state=7)', T, ['a', 'b', 'c'], {'distribution': 'class', 'random_state': 7})
    add('fqn', "GaussianMultivariate('copulas.univariate.gamma.GammaUnivariate')", np.abs(T) + 0.2, ['a', 'b', 'c'], {'distribution': 'fqn'})
    add('dict', 'GaussianMultivariate(distribution={"a": GaussianKDE, "c": BetaUnivariate, "b": UniformUnivariate})', T, ['a', 'b', 'c'],
        {'distribution': 'dict'})
    add('constant-column', 'GaussianMultivariate(distribution=GaussianUnivariate)', table(n, const=2.5), ['a', 'b', 'c', 'k'],
        {'distribution': 'class'})
    add('int-columns', 'GaussianMultivariate(distribution=TruncatedGaussian)', T, None, {'distribution': 'class'})
    add('kde-instance-bw', 'GaussianMultivariate(distribution=GaussianKDE(bw_method=0.3))', T, ['a', 'b', 'c'], {'distribution': 'instance'},
        known='F15:kde-bw_method-dropped:gaussian-multivariate')
    add('studentt-constant-column', 'GaussianMultivariate(distribution=StudentTUnivariate)', table(n, const=3.0), ['a', 'b', 'c', 'k'],
        {'distribution': 'class'}, known='F25:studentt-constant-roundtrip:gaussian-multivariate')
    if not quick:
        for i in range(14):
            fam = S.FAM_ORDER[int(rng.integers(0, 8))]
            add(f'random-{i}-{fam}', f'GaussianMultivariate(distribution={fam})', np.abs(table(int(rng.integers(8, 25)))) + 0.2, ['a', 'b', 'c'],
                {'distribution': 'class'})
    return out


def gm_key(case, path, what, m, r):
    if case['known'] and path in ('dict', 'json') and what in GM_KINDS and r is not None:
        us_m = [u._instance if type(u).__name__ == 'Univariate' else u for u in m.univariates]
        if case['tag'] == 'kde-instance-bw' and all(getattr(u, 'bw_method', 0) is None for u in r.univariates) \
                and all(u.bw_method == 0.3 for u in us_m):
            return case['known']
        if case['tag'] == 'studentt-constant-column' and r.univariates[-1]._constant_value != us_m[-1]._constant_value \
                and all(a.to_dict() == b.to_dict() for a, b in zip(us_m, r.univariates)):
            return case['known']
    if path == 'file' and what == 'raises' and case['tag'] == 'kde-instance-bw':
        return 'F-C14d:kde-scalar-bw_method-save-raises:gaussian-multivariate'
    return f'rt:gm:{case["tag"]}:{path}:{what}'


def run_gm(ctx, pend, E, case, viol, tmpdir):
    from copulas.multivariate import Multivariate
    key = case['key']
    E.group, L = key, E.lit
    env = run_src(case['src'])
    m, P = env['m'], env['P']
    import copy
    m0 = copy.deepcopy(m)
    am, why = safe_alpha(S.alpha_g, m)
    if am is None:
        ctx.obligation(f'corr:{key}:abstraction', False, 'correspondence', why)
        return
    am0 = S.alpha_g(m, 'none')
    dres, d = S.result_term(m.to_dict, S.jv, 'jv')
    pend.eq(f'corr:{key}:to_dict', f'to_dict_gm {L(am)}', L(dres), 'GaussianMultivariate.to_dict')
    ctx.case(key, {'options': case['opts'], 'table': case['shape'], 'univariates': [u['type'].rsplit('.', 1)[1] for u in d['univariates']]},
             nontrivial=True)
    try:
        d2 = json.loads(json.dumps(d))
        json_ok, why = S.jv(d2) == S.jv(d), 'value changed'
    except Exception as ex:       # noqa: BLE001
        json_ok, why = False, f'{type(ex).__name__}: {ex}'
    pend.eq(f'corr:{key}:json_safe', f'json_safe {L(S.jv(d))}', 'true', 'model: the dict is JSON-safe')
    if not json_ok:
        viol.add(f'rt:gm:{case["tag"]}:json', f'{key}: the dict does not survive JSON text ({why})',
                 case['src'] + 'd = m.to_dict(); assert canon(json.loads(json.dumps(d))) == canon(d)\n')
    chains, alphas = {}, {}
    for path in ('dict', 'json', 'file'):
        prev, chain = m, []
        for n in (1, 2, 3):
            try:
                r = apply_path(prev, path, Multivariate, tmpdir)
            except Exception as ex:       # noqa: BLE001
                chain.append(ex)
                viol.add(gm_key(case, path, 'raises', m, None), f'{key}: {path} round trip #{n} raised {type(ex).__name__}: {ex}',
                         case['src'] + path_code(path, n, 'Multivariate'))
                break
            ar, why = safe_alpha(S.alpha_g, r)
            if ar is None:
                ctx.obligation(f'corr:{key}:{path}:{n}:abstraction', False, 'correspondence', why)
                break
            alphas[(path, n)] = ar
            if path == 'file':
                ctx.obligation(f'corr:{key}:pickle-is-a-copy:{n}', ar == am, 'correspondence',
                               '' if ar == am else f'loaded: {ar[:500]}\noriginal: {am[:500]}')
            elif n == 1:
                pend.eq(f'corr:{key}:{path}:from_dict', f'from_dict_multivariate {L(S.jv(d))}', f'(Ok {L(ar)})',
                        f'state rebuilt by Multivariate.from_dict ({path})')
                pend.eq(f'corr:{key}:{path}:to_dict-after', f'to_dict_gm {L(ar)}', L(dres), 'to_dict of the rebuilt model')
            else:
                ctx.obligation(f'corr:{key}:{path}:idempotent:{n}', ar == alphas[(path, 1)], 'correspondence', 'round trip #n differs from #1')
            chain.append(r)
            prev = r
        chains[path] = chain
    bm = gm_behaviour(m, P)
    b0 = gm_behaviour(m0, P)
    for k in GM_KINDS:
        if b0[k] != bm[k]:
            viol.add(f'to_dict-perturbs:gm:{case["tag"]}:{k}',
                     f'{key}: {k} of the ORIGINAL changes once it has been serialised: before {S.show_call(b0[k])}; after {S.show_call(bm[k])}',
                     case['src'] + PERTURB + GM_CHECK[k] + TAIL)
    dc = S.canon_unordered(S.canon(d))
    real_equal = {}
    for path, chain in chains.items():
        for n, r in enumerate(chain, 1):
            if isinstance(r, Exception):
                continue
            code = case['src'] + path_code(path, n, 'Multivariate')
            if type(r).__name__ != 'GaussianMultivariate' or not r.fitted:
                viol.add(gm_key(case, path, 'class', m, r), f'{key}: {path} round trip gives {type(r).__name__} fitted={r.fitted}',
                         code + 'assert type(r).__name__ == "GaussianMultivariate" and r.fitted\n')
            if dict_canon(r)[0] != dc:
                viol.add(gm_key(case, path, 'to_dict', m, r),
                         f'{key}: to_dict() differs after {n} {path} round trip(s): {S.canon_diff(S.canon(d), dict_canon(r)[1])[:2]}',
                         code + 'assert canon_unordered(canon(m.to_dict())) == canon_unordered(canon(r.to_dict()))\n')
            if n == 2:
                continue
            br = gm_behaviour(r, P)
            for k in GM_KINDS:
                same = br[k] == bm[k]
                if n == 1:
                    real_equal[(path, k)] = same
                if not same:
                    viol.add(gm_key(case, path, k, m, r),
                             f'{key}: {k} differs after {n} {path} round trip(s): original {S.show_call(bm[k])}; reconstructed {S.show_call(br[k])}',
                             code + GM_CHECK[k] + TAIL)
    if ('dict', 1) in alphas:
        ar0 = S.alpha_g(chains['dict'][0], 'none')
        for k in GM_KINDS:
            ea, eb = f'q_g {L(ar0)} {GK[k]}', f'q_g {L(am0)} {GK[k]}'
            E.add(ea)
            E.add(eb)

            def chk(k=k, ea=ea, eb=eb):
                pred, real = E.same(ea, eb), real_equal.get(('dict', k))
                ok = (not pred) or bool(real)
                ctx.obligation(f'corr:{key}:predict:{k}', ok, 'correspondence',
                               '' if ok else f'model predicts {k} is preserved, the real outputs differ')
            pend.later(chk)


# =====================================================================================================
# vines
# =====================================================================================================
def vine_behaviour(v, Ms, seed=7):
    out = {}
    with S.nan_empty():      # cells never written are NaN, not memory garbage (C17's F8/F10 are not this property's business)
        for i, M in enumerate(Ms):
            out[f'likelihood{i}'] = S.call(v.get_likelihood, M.copy())
        v.set_random_state(seed)
        out['sample'] = S.call(lambda: np.asarray(v.sample(3)))
    return out


VINE_CHECK = {
    'likelihood0': ('M = m.u_matrix[0:1].repeat(m.n_var, 0)\nwith nan_empty():\n'
                    '    a, b = call(m.get_likelihood, M.copy()), call(r.get_likelihood, M.copy())\n'),
    'likelihood1': ('M = m.u_matrix[1:2].repeat(m.n_var, 0)\nwith nan_empty():\n'
                    '    a, b = call(m.get_likelihood, M.copy()), call(r.get_likelihood, M.copy())\n'),
    'sample': ('m.set_random_state(7); r.set_random_state(7)\nwith nan_empty():\n'
               '    a, b = call(lambda: np.asarray(m.sample(3))), call(lambda: np.asarray(r.sample(3)))\n'),
}


def vine_cases(rng, quick):
    out = []
    shapes = [(12, 4), (10, 3)] if quick else [(12, 4), (10, 3), (20, 5), (25, 4), (12, 3), (16, 5), (30, 3), (14, 4)]
    for n, dd in shapes:
        z = rng.normal(size=(n, dd))
        for j in range(1, dd):
            z[:, j] = (0.8 - 0.3 * j) * z[:, j - 1] + 0.6 * z[:, j]
        z = np.round(z, 4)
        cols = list('abcde')[:dd]
        for vt in ('center', 'direct', 'regular'):
            seed = [None, 5][int(rng.integers(0, 2))]
            ctor = f'VineCopula({vt!r}' + (f', random_state={seed})' if seed is not None else ')')
            out.append({'key': f'vine:{vt}:n={n}:d={dd}', 'vt': vt, 'seed': seed, 'shape': [n, dd],
                        'src': f'T = {frame(cols, z)}\nm = {ctor}\nm.fit(T)\n'})
    return out


def run_vine(ctx, pend, E, case, viol, tmpdir):
    from copulas.multivariate import Multivariate, VineCopula
    key = case['key']
    E.group, L = key, E.lit
    try:
        env = run_src(case['src'])
    except Exception as ex:       # noqa: BLE001 - vine fitting has its own properties (C16, C17)
        ctx.extra.setdefault('vine_fit_failed', []).append(f'{key}: {type(ex).__name__}: {str(ex)[:80]}')
        return
    m = env['m']
    am, why = safe_alpha(S.alpha_v, m)
    if am is None:
        ctx.obligation(f'corr:{key}:abstraction', False, 'correspondence', why)
        return
    dres, d = S.result_term(m.to_dict, S.pv_dict, 'pv')
    pend.eq(f'corr:{key}:to_dict', f'vine_to_dict {L(am)}', L(dres), 'VineCopula.to_dict')
    ctx.case(key, {'vine_type': case['vt'], 'table': case['shape'], 'seed': case['seed'], 'trees': len(m.trees),
                   'edges': [len(t.edges) for t in m.trees]}, nontrivial=True)
    # JSON: must NOT be possible (sets, Enum members) - the model says so
    try:
        json.dumps(d)
        json_raises = None
    except Exception as ex:       # noqa: BLE001
        json_raises = type(ex).__name__
    pend.eq(f'corr:{key}:not-json_safe', f'pv_json_safe {L(S.pv_dict(d))}', 'true' if json_raises is None else 'false',
            f'json.dumps(vine dict): {json_raises or "succeeds"}')
    # generic entry point
    gres, g = S.result_term(lambda: Multivariate.from_dict(d), S.alpha_v, 'vine')
    pend.eq(f'corr:{key}:Multivariate.from_dict', f'multivariate_from_dict_vine {L(S.pv_dict(d))}', gres, 'generic entry point on a vine dict')
    if isinstance(g, Exception):
        k = f'rt:vine:{case["vt"]}:generic-dispatch:{type(g).__name__}'       # (was finding F38 until the fix: VineCopula() without vine_type)
        viol.add(k, f'Multivariate.from_dict(vine.to_dict()) raises {type(g).__name__}: {g}',
                 case['src'] + 'r = Multivariate.from_dict(m.to_dict())\nassert type(r).__name__ == "VineCopula"\n')
    Ms = [m.u_matrix[i:i + 1].repeat(m.n_var, 0) for i in range(2)]
    chains, alphas = {}, {}
    for path, entry in (('dict', VineCopula), ('file', VineCopula), ('file-generic', Multivariate)):
        prev, chain = m, []
        for n in (1, 2, 3):
            try:
                r = apply_path(prev, path.split('-')[0], entry, tmpdir)
            except Exception as ex:       # noqa: BLE001
                chain.append(ex)
                viol.add(f'rt:vine:{case["vt"]}:{path}:raises', f'{key}: {path} round trip #{n} raised {type(ex).__name__}: {ex}',
                         case['src'] + path_code(path.split('-')[0], n, entry.__name__))
                break
            ar, why = safe_alpha(S.alpha_v, r)
            if ar is None:
                ctx.obligation(f'corr:{key}:{path}:{n}:abstraction', False, 'correspondence', why)
                break
            alphas[(path, n)] = ar
            if path != 'dict':
                ctx.obligation(f'corr:{key}:{path}:pickle-is-a-copy:{n}', ar == am, 'correspondence',
                               '' if ar == am else 'abstraction of the loaded vine differs from the saved one')
            elif n == 1:
                pend.eq(f'corr:{key}:dict:from_dict', f'vine_of_dict {L(S.pv_dict(d))}', f'(Ok {L(ar)})', 'state rebuilt by VineCopula.from_dict')
                pend.eq(f'corr:{key}:dict:to_dict-after', f'vine_to_dict {L(ar)}', L(dres), 'to_dict of the rebuilt vine')
                # re-linking, on the real objects
                links = all(t.previous_tree is r.trees[i - 1] for i, t in enumerate(r.trees) if i > 0) and isinstance(r.trees[0].previous_tree, np.ndarray)
                ctx.obligation(f'corr:{key}:dict:relinked', links, 'correspondence', 'previous_tree of tree k is not the object at k-1')
                if not links:
                    viol.add(f'rt:vine:{case["vt"]}:dict:relink',
                             f'{key}: after VineCopula.from_dict the previous_tree of a tree is not the tree rebuilt before it '
                             f'({[type(t.previous_tree).__name__ for t in r.trees]})',
                             case['src'] + path_code('dict', 1, 'VineCopula') +
                             'assert isinstance(r.trees[0].previous_tree, np.ndarray)\n'
                             'assert all(t.previous_tree is r.trees[i] for i, t in enumerate(r.trees[1:])), [type(t.previous_tree).__name__ for t in r.trees]\n')
            else:
                ctx.obligation(f'corr:{key}:dict:idempotent:{n}', ar == alphas[('dict', 1)], 'correspondence', 'round trip #n differs from #1')
            chain.append(r)
            prev = r
        chains[path] = chain
    bm = vine_behaviour(m, Ms)
    dc = S.canon_unordered(S.canon(d))
    for path, chain in chains.items():
        for n, r in enumerate(chain, 1):
            if isinstance(r, Exception):
                continue
            entry = 'Multivariate' if path == 'file-generic' else 'VineCopula'
            code = case['src'] + path_code(path.split('-')[0], n, entry)
            if type(r).__name__ != 'VineCopula' or not r.fitted or r.vine_type != m.vine_type:
                viol.add(f'rt:vine:{case["vt"]}:{path}:class', f'{key}: {path} round trip gives {type(r).__name__} fitted={r.fitted}',
                         code + 'assert type(r).__name__ == "VineCopula" and r.fitted and r.vine_type == m.vine_type\n')
            if dict_canon(r)[0] != dc:
                viol.add(f'rt:vine:{case["vt"]}:{path}:to_dict',
                         f'{key}: to_dict() differs after {n} {path} round trip(s): {S.canon_diff(S.canon(d), dict_canon(r)[1])[:2]}',
                         code + 'assert canon_unordered(canon(m.to_dict())) == canon_unordered(canon(r.to_dict()))\n')
            if n == 2:
                continue
            br = vine_behaviour(r, Ms)
            for k in bm:
                if br[k] != bm[k]:
                    viol.add(f'rt:vine:{case["vt"]}:{path}:{k}',
                             f'{key}: {k} differs after {n} {path} round trip(s): original {S.show_call(bm[k])}; reconstructed {S.show_call(br[k])}',
                             code + VINE_CHECK[k] + TAIL)


def run_unfitted_and_dispatch(ctx, pend, E, viol, tmpdir, rng):
    """unfitted models, generic entry points, malformed / edge-parameter dicts"""
    import pickle
    from copulas import univariate as U
    from copulas.multivariate import GaussianMultivariate, Multivariate, VineCopula
    from copulas.multivariate.tree import Tree, get_tree
    # --- unfitted: univariate families, wrapper, Gaussian multivariate raise NotFittedError; pickle keeps them unfitted ---
    for cname in S.FAM_ORDER + ['Univariate']:
        m = getattr(U, cname)()
        res, ex = S.result_term(m.to_dict, S.jv, 'jv')
        pend.eq(f'corr:unfitted:{cname}:to_dict', f'to_dict_u {S.alpha_u(m)}', res, 'to_dict of an unfitted model')
        ok = isinstance(ex, Exception) and type(ex).__name__ == 'NotFittedError'
        if not ok:
            viol.add(f'unfitted:{cname}:to_dict', f'{cname}().to_dict() on an unfitted model: {res}',
                     f'from copulas.errors import NotFittedError\ntry:\n    {cname}().to_dict()\nexcept NotFittedError:\n    pass\nelse:\n    raise SystemExit(1)\n')
        p = os.path.join(tmpdir, 'u.pkl')
        m.save(p)
        r = U.Univariate.load(p)
        os.remove(p)
        same = S.alpha_u(r) == S.alpha_u(m) and not r.fitted
        ctx.obligation(f'corr:unfitted:{cname}:pickle', same, 'correspondence', 'unfitted model does not load as the same unfitted model')
        q = S.call(r.cumulative_distribution, np.array([0.5]))
        if q != ('err', 'NotFittedError') or not same:
            viol.add(f'unfitted:{cname}:pickle', f'unfitted {cname} after save/load: fitted={r.fitted}, cdf {S.show_call(q)}',
                     f'm = {cname}()\n' + path_code('file', 1, 'Univariate') + 'assert not r.fitted\n')
        ctx.case(('unfitted', cname), {'class': cname, 'to_dict': res}, nontrivial=True)
    g = GaussianMultivariate()
    res, ex = S.result_term(g.to_dict, S.jv, 'jv')
    pend.eq('corr:unfitted:GaussianMultivariate:to_dict', f'to_dict_gm {S.alpha_g(g)}', res, 'to_dict of an unfitted model')
    if type(ex).__name__ != 'NotFittedError':
        viol.add('unfitted:GaussianMultivariate:to_dict', f'GaussianMultivariate().to_dict(): {res}', 'GaussianMultivariate().to_dict()\n')
    # --- unfitted vine / tree: round-trip to unfitted ---
    for vt in ('center', 'direct', 'regular'):
        v = VineCopula(vt, random_state=5)
        dres, d = S.result_term(v.to_dict, S.pv_dict, 'pv')
        pend.eq(f'corr:unfitted:vine:{vt}:to_dict', f'vine_to_dict {S.alpha_v(v)}', dres, 'unfitted vine dict')
        r = VineCopula.from_dict(d)
        pend.eq(f'corr:unfitted:vine:{vt}:from_dict', f'vine_of_dict {S.pv_dict(d)}', f'(Ok {S.alpha_v(r)})', 'unfitted vine rebuilt')
        if r.fitted or r.vine_type != vt or S.canon(r.to_dict()) != S.canon(d):
            viol.add(f'unfitted:vine:{vt}', f'unfitted VineCopula({vt!r}) round-trips to fitted={r.fitted}, dict {r.to_dict()}',
                     f'm = VineCopula({vt!r})\nr = VineCopula.from_dict(m.to_dict())\nassert not r.fitted and canon(r.to_dict()) == canon(m.to_dict())\n')
        t = get_tree(vt)
        tres, td = S.result_term(t.to_dict, S.pv_dict, 'pv')
        pend.eq(f'corr:unfitted:tree:{vt}:to_dict', f'tree_to_dict {S.alpha_tree(t, [])}', tres, 'unfitted tree dict')
        rt = Tree.from_dict(td)
        pend.eq(f'corr:unfitted:tree:{vt}:from_dict', f'tree_from_dict {S.pv_dict(td)} PrevNone', f'(Ok {S.alpha_tree(rt, [])})', 'unfitted tree rebuilt')
        if rt.fitted or type(rt) is not type(t):
            viol.add(f'unfitted:tree:{vt}', f'unfitted {type(t).__name__} round-trips to {type(rt).__name__} fitted={rt.fitted}',
                     f't = get_tree({vt!r})\nr = Tree.from_dict(t.to_dict())\nassert not r.fitted and type(r) is type(t)\n')
        ctx.case(('unfitted-vine', vt), {'vine_type': vt, 'dict': str(d)}, nontrivial=True)
    # --- dispatch of Univariate.from_dict (any subclass entry point runs the same code), edge-parameter dicts ---
    nan, inf = float('nan'), float('inf')
    dicts = [
        ('GaussianUnivariate', {'loc': 1.5, 'scale': 0}), ('GaussianUnivariate', {'loc': -2.0, 'scale': -0.0}),
        ('GaussianUnivariate', {'loc': nan, 'scale': 1.0}), ('GaussianUnivariate', {'loc': 0.25, 'scale': 5e-324}),
        ('GaussianUnivariate', {'scale': 1.0}), ('GaussianUnivariate', {'loc': 1.0}), ('UniformUnivariate', {'loc': 2.0, 'scale': inf}),
        ('BetaUnivariate', {'loc': 0.0, 'scale': 0.0, 'a': 2.0, 'b': 3.0}), ('BetaUnivariate', {'a': 2.0, 'b': 3.0, 'loc': 1.0, 'scale': 2.0}),
        ('GammaUnivariate', {'a': 2.0, 'loc': 0.0, 'scale': 1.5}), ('StudentTUnivariate', {'df': 4.0, 'loc': 1.0, 'scale': 0}),
        ('LogLaplace', {'c': 2.0, 'loc': 0.0, 'scale': 1.0}), ('TruncatedGaussian', {'a': -1.0, 'b': -1.0, 'loc': 0.0, 'scale': 1.0}),
        ('TruncatedGaussian', {'a': -inf, 'b': 2.0, 'loc': 0.0, 'scale': 1.0}), ('TruncatedGaussian', {'a': -1.0, 'loc': 0.0, 'scale': 1.0}),
        ('GaussianKDE', {'dataset': [1.0, 2.0, 4.0]}), ('GaussianKDE', {'dataset': [[1.0, 2.0, 4.0, 8.0]]}), ('GaussianKDE', {'dataset': [5.0]}),
        ('GaussianKDE', {'dataset': [2.0, 2.0, 2.0]}), ('GaussianKDE', {'dataset': [[3.0, 3.0]]}), ('GaussianKDE', {'dataset': [1.0, 2.0]}),
        ('GaussianKDE', {}),
    ]
    entries = [U.Univariate, U.GaussianUnivariate, U.GaussianKDE, U.BetaUnivariate]
    for i, (cname, params) in enumerate(dicts):
        for tname in (getattr(U, cname).__module__ + '.' + cname, 'copulas.univariate.' + cname):
            d = dict(params)
            d['type'] = tname
            entry = entries[i % len(entries)]
            res, r = S.result_term(lambda: entry.from_dict(d), S.alpha_u, 'uobj')
            pend.eq(f'corr:dispatch:uni:{i}:{tname.rsplit(".", 2)[-2]}', f'from_dict_u {S.jv(d)}', res, f'{entry.__name__}.from_dict({d})')
            ctx.case(('dispatch-uni', i, tname), {'entry': entry.__name__ + '.from_dict', 'dict': str(d), 'real': res[:80]}, nontrivial=True)
            if not isinstance(r, Exception):
                if type(r).__name__ != cname or not r.fitted:
                    viol.add(f'dispatch:uni:{cname}', f'{entry.__name__}.from_dict(type={tname}) built a {type(r).__name__} fitted={r.fitted}',
                             f'r = {entry.__name__}.from_dict({d!r})\nassert type(r).__name__ == {cname!r} and r.fitted\n'.replace('nan', "float('nan')").replace('inf', "float('inf')"))
                pend.eq(f'corr:dispatch:uni:{i}:{tname.rsplit(".", 2)[-2]}:to_dict', f'to_dict_u {S.alpha_u(r)}', f'(Ok {S.jv({**params, "type": getattr(U, cname).__module__ + "." + cname})})',
                        'to_dict of the rebuilt object (canonical FQN)')
    bad = [{'type': 'Nope'}, {'type': 'copulas.nomodule.Nope'}, {'type': 'copulas.univariate.gaussian.Nope'}, {'loc': 1.0, 'scale': 1.0},
           {'type': 'copulas.univariate.base.Univariate', 'loc': 1.0}, {'type': 'copulas.multivariate.gaussian.GaussianMultivariate'},
           {'type': 'copulas.bivariate.clayton.Clayton', 'theta': 1.0}]
    for i, d in enumerate(bad):
        res, r = S.result_term(lambda: U.Univariate.from_dict(d), S.alpha_u, 'uobj')
        pend.eq(f'corr:dispatch:uni:malformed:{i}', f'from_dict_u {S.jv(d)}', res, f'Univariate.from_dict({d})')
        ctx.case(('dispatch-uni-bad', i), {'dict': str(d), 'real': res}, nontrivial=True)
    badm = [{'type': 'copulas.multivariate.gaussian.GaussianMultivariate'}, {'columns': [], 'univariates': [], 'correlation': []},
            {'type': 'copulas.multivariate.gaussian.GaussianMultivariate', 'columns': ['a'], 'univariates': [{'type': 'copulas.univariate.gaussian.GaussianUnivariate', 'loc': 0.0, 'scale': 1.0}], 'correlation': [[1.0]]},
            {'type': 'copulas.multivariate.GaussianMultivariate', 'columns': ['a'], 'univariates': [{'loc': 0.0, 'scale': 1.0}], 'correlation': [[1.0]]}]
    for i, d in enumerate(badm):
        res, r = S.result_term(lambda: Multivariate.from_dict(d), S.alpha_g, 'ginst')
        pend.eq(f'corr:dispatch:gm:{i}', f'from_dict_multivariate {S.jv(d)}', res, f'Multivariate.from_dict({d})')
        ctx.case(('dispatch-gm', i), {'dict': str(d)[:200], 'real': res[:80]}, nontrivial=True)


# =====================================================================================================
# driver
# =====================================================================================================
def ensure_vineserial(ctx):
    """Spec/VineSerial.v is a static library file; until it is listed in _CoqProject compile it by hand"""
    import subprocess
    v, vo = os.path.join(COQ, 'Spec', 'VineSerial.v'), os.path.join(COQ, 'Spec', 'VineSerial.vo')
    dep = os.path.join(COQ, 'Spec', 'LifecycleProofs.vo')
    if os.path.exists(vo) and os.path.getmtime(vo) >= os.path.getmtime(v) and os.path.getmtime(vo) >= os.path.getmtime(dep):
        return True
    import fcntl
    lock = open(os.path.join(os.path.dirname(ctx.build), '.static.lock'), 'w')
    fcntl.flock(lock, fcntl.LOCK_EX)
    try:
        r = subprocess.run(['timeout', '600', 'coqc', '-q', '-w', '-all', '-Q', COQ, 'Cop', 'Spec/VineSerial.v'], cwd=COQ,
                           stdout=subprocess.PIPE, stderr=subprocess.STDOUT, text=True)
    finally:
        fcntl.flock(lock, fcntl.LOCK_UN)
    if r.returncode != 0:
        ctx.obligation('static-library-build:Spec/VineSerial.v', False, 'proof', r.stdout[-1500:])
    return r.returncode == 0


def _run(ctx):
    quick = ctx.tier == 'quick'
    F, problems = S.serial_facts()
    bad = dict(problems)
    for name in ['univariate-base'] + [f'univariate-{c}' for c in S.FAM_ORDER] + ['bivariate', 'multivariate-gaussian', 'multivariate-vine']:
        ctx.obligation(f'translate:{name}', name not in bad, 'translation', bad.get(name, ''))
    ctx.extra['key_facts'] = {k: v for k, v in F.items() if isinstance(v, (list, bool))}
    compiled = False
    ctx.extra['props_compiled'] = False
    if not problems and ensure_vineserial(ctx):
        ctx.write('Gen_serialfacts.v', S.gen_facts_coq(F))
        ctx.copy_src('Props/C14.v')
        compiled = ctx.compile(['Gen_serialfacts.v', 'C14.v'])
        ctx.extra['props_compiled'] = compiled
    from .. import bivlifegen
    bivlifegen.hook(ctx)     # Gen_bivlife.v + Props/C14_biv.v (C14_bridge_*): never stops the rest of the check
    from .. import vineserialgen
    vineserialgen.hook(ctx)  # Gen_vineserial.v + Props/C14_vine.v (vine serialisation generated from the AST): never stops the rest
    from .. import serialrestgen
    serialrestgen.hook(ctx)  # Gen_serialrest.v + Props/C14_rest.v (Edge.from_dict, VineCopula.to_dict / from_dict, save / load pairs): never stops the rest
    E = Evaluator()
    pend = Pending(ctx, E)
    viol = Viols(ctx)
    rng = np.random.default_rng(ctx.seed + 14)
    saved = np.random.get_state()
    tmpdir = tempfile.mkdtemp(prefix='vf_c14_', dir='/tmp')
    try:
        import time
        with S.record_kde():
            t0 = time.time()
            for case in uni_cases(rng, quick):
                try:
                    run_uni(ctx, pend, E, case, viol, tmpdir)
                except Exception:       # noqa: BLE001
                    ctx.obligation(f'harness:{case["key"]}', False, 'harness', traceback.format_exc()[-1500:])
            ctx.log(f'phase before biv_cases: {time.time() - t0:.1f}s')
            for case in biv_cases(rng, quick):
                try:
                    run_biv(ctx, pend, E, case, viol, tmpdir)
                except Exception:       # noqa: BLE001
                    ctx.obligation(f'harness:{case["key"]}', False, 'harness', traceback.format_exc()[-1500:])
            run_biv_subclass_entry(ctx, pend, E, rng)
            ctx.log(f'phase before gm_cases: {time.time() - t0:.1f}s')
            for case in gm_cases(rng, quick):
                try:
                    run_gm(ctx, pend, E, case, viol, tmpdir)
                except Exception:       # noqa: BLE001
                    ctx.obligation(f'harness:{case["key"]}', False, 'harness', traceback.format_exc()[-1500:])
            ctx.log(f'phase before vine_cases: {time.time() - t0:.1f}s')
            for case in vine_cases(rng, quick):
                try:
                    run_vine(ctx, pend, E, case, viol, tmpdir)
                except Exception:       # noqa: BLE001
                    ctx.obligation(f'harness:{case["key"]}', False, 'harness', traceback.format_exc()[-1500:])
            ctx.log(f'phase before unfitted: {time.time() - t0:.1f}s')
            try:
                run_unfitted_and_dispatch(ctx, pend, E, viol, tmpdir, rng)
            except Exception:       # noqa: BLE001
                ctx.obligation('harness:unfitted-and-dispatch', False, 'harness', traceback.format_exc()[-1500:])
            run_biv_fresh(ctx, pend, E, viol, rng, 10 if quick else 150)
    finally:
        np.random.set_state(saved)
        shutil.rmtree(tmpdir, ignore_errors=True)
    import time
    t0 = time.time()
    E.run(ctx)
    ctx.log(f'coq evaluation of {len(E.exprs)} expressions: {time.time() - t0:.1f}s')
    pend.resolve()
    t0 = time.time()
    viol.validate()
    ctx.log(f'repro validation: {time.time() - t0:.1f}s')
    ctx.extra['coq_expressions_evaluated'] = len(E.exprs)
    ctx.extra['coq_equalities_checked'] = len(E.goals)
    ctx.extra['violations_by_key'] = sorted(viol.seen)
    ctx.rule('univariate: 8 families x {non-constant data drawn for the family, constant data (3.0, 0.0, -2.5, 1000000.3, random), seeded} + '
             'TruncatedGaussian bounds (keyword/positional/constant), GaussianKDE bw_method (scalar, name) / weights / sample_size / 2-point data, '
             'the selecting wrapper (default, parametric, bounded, candidate classes, candidate name + instance), histories (fit constant then data), '
             'np.std underflow; each through Univariate.from_dict(to_dict), JSON text, pickle file save/load, repeated n = 1..3')
    ctx.rule('bivariate: 3 families x {fit on dependent uniforms, seeded} + set parameters incl. theta = inf / 0 / nan / solver bound, tau = nan / +-1, '
             'unfitted; through Bivariate.from_dict, JSON text, JSON file save/load, n = 1..3; subclass entry points under the real class-cache '
             'state; class-cache histories (1..5 from_dict/load calls on Bivariate/Clayton/Frank/Gumbel/Independence) in FRESH interpreters')
    ctx.rule('gaussian multivariate: default wrapper, family class, FQN, per-column dict, constant column, integer column names, KDE instance with '
             'bw_method, StudentT with a constant column; through Multivariate.from_dict, JSON text, pickle files, n = 1..3')
    ctx.rule('vines: center/direct/regular on small correlated tables through VineCopula.from_dict, VineCopula.load, Multivariate.load, '
             'Multivariate.from_dict (generic dispatch), n = 1..3; payload arrays (edge U, u-matrix, tau matrices) enter the model as tokens '
             'injective on (shape, float64 bits); np.empty is NaN-filled during get_likelihood/sample so that unwritten cells (C17) are deterministic')
    ctx.rule('every real dict is compared (Coq kernel, vm_compute + reflexivity) with to_dict_* of the abstraction of the real object (exact '
             'rationals of the floats, insertion order kept), every rebuilt object with from_dict_* of that dict; the model prediction '
             '"behaviour kind k is preserved" must imply bitwise equality of the real outputs on probe inputs')
    ctx.trusted += ['Model.Lifecycle / Spec.VineSerial are hand-written transcriptions of to_dict/from_dict/_set_params/get_instance/Bivariate.__new__; '
                    'tied to the source by the AST-generated key facts and by the state correspondence on real round trips',
                    'abstraction functions of tools/vf/serial.py (real object -> model state), the recording subclass of scipy.stats.gaussian_kde',
                    'pickle and json are oracles: pickle = deep copy of the attribute record (checked per case), json = identity on json_safe values (checked per case)',
                    'bitwise comparison of outputs on finitely many probe inputs stands for "identical on any input" in the oracle; the theorems give it for the behaviour selector']
    ctx.assumptions += ['scipy distribution methods are deterministic functions of (input, parameters): equal behaviour selectors give equal outputs',
                        'statistical clause: none - C14 is fully deterministic; "sample stream identical" is checked under an equal seed set on both objects '
                        '(to_dict does not carry the random state by design: C14_roundtrip_drops_random_state; pickle does)']


def run(ctx):
    """the check proper, then the constant-data round-trip oracle (always)"""
    from .. import extra_oracles
    try:
        _run(ctx)
    finally:
        try:
            extra_oracles.constant_roundtrip(ctx)
            extra_oracles.univariate_constant_history(ctx)
            from .. import extra_oracles2
            extra_oracles2.serial_independent_copies(ctx)
            from .. import extra_oracles3
            extra_oracles3.failed_save(ctx)
            extra_oracles3.float32_roundtrip(ctx)
            extra_oracles3.gm_restored_models(ctx)
        except Exception as ex:
            ctx.obligation('oracle:extra:raised', False, 'correspondence', repr(ex))
            ctx.violation('oracle:extra:raised:' + type(ex).__name__, 'constant round-trip oracle raised ' + repr(ex), {'repro': '# see tools/vf/extra_oracles.py'})
