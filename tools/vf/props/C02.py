"""C02 — the correlation matrix fitted by GaussianMultivariate is a valid, correctly computed matrix."""
import re
import numpy as np
import pandas as pd

from .. import cases, gaussmv as G

TOL = 1e-9          # |implementation entry - exact Pearson correlation of the captured scores| (certified in Coq)
TOLQ = '(1 # 1000000000)'
DBL_EPS = float(np.finfo(float).eps)


# ------------------------------------------------------------------------------------------------
# the property's statement as an executable oracle on the real class
def independent_correlation(m, X):
    """entry (i,j) computed independently BY LABEL from the fitted marginals: Pearson correlation of
    norm.ppf(clip(cdf_i(x_i))) and norm.ppf(clip(cdf_j(x_j))), 0 for a constant score column"""
    from scipy import stats
    eps = float(np.finfo(np.float32).eps)
    cols = list(X.columns)
    S = {}
    for c, u in zip(m.columns, m.univariates):
        S[c] = stats.norm.ppf(np.clip(np.asarray(u.cdf(X[c].to_numpy()), dtype=float), eps, 1 - eps))
    d = len(cols)
    R = np.zeros((d, d))
    const = {}
    for c in cols:
        const[c] = bool(np.all(S[c] == S[c][0]))
    for i, a in enumerate(cols):
        for j, b in enumerate(cols):
            if const[a] or const[b]:
                R[i, j] = 0.0
            else:
                za, zb = S[a] - S[a].mean(), S[b] - S[b].mean()
                R[i, j] = float(np.dot(za, zb) / np.sqrt(np.dot(za, za) * np.dot(zb, zb)))
    return R, const


def fit_oracles(m, X, strict_cols=()):
    """list of (clause, description) violated by the fitted model m on training table X"""
    bad = []
    eps = float(np.finfo(np.float32).eps)
    cols = list(X.columns)
    d = len(cols)
    C = m.correlation
    if not isinstance(C, pd.DataFrame) or list(C.index) != cols or list(C.columns) != cols or list(m.columns) != cols:
        bad.append(('labels', f'correlation labelled {list(getattr(C, "index", []))} x {list(getattr(C, "columns", []))}, training columns {cols}'))
        return bad
    M = C.to_numpy()
    if M.shape != (d, d) or not np.all(np.isfinite(M)):
        bad.append(('finite', f'shape {M.shape}, finite={bool(np.all(np.isfinite(M)))}'))
        return bad
    if not np.array_equal(M, M.T):
        bad.append(('symmetric', f'max |M - M^T| = {float(np.max(np.abs(M - M.T)))}'))
    if M.min() < -1 - 1e-9 or M.max() > 1 + eps + 1e-9:
        bad.append(('range', f'entries in [{M.min()}, {M.max()}]'))
    ev = np.linalg.eigvalsh((M + M.T) / 2)
    if ev.min() < -1e-9:
        bad.append(('psd', f'smallest eigenvalue {ev.min()}'))
    R, const = independent_correlation(m, X)
    cond_R = float(np.linalg.cond(R))
    ridge_expected = bool(cond_R > 1.0 / DBL_EPS)
    # the decision is numerically ill-defined when the condition number is within a factor 100 of the threshold (the smallest
    # singular value is then of the order of the rounding errors of the Pearson sums): either decision is accepted there
    ridge_ambiguous = bool(1e-2 / DBL_EPS < cond_R < 1e2 / DBL_EPS)
    for i, c in enumerate(cols):
        nonconst_col = len(set(X[c].to_numpy().tolist())) > 1
        if nonconst_col and not const[c] and abs(M[i, i] - 1.0) > eps + 1e-9:
            bad.append(('unit-diagonal', f'non-constant column {c!r}: diagonal {M[i, i]}'))
        if nonconst_col and const[c] and c in strict_cols:
            # a column with many distinct values and a location-scale marginal: the fitted marginal must not be degenerate
            bad.append(('unit-diagonal', f'non-constant column {c!r} ({len(set(X[c].to_numpy().tolist()))} distinct values, range '
                                         f'{float(np.ptp(X[c].to_numpy()))}) got a degenerate marginal: all normal scores coincide, diagonal {M[i, i]}'))
        if not nonconst_col:
            off = np.delete(M[i, :], i)
            off2 = np.delete(M[:, i], i)
            if np.any(off != 0) or np.any(off2 != 0) or abs(M[i, i]) > eps + 1e-12:
                bad.append(('constant-zero', f'constant column {c!r}: row {M[i, :].tolist()}'))
    # the statement on the OUTPUT alone: a matrix that is returned without the ridge must not be numerically singular by the
    # library's documented criterion (cond > 1/DBL_EPSILON).  Deterministic in M, so the unchanged code can never trip it.
    has_ridge = all(abs(M[i, i] - 1.0) > 0.25 * eps or const[c] and abs(M[i, i]) > 0.25 * eps for i, c in enumerate(cols))
    cond_M = float(np.linalg.cond(M))
    if not has_ridge and cond_M > 1.0 / DBL_EPS:
        bad.append(('singular-not-regularised', f'fitted matrix has no ridge (diagonal {np.diag(M).tolist()}) but is numerically singular: '
                                                f'cond = {cond_M:.4g} > 1/DBL_EPSILON, smallest eigenvalue {float(ev.min()):.3g}'))
    E = R + (np.identity(d) * eps if ridge_expected else 0.0)
    if ridge_ambiguous and np.abs(M - E).max() > 1e-8:
        E = R + (np.identity(d) * eps if not ridge_expected else 0.0)
    k = int(np.argmax(np.abs(M - E)))
    if np.abs(M - E).max() > 1e-8:
        bad.append(('entry-definition', f'entry ({cols[k // d]!r},{cols[k % d]!r}) = {M.flat[k]} but the Pearson correlation of the normal '
                                        f'scores is {R.flat[k]} (ridge expected: {ridge_expected})'))
    try:
        td = m.to_dict()
        if td['correlation'] != M.tolist() or list(td['columns']) != cols:
            bad.append(('to_dict', 'to_dict()["correlation"/"columns"] differ from the fitted attributes'))
    except Exception as ex:
        bad.append(('to_dict', f'{type(ex).__name__}: {ex}'))
    # regularised matrix must keep sampling and density evaluation working
    try:
        with np.errstate(all='ignore'):
            s = m.sample(3)
        if list(s.columns) != cols or s.shape != (3, d) or not np.all(np.isfinite(s.to_numpy(dtype=float))):
            bad.append(('sampling-works', f'sample(3) -> shape {s.shape}, columns {list(s.columns)}, finite={bool(np.all(np.isfinite(s.to_numpy(dtype=float))))}'))
    except Exception as ex:
        bad.append(('sampling-works', f'sample(3) raised {type(ex).__name__}: {str(ex)[:120]}'))
    try:
        with np.errstate(all='ignore'):
            p = np.asarray(m.probability_density(X), dtype=float)
        if p.shape != (len(X),) or not np.all(np.isfinite(p)) or np.any(p < 0):
            bad.append(('density-works', f'probability_density -> {p.tolist()[:6]}'))
    except Exception as ex:
        bad.append(('density-works', f'probability_density raised {type(ex).__name__}: {str(ex)[:120]}'))
    return bad


STRICT_CFGS = ('class', 'class-uniform', 'qualified-name', 'instance')     # location-scale families: never degenerate on non-constant data


def fit_and_check(table, columns, cfg_name, seed, strict_cols=()):
    """replay entry point: fit the real class on the table with the named marginal configuration, return violated clauses"""
    X = pd.DataFrame({c: np.asarray(table[str(c)], dtype=float) for c in columns}, columns=list(columns))
    cfg = dict(G.marginal_configs(list(columns)))[cfg_name]
    m = G.new_model(cfg(), seed)
    with np.errstate(all='ignore'):
        m.fit(X)
    return fit_oracles(m, X, strict_cols)


def repro(X, cfg_name, seed, strict_cols=()):
    return ('from vf.props import C02\n'
            f'bad = C02.fit_and_check({G.table_repr(X)!r}, {list(X.columns)!r}, {cfg_name!r}, {seed}, {list(strict_cols)!r})\n'
            'print(bad)\nassert not bad\n')


def history_and_container(table, columns, cfg_name, seed, container):
    """HISTORY / CONTAINER oracle (replay entry point): fit(frame) ; fit(same values in another container) on ONE object must give the
    same labels and matrix as a fresh model fitted on that container (an ndarray / list of rows is labelled 0..d-1, a frame with
    permuted columns by its own header).  Returns a list of (clause, description)."""
    X = pd.DataFrame({c: np.asarray(table[str(c)], dtype=float) for c in columns}, columns=list(columns))
    cfg = dict(G.marginal_configs(list(columns)))[cfg_name]
    d = X.shape[1]
    if container == 'ndarray':
        Y, exp = X.to_numpy(), list(range(d))
    elif container == 'fortran':
        Y, exp = np.asfortranarray(X.to_numpy()), list(range(d))
    elif container == 'permuted-frame':
        Y = X[list(X.columns)[::-1]]
        exp = list(Y.columns)
    elif container == 'narrower-ndarray':
        Y, exp = X.to_numpy()[:, :d - 1], list(range(d - 1))
    else:
        raise ValueError(container)
    bad = []
    g, f = G.new_model(cfg(), seed), G.new_model(cfg(), seed)
    try:
        with np.errstate(all='ignore'):
            g.fit(X)
            g.sample(2)
            g.fit(Y)
    except Exception as ex:
        return [('history-raises', f'fit(frame); sample; fit({container}) raised {type(ex).__name__}: {str(ex)[:120]}')]
    with np.errstate(all='ignore'):
        f.fit(Y)
    for nm, m in (('re-fitted', g), ('fresh', f)):
        if list(m.columns) != exp or list(m.correlation.index) != exp or list(m.correlation.columns) != exp:
            bad.append(('labels', f'{nm} model after fit({container}): columns {list(m.columns)}, correlation labelled '
                                  f'{list(m.correlation.index)} x {list(m.correlation.columns)}; the training table is labelled {exp}'))
    if not bad and not np.allclose(g.correlation.to_numpy(), f.correlation.to_numpy(), rtol=0, atol=1e-12):
        bad.append(('history', f'fit(frame); sample; fit({container}) gives a correlation different from a fresh fit({container})'))
    return bad


def repro_history(X, cfg_name, seed, container):
    return ('from vf.props import C02\n'
            f'bad = C02.history_and_container({G.table_repr(X)!r}, {list(X.columns)!r}, {cfg_name!r}, {seed}, {container!r})\n'
            'print(bad)\nassert not bad\n')


# ------------------------------------------------------------------------------------------------
def designed_tables(rng):
    out = []
    out.append((2, 8, ['base', 'dup']))
    out.append((2, 9, ['base', 'neg']))
    out.append((3, 10, ['base', 'pos', 'const']))
    out.append((3, 7, ['const', 'base', 'const']))
    out.append((4, 12, ['base', 'mix', 'dup', 'neg']))
    out.append((5, 11, ['base', 'base', 'mix', 'int', 'pos']))
    out.append((6, 12, ['base', 'mix', 'const', 'dup', 'neg', 'int']))
    out.append((2, 3, ['base', 'base']))
    out.append((3, 4, ['int', 'int', 'mix']))
    out.append((2, 6, ['const', 'const']))
    out.append((2, 12, ['base', 'near']))
    out.append((3, 12, ['base', 'mix', 'near']))
    out.append((3, 40, ['base', 'offset', 'mix']))
    out.append((4, 30, ['base', 'tiny', 'offset', 'mix']))
    out.append((2, 25, ['offset', 'tiny']))
    # perfectly correlated, non-identical columns: the correlation rounds to just below 1 (cond ~ 7e15 > 1/DBL_EPSILON)
    out.append((2, 20, ['base', 'pos']))
    out.append((2, 21, ['base', 'pos']))
    out.append((2, 35, ['base', 'neg']))
    out.append((3, 20, ['base', 'pos', 'mix']))
    # one gross outlier per column (the clip of the marginal CDF at EPSILON acts), concrete location-scale marginals (indices 19..21)
    out.append((3, 60, ['outlier', 'mix', 'outlier']))
    out.append((2, 45, ['outlier', 'outlier']))
    out.append((4, 80, ['base', 'outlier', 'mix', 'base']))
    return out


def parse_check(s):
    """(true, false, [(0, 1); ...], true, true)"""
    if s is None:
        return None
    m = re.match(r'^\(\s*(true|false)\s*,\s*(true|false)\s*,\s*(\[.*\])\s*,\s*(true|false)\s*,\s*(true|false)\s*\)$', s.strip())
    if not m:
        return ('unparsed', s)
    bad = [(int(a), int(b)) for a, b in re.findall(r'\((\d+),\s*(\d+)\)', m.group(3))]
    return (m.group(1) == 'true', m.group(2) == 'true', bad, m.group(4) == 'true', m.group(5) == 'true')


def _run(ctx):
    quick = ctx.tier == 'quick'
    status = G.generate(ctx, {'corr'})
    bad_tr = {k: v for k, v in status.items() if v}
    for k, v in status.items():
        ctx.obligation(f'translate:{k}', not v, 'translation', v)
    compiled = False
    if not bad_tr:
        ctx.copy_src('Props/C02.v')
        compiled = ctx.compile(['Gen_gmcorr.v', 'C02.v'])
    ctx.rule('tables: 2..6 columns x 3..40 rows; column kinds base (normal/lognormal), mix (noisy linear image), dup (exact copy), pos/neg '
             '(exact affine image, slope >0 / <0), const, int (4-level ties); string labels in non-sorted order or integer labels; '
             'near (nearly collinear, cond ~1e9 < 1/DBL_EPSILON); 12 designed kind patterns + random patterns; marginal configuration cycles over default / class / qualified name / '
             'instance / per-column dict (Gaussian, Uniform, KDE, StudentT, Truncated, Gamma, Beta; some columns left to the default). '
             'Per fit the argument and result of stats.norm.ppf and the value of np.linalg.cond are captured (proxies installed in '
             'copulas.multivariate.gaussian only); Coq evaluates gm_fit_check: clip of the marginal CDF values = captured ppf argument '
             '(exact), and every entry of the fitted matrix is within 1e-9 of get_correlation(ridge decision from the captured cond, '
             'EPSILON, captured scores) by the proved square-root-free certificate; labels/to_dict compared in the harness')
    ctx.trusted += ['stats.norm.ppf, the fitted univariate CDFs and np.linalg.cond are oracles (captured values)',
                    'pandas DataFrame.corr is denoted by the sample Pearson correlation with NaN for zero variance (Spec/GaussMVDefs.pd_corr); '
                    'validated by the certified per-entry comparison']
    ctx.assumptions += ['the real-number theorems do not model float rounding; the certified tolerance of the comparison is 1e-9 absolute']
    rng = np.random.default_rng(ctx.seed + 2)
    plan = designed_tables(rng)
    n_random = 14 if quick else 150
    for _ in range(n_random):
        d = int(rng.integers(2, 7))
        n = int(rng.integers(3, 13)) if rng.random() < 0.5 else int(rng.integers(13, 41))
        plan.append((d, n, None))
    cfg_names = [c[0] for c in G.marginal_configs(['x'])]
    exprs, meta = [], []
    for k, (d, n, kinds) in enumerate(plan):
        labels = 'int' if k % 5 == 4 else 'str'
        X, kinds = G.make_table(rng, d, n, kinds, labels=labels, regular=(k % 2 == 1))
        cfg_name = cfg_names[k % len(cfg_names)]
        if any(kk in ('offset', 'tiny', 'outlier') for kk in kinds) or 15 <= k < 19:
            cfg_name = STRICT_CFGS[k % len(STRICT_CFGS)]      # (15..18: the perfectly-correlated designs, location-scale marginals)
        if cfg_name == 'default' and not quick and k % 18 != 0:
            cfg_name = 'class'          # the default (model selection) is slow; sampled more thinly in the thorough tier
        cols = list(X.columns)
        cfg = dict(G.marginal_configs(cols))[cfg_name]
        seed = int(ctx.seed) + k
        key = (k, d, n, tuple(kinds), cfg_name)
        sample = {'columns': [str(c) for c in cols], 'rows': n, 'kinds': kinds, 'marginals': cfg_name}
        m = G.new_model(cfg(), seed)
        try:
            with G.Capture() as cap, np.errstate(all='ignore'):
                m.fit(X)
        except Exception as ex:
            ctx.obligation(f'corr:fit-runs:{k}', False, 'correspondence', f'{type(ex).__name__}: {ex}')
            ctx.violation(f'fit-raises:{type(ex).__name__}', f'GaussianMultivariate.fit raised {type(ex).__name__}: {str(ex)[:200]} on {sample}',
                          {'sample': sample, 'table': G.table_repr(X), 'repro': repro(X, cfg_name, seed)})
            continue
        nontrivial = any(kk != 'const' for kk in kinds)
        ctx.case(key, {**sample, 'cond': cap.cond[-1][1] if cap.cond else None,
                       'marginal_classes': [type(getattr(u, '_instance', None) or u).__name__ for u in m.univariates]}, nontrivial=nontrivial)
        # ---- witness search: the statement itself on the real object (always) ----
        strict = [c for c, kk in zip(cols, kinds) if kk in ('offset', 'tiny')] if cfg_name in STRICT_CFGS else []
        for clause, what in fit_oracles(m, X, strict):
            ctx.violation(f'oracle:{clause}', f'{clause}: {what} [{sample}]',
                          {'clause': clause, 'sample': sample, 'table': G.table_repr(X), 'repro': repro(X, cfg_name, seed, strict)})
        # ---- witness search: history and container (a re-fit on another container must behave like a fresh fit) ----
        if cfg_name in STRICT_CFGS + ('qualified-name-kde',) and (k % 3 == 0 or k < 12):
            container = ['ndarray', 'permuted-frame', 'fortran', 'narrower-ndarray'][(k // 3) % 4]
            hb = history_and_container(G.table_repr(X), cols, cfg_name, seed, container)
            ctx.obligation(f'oracle:history-container:{k}:{container}', not hb, 'correspondence', '; '.join(b for _, b in hb))
            ctx.case(('history', k, container), {**sample, 'history': f'fit(frame); sample(2); fit({container}) vs fresh fit({container})'})
            for clause, what in hb:
                ctx.violation(f'oracle:history:{clause}', f'{what} [{sample}]',
                              {'clause': clause, 'sample': sample, 'container': container, 'table': G.table_repr(X),
                               'repro': repro_history(X, cfg_name, seed, container)})
        # ---- correspondence ----
        ok_capture = len(cap.ppf) == 1 and len(cap.cond) == 1
        if bad_tr and not ok_capture:
            continue        # the translation obligation already failed: the capture is a consequence, not a second alarm
        ctx.obligation(f'corr:capture:{k}', ok_capture, 'correspondence',
                       f'expected one norm.ppf and one np.linalg.cond call inside fit, saw {len(cap.ppf)} and {len(cap.cond)}')
        if not ok_capture or not compiled:
            continue
        pin, pout = cap.ppf[0]
        condv = cap.cond[0][1]
        U = [np.asarray(u.cdf(X[c].to_numpy()), dtype=float) for c, u in zip(m.columns, m.univariates)]
        M = m.correlation.to_numpy()
        if pin.shape != (n, d) or pout.shape != (n, d) or not np.all(np.isfinite(pin)) or not np.all(np.isfinite(np.array(U))) \
                or M.shape != (d, d) or not np.all(np.isfinite(M)) or condv != condv:
            ctx.obligation(f'corr:shapes:{k}', False, 'correspondence',
                           f'ppf arg {pin.shape}, result {pout.shape}, matrix {M.shape}, finite args={bool(np.all(np.isfinite(pin)))}')
            continue
        if not np.all(np.isfinite(pout)):
            ctx.obligation(f'corr:scores-finite:{k}', False, 'correspondence', f'non-finite normal scores {pout.tolist()}')
            ctx.violation('corr:scores-not-finite', f'_transform_to_normal produced non-finite scores on {sample}',
                          {'sample': sample, 'table': G.table_repr(X), 'repro': repro(X, cfg_name, seed)})
            continue
        cond_coq = 'None' if condv == float('inf') else f'(Some {G.qlit(float(condv))})'
        exprs.append(f'gm_fit_check {G.qmat(U)} {G.qmat(pin.T)} {G.qmat(pout.T)} {cond_coq} {G.qmat(M)} {TOLQ}')
        meta.append((k, X, cfg_name, seed, sample, condv, m))
    if exprs:
        outs = cases.run_vm_cases(ctx, 'Cases_C02', 'From Cop Require Import Model.PearsonQ.\nFrom CopRun Require Import Gen_gmcorr.',
                                  exprs, per_file=max(1, len(exprs) // 16 + 1), scope_open='Open Scope Q_scope.')
        n_ridge = 0
        for (k, X, cfg_name, seed, sample, condv, m), o in zip(meta, outs):
            r = parse_check(o)
            if r is None or r[0] == 'unparsed':
                ctx.obligation(f'corr:eval:{k}', False, 'correspondence', f'model evaluation failed: {o}')
                continue
            clip_ok, ill, bad, shape, sym = r
            n_ridge += ill
            cols = list(X.columns)
            ctx.obligation(f'corr:clip:{k}', clip_ok, 'correspondence',
                           'captured argument of norm.ppf differs from clip(cdf, EPSILON, 1-EPSILON) of the fitted marginals')
            ctx.obligation(f'corr:entries:{k}', not bad and shape, 'correspondence',
                           f'entries not within {TOL} of the model: {[(str(cols[i]), str(cols[j])) for i, j in bad]}; cond={condv}, model ridge={ill}')
            ctx.obligation(f'corr:symmetric:{k}', sym, 'correspondence', 'fitted matrix is not exactly symmetric')
            lab = list(m.correlation.index) == cols and list(m.correlation.columns) == cols
            ctx.obligation(f'corr:labels:{k}', lab, 'correspondence', f'{list(m.correlation.index)} vs {cols}')
            if not clip_ok:
                ctx.violation('corr:clip', f'norm.ppf is not applied to clip(cdf(x), EPSILON, 1-EPSILON) on {sample}',
                              {'sample': sample, 'table': G.table_repr(X), 'repro': repro(X, cfg_name, seed)})
            if bad or not shape or not sym or not lab:
                ctx.violation('corr:entries', f'fitted correlation differs from the model (entries {bad}, shape {shape}, symmetric {sym}, '
                                              f'labels {lab}; cond={condv}, model ridge={ill}) on {sample}',
                              {'sample': sample, 'table': G.table_repr(X), 'model_ridge': ill, 'cond': condv,
                               'matrix': m.correlation.to_numpy().tolist(), 'repro': repro(X, cfg_name, seed)})
        ctx.extra['fits_compared'] = len(meta)
        ctx.extra['fits_with_ridge'] = int(n_ridge)


def run(ctx):
    """the check proper, then the two-models-one-configuration oracle on the real class (always, also after a broken translation)"""
    from .. import extra_oracles2
    try:
        _run(ctx)
    finally:
        try:
            extra_oracles2.gm_shared_config(ctx)
            from .. import extra_oracles3
            extra_oracles3.gm_fit_ambient(ctx)
            extra_oracles3.gm_class_state(ctx)
            extra_oracles3.gm_fit_container(ctx)
        except Exception as ex:       # the oracle itself must never hide the result of the check proper
            ctx.obligation('oracle:extra:raised', False, 'correspondence', repr(ex))
            ctx.violation('oracle:extra:raised:' + type(ex).__name__, 'shared-configuration oracle raised ' + repr(ex), {'repro': '# see tools/vf/extra_oracles2.py'})
