"""C18 — vectorised root finders return a bracketed root for every lane."""
import re
import numpy as np
from .. import cases
from .. import rootgen

COQCHK = 'C18'   # Reals-only cone (no Coquelicot): coqchk -o takes under a minute (thorough tier)

HDR = '''From Coq Require Import List ZArith Bool PrimFloat Uint63.
From Cop Require Import Model.RootFind.
{imports}
Import ListNotations.
'''


def lit(x):
    x = float(x)
    if x != x:
        return 'nan'
    if x == float('inf'):
        return 'infinity'
    if x == float('-inf'):
        return 'neg_infinity'
    return '(%s)%%float' % x.hex()


class Lanes:
    """Vectorised f with the exact operation order of Model.RootFind.feval."""

    def __init__(self, kinds, p1, p2, p3):
        self.kinds = np.array(kinds)
        self.p1, self.p2, self.p3 = (np.array(p, dtype=float) for p in (p1, p2, p3))
        self.calls = 0

    def __call__(self, x):
        self.calls += 1
        a, r, b = self.p1, self.p2, self.p3
        lin = a * x + r
        d = x - r
        cub = a * ((d * d) * d)
        sat = a * (d / (1.0 + np.abs(d)))
        cublin = a * ((d * d) * d) + b * d
        return np.where(self.kinds == 0, lin, np.where(self.kinds == 1, cub, np.where(self.kinds == 2, sat, cublin)))

    def roots(self):
        return np.where(self.kinds == 0, -self.p2 / self.p1, self.p2)

    def sub(self, idx):
        return Lanes(self.kinds[idx], self.p1[idx], self.p2[idx], self.p3[idx])

    def coq(self):
        out = []
        for k, a, r, b in zip(self.kinds, self.p1, self.p2, self.p3):
            out.append(['FLin %s %s', 'FCub %s %s', 'FSat %s %s', 'FCubLin %s %s %s'][k] %
                       ((lit(a), lit(r)) if k < 3 else (lit(a), lit(r), lit(b))))
        return '[' + '; '.join(out) + ']'

    def describe(self):
        return [(int(k), float(a), float(r), float(b)) for k, a, r, b in zip(self.kinds, self.p1, self.p2, self.p3)]


def coqlist(xs):
    return '[' + '; '.join(lit(x) for x in xs) + ']'


def gen_case(rng, nmax, valid_only=False):
    n = int(rng.integers(1, nmax + 1))
    kinds, p1, p2, p3, lo, hi = [], [], [], [], [], []
    for _ in range(n):
        k = int(rng.integers(0, 4))
        scale = 10.0 ** rng.integers(-3, 4)
        root = float(rng.normal()) * scale
        a = float(10.0 ** rng.uniform(-6, 6)) if rng.random() < 0.3 else float(rng.uniform(0.1, 5.0))
        if rng.random() < 0.03:
            a = float(10.0 ** rng.uniform(-200, -150))      # tiny slope: products of end values underflow, signs do not
        if not valid_only and rng.random() < 0.15:
            a = -a
        w1 = float(rng.uniform(0.01, 3.0)) * scale
        w2 = float(rng.uniform(0.01, 3.0)) * scale
        if rng.random() < 0.1:
            w1 = 0.0                      # root exactly at a bracket end
        kinds.append(k)
        p1.append(a)
        p2.append(-a * root if k == 0 else root)
        p3.append(float(rng.uniform(0.0, 2.0)) * (1 if a > 0 else -1) if k == 3 else 0.0)
        l, h = root - w1, root + w2
        if a < 0:
            l, h = h, l
        if not valid_only and rng.random() < 0.04:
            l, h = h, l                   # invalid bracket
        lo.append(l)
        hi.append(h)
    return Lanes(kinds, p1, p2, p3), np.array(lo), np.array(hi)


FLOAT_TOK = r'(-?[0-9][0-9.e+-]*\)?%float|nan|neg_infinity|infinity)'


def parse_float(tok):
    tok = tok.replace('%float', '').replace(')', '').replace('(', '').strip()
    return {'nan': float('nan'), 'infinity': float('inf'), 'neg_infinity': float('-inf')}.get(tok) if tok in ('nan', 'infinity', 'neg_infinity') else float(tok)


def same(x, y):
    x, y = float(x), float(y)
    if x != x and y != y:
        return True
    return x == y and (x != 0 or np.signbit(x) == np.signbit(y))


def repro(f, lo, hi, which, maxiter=50, tol=1e-8):
    return ("import numpy as np\nfrom copulas.optimize import bisect, chandrupatla\n"
            f"K=np.array({f.kinds.tolist()}); A=np.array({f.p1.tolist()}); R=np.array({f.p2.tolist()}); B=np.array({f.p3.tolist()})\n"
            "def f(x):\n    d=x-R\n    return np.where(K==0, A*x+R, np.where(K==1, A*((d*d)*d), np.where(K==2, A*(d/(1.0+np.abs(d))), A*((d*d)*d)+B*d)))\n"
            f"lo=np.array({list(map(float, lo))}); hi=np.array({list(map(float, hi))})\n"
            + (f"x=bisect(f, lo.copy(), hi.copy(), tol={tol!r}, maxiter={maxiter})\n" if which == 'bisect' else f"x=chandrupatla(f, lo.copy(), hi.copy(), maxiter={maxiter})\n")
            + "roots=np.where(K==0, -R/A, R)\nprint('result',x,'roots',roots,'error',np.abs(x-roots))\nassert np.all(np.isfinite(x))\n")


def corr(ctx, n, nmax):
    from copulas.optimize import bisect, chandrupatla
    rng = np.random.default_rng(ctx.seed + 18)
    cs, exprs = [], []
    for i in range(n):
        f, lo, hi = gen_case(rng, nmax if i % 10 else min(4 * nmax, 1000))
        maxiter = int(rng.choice([1, 2, 3, 5, 10, 50, 50, 50]))
        tol = float(rng.choice([1e-8, 1e-8, 1e-3, 1e-12]))
        cs.append((f, lo, hi, maxiter, tol))
        exprs.append('bisect_full FA %d %s %s %s %s' % (maxiter, lit(tol), f.coq(), coqlist(lo), coqlist(hi)))
        exprs.append('chandrupatla_full FA %d %s %s %s' % (maxiter, f.coq(), coqlist(lo), coqlist(hi)))
    outs = cases.run_vm_cases(ctx, 'Cases_C18', '', exprs, per_file=20, hdr=HDR)
    for i, (f, lo, hi, maxiter, tol) in enumerate(cs):
        n_l = len(lo)
        for which, blk in (('bisect', outs[2 * i]), ('chandrupatla', outs[2 * i + 1])):
            if blk is None:
                continue
            f.calls = 0
            xmin, xmax = lo.copy(), hi.copy()
            try:
                with np.errstate(all='ignore'):
                    if which == 'bisect':
                        # bisect works on copies of the brackets (fix F16a): only the result and the number of
                        # evaluations of f are observable; the model's final brackets are checked through them
                        res = bisect(f, xmin, xmax, tol=tol, maxiter=maxiter)
                        py = list(res)
                    else:
                        res = chandrupatla(f, xmin, xmax, maxiter=maxiter)
                        py = list(res)
                k_py = f.calls - 2
            except AssertionError:
                py, k_py = None, None
            except Exception as ex:
                py, k_py = ('EXC', type(ex).__name__), None
            if blk.strip() == 'None':
                ok = py is None
            elif py is None or (py and py[0] == 'EXC'):
                ok = False
            else:
                vals = [parse_float(t) for t in re.findall(FLOAT_TOK, blk)]
                k = int(re.findall(r',\s*(\d+)\)', blk)[-1])
                m = len(py)
                ok = len(vals) >= m and all(same(u, v) for u, v in zip(vals[:m], py)) and k == k_py
            if ok and which == 'chandrupatla' and n_l == 1 and py is not None:
                # scalar input must behave like the one-element vector (the model's single lane)
                g = f.sub([0])
                try:
                    with np.errstate(all='ignore'):
                        xs = float(np.asarray(chandrupatla(lambda t: g(np.array([t]))[0], float(lo[0]), float(hi[0]), maxiter=maxiter)))
                    ok = same(xs, py[0])
                    if not ok:
                        py = ('scalar call', xs, 'vector call', py[0])
                except AssertionError:
                    ok = False
            ctx.obligation(f'corr:{which}:case{i}', ok, 'correspondence', f'model {blk[:300]} vs implementation {str(py)[:300]} k={k_py}')
            ctx.case((which, i), {'algo': which, 'lanes': n_l, 'maxiter': maxiter, 'tol': tol, 'kinds': f.kinds[:6].tolist(),
                                  'rejected': py is None}, nontrivial=(py is not None))
            if not ok:
                ctx.violation(f'corr:{which}-model-vs-impl', f'{which}: PrimFloat model and implementation differ on case {i} ({n_l} lanes, maxiter={maxiter})',
                              {'lanes': f.describe(), 'xmin': lo.tolist(), 'xmax': hi.tolist(), 'maxiter': maxiter, 'tol': tol,
                               'model': blk[:1000], 'impl': str(py)[:1000], 'repro': repro(f, lo, hi, which, maxiter, tol)})


def search(ctx, n, nmax):
    """The property's own statement on the implementation, with valid brackets."""
    from copulas.optimize import bisect, chandrupatla
    rng = np.random.default_rng(ctx.seed + 1818)
    found = 0
    for i in range(n):
        f, lo, hi = gen_case(rng, nmax, valid_only=True)
        if i % 7 == 0 and len(lo) >= 2:
            # a lane that converges exactly in the first step next to slow lanes
            f.kinds[0], f.p1[0], f.p2[0] = 0, 1.0, -0.25
            lo[0], hi[0] = 0.0, 0.5
        if i % 11 == 3 and len(lo) >= 2:
            # zero-width bracket sitting exactly on the root, next to slow lanes
            f.kinds[0], f.p1[0], f.p2[0] = 0, 1.0, -0.25
            lo[0], hi[0] = 0.25, 0.25
        roots = f.roots()
        width = np.abs(hi - lo)
        for which in ('bisect', 'chandrupatla'):
            try:
                with np.errstate(all='ignore'):
                    x = bisect(f, lo.copy(), hi.copy()) if which == 'bisect' else chandrupatla(f, lo.copy(), hi.copy())
                x = np.asarray(x, dtype=float)
            except Exception as ex:
                found += 1
                ctx.violation(f'search:{which}-raises:{type(ex).__name__}', f'{which} raised {type(ex).__name__} on a valid bracket',
                              {'lanes': f.describe(), 'xmin': lo.tolist(), 'xmax': hi.tolist(), 'repro': repro(f, lo, hi, which)})
                continue
            with np.errstate(all='ignore'):
                fx = f(x)
            inside = (x >= np.minimum(lo, hi) - 0) & (x <= np.maximum(lo, hi) + 0)
            if which == 'bisect':
                good = np.abs(x - roots) <= np.maximum(1e-8, width / 2.0 ** 50) * 0.5 + 1e-15 * np.abs(roots) + 4e-16 * np.abs(x)
            else:
                good = (np.abs(x - roots) <= 1e-9 * width + 1e-14 * (1 + np.abs(roots))) | (fx == 0)
            nan = ~np.isfinite(x)
            badm = nan | ~inside | ~good
            if badm.any():
                j = int(np.where(badm)[0][0])
                found += 1
                if nan[j]:
                    key = f'F-A:{which}-returns-nan'
                else:
                    key = f'search:{which}-inaccurate' if inside[j] else f'search:{which}-outside-bracket'
                ctx.violation(key, f'{which}: lane {j} returned {x[j]!r} for root {roots[j]!r} in [{lo[j]!r},{hi[j]!r}] (batch of {len(lo)})',
                              {'lane': j, 'x': float(x[j]), 'root': float(roots[j]), 'lanes': f.describe(), 'xmin': lo.tolist(), 'xmax': hi.tolist(),
                               'repro': repro(f, lo, hi, which)})
            # as if alone: the solo run of a lane must satisfy the same tolerance; scalar chandrupatla = one-element vector
            j = int(rng.integers(0, len(lo)))
            g = f.sub([j])
            with np.errstate(all='ignore'):
                if which == 'chandrupatla':
                    xs = float(np.asarray(chandrupatla(lambda t: g(np.array([t]))[0], float(lo[j]), float(hi[j]))))
                    xv = float(np.asarray(chandrupatla(g, lo[j:j + 1].copy(), hi[j:j + 1].copy()))[0])
                    if not same(xs, xv):
                        found += 1
                        ctx.violation('search:chandrupatla-scalar-vs-vector', f'scalar call returned {xs!r}, one-element vector {xv!r}',
                                      {'lane': g.describe(), 'lo': float(lo[j]), 'hi': float(hi[j]), 'repro': repro(g, lo[j:j + 1], hi[j:j + 1], which)})
        # invalid bracket must be rejected
        if i % 5 == 0:
            lo2, hi2 = lo.copy(), hi.copy()
            j = int(rng.integers(0, len(lo)))
            w = max(abs(hi[j] - lo[j]), 1e-3)
            lo2[j], hi2[j] = roots[j] + 0.5 * w * np.sign(f.p1[j]), roots[j] + 1.5 * w * np.sign(f.p1[j])   # both ends on the positive side
            for which in ('bisect', 'chandrupatla'):
                try:
                    with np.errstate(all='ignore'):
                        x = bisect(f, lo2.copy(), hi2.copy()) if which == 'bisect' else chandrupatla(f, lo2.copy(), hi2.copy())
                    found += 1
                    ctx.violation(f'search:{which}-accepts-invalid-bracket', f'{which} returned a value for a bracket without sign change in lane {j}',
                                  {'lanes': f.describe(), 'xmin': lo2.tolist(), 'xmax': hi2.tolist(), 'lane': j, 'repro': repro(f, lo2, hi2, which)})
                except AssertionError:
                    pass
        ctx.case(('search', i), None)
    # invalid brackets whose end values are both tiny (their product underflows to 0.0): the sign test must still reject them
    for a, kind in ((1e-170, 2), (-1e-200, 2), (1e-180, 1), (3e-165, 2)):
        for lane_count in (1, 3):
            r = 0.25
            ks, p1, p2, p3 = [kind], [a], [r], [0.0]
            lo2, hi2 = [r + 0.5 * np.sign(a)], [r + 1.5 * np.sign(a)]           # f > 0 at both ends (no sign change)
            if a < 0:
                lo2, hi2 = hi2, lo2
            for _ in range(lane_count - 1):                                      # valid ordinary lanes beside it
                ks.append(0); p1.append(2.0); p2.append(-1.0); p3.append(0.0); lo2.append(0.0); hi2.append(1.0)
            f = Lanes(ks, p1, p2, p3)
            lo2, hi2 = np.array(lo2, dtype=float), np.array(hi2, dtype=float)
            fl, fh = f(lo2)[0], f(hi2)[0]
            assert fl > 0 and fh > 0 and fl * fh == 0.0
            for which in ('bisect', 'chandrupatla'):
                try:
                    with np.errstate(all='ignore'):
                        x = bisect(f, lo2.copy(), hi2.copy()) if which == 'bisect' else chandrupatla(f, lo2.copy(), hi2.copy())
                    found += 1
                    ctx.violation(f'search:{which}-accepts-invalid-bracket', f'{which} returned {np.asarray(x).tolist()} for a bracket whose end values '
                                  f'{fl!r}, {fh!r} are both positive (their product underflows to 0.0) in lane 0',
                                  {'lanes': f.describe(), 'xmin': lo2.tolist(), 'xmax': hi2.tolist(), 'lane': 0,
                                   'repro': repro(f, lo2, hi2, which).replace("assert np.all(np.isfinite(x))", "raise SystemExit('returned a value for an invalid bracket')")})
                except AssertionError:
                    pass
            ctx.case(('search', 'tiny-invalid', a, lane_count), None)
    ctx.rule('search: valid brackets only; per lane |x-root| <= tolerance of the property (bisect 1e-8 in x, chandrupatla 1e-9 of the width or exact zero), '
             'inside the bracket, finite; scalar chandrupatla = one-element vector; brackets without sign change rejected, also when both end values are so small that their product underflows')
    return found


def _run(ctx):
    quick = ctx.tier == 'quick'
    # second tie: regenerate the model text from the AST of copulas/optimize/__init__.py (statement by statement, fail
    # closed); Props/C18.v proves every generated definition equal to the hand-written model for every arithmetic instance
    status, facts = rootgen.generate(ctx)
    for name in sorted(status):
        ctx.obligation(f'translate:{name}', status[name] is None, 'translation', status[name] or '')
    ctx.extra['rootgen'] = {'generated_file': 'Gen_rootfind.v', 'definitions': sorted(status), 'facts': facts,
                            'not_translated': {k: v for k, v in status.items() if v}}
    ctx.rule('translation: bisect / chandrupatla (array and scalar branch) are symbolically executed per lane from the AST; '
             'operators, operand order, constants, masks, np.choose alternatives, loop bounds and initial values come from the '
             'source text; bridges C18_bridge_* prove generated = model for every arithmetic instance')
    ctx.copy_src('Props/C18.v')
    ctx.compile(['Gen_rootfind.v', 'C18.v'])
    ctx.rule('correspondence: random batches (1..6 lanes quick / up to 1000 thorough) of lanes from {linear, cubic with flat root, saturating, cubic+linear} with '
             'slopes over 12 orders of magnitude, roots at bracket ends, 4% invalid brackets, maxiter in {1,2,3,5,10,50}, tol in {1e-8,1e-3,1e-12}; '
             'the PrimFloat instance of Model.RootFind evaluated by vm_compute must equal copulas.optimize bit for bit (results, final brackets, iteration count, rejection)')
    corr(ctx, 40 if quick else 500, 6 if quick else 60)
    ctx.extra['witness_search_hits'] = search(ctx, 60 if quick else 1500, 8 if quick else 200)
    ctx.trusted += ['Model.RootFind is hand-written; tied to copulas.optimize by bit-exact differential execution of its PrimFloat instance '
                    'AND by the bridges from the AST-generated Gen_rootfind.v (tools/vf/rootgen.py: the mapping of numpy primitives '
                    '(masked store, np.choose, np.clip, .max(), .all()) to the arithmetic record and the loop skeletons are trusted)',
                    'theorems are proved for the real-number instance RA of the same generic code; float rounding is the gap',
                    'PrimFloat primitives (kernel floats) as listed by Print Assumptions']
    ctx.assumptions += ['lane functions are restricted to four algebraic families so that model and numpy perform the identical IEEE operations',
                        'chandrupatla convergence within maxiter is not a theorem (empirical); b = c is handled explicitly in the R theorems']


def run(ctx):
    """the check proper, then the container / dtype oracle on the real functions (always, also after a broken translation)"""
    from .. import extra_oracles
    try:
        _run(ctx)
    finally:
        try:
            extra_oracles.root_containers(ctx)
            from .. import extra_oracles3
            extra_oracles3.rootfinder_round6(ctx)
        except Exception as ex:       # the oracle itself must never hide the result of the check proper
            ctx.obligation('oracle:extra:raised', False, 'correspondence', repr(ex))
            ctx.violation('oracle:extra:raised:' + type(ex).__name__, 'container oracle raised ' + repr(ex), {'repro': '# see tools/vf/extra_oracles.py'})
