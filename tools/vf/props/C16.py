"""C16 — a fitted vine is a regular vine of the requested type and depth (first version: end-to-end fit only)."""
import numpy as np


def table(rng, d, n=120):
    import pandas as pd
    a = rng.normal(size=(d, d))
    cov = a @ a.T + np.eye(d)
    z = rng.multivariate_normal(np.zeros(d), cov, n)
    return pd.DataFrame(z, columns=[f'c{i}' for i in range(d)])


def run(ctx):
    from copulas.multivariate import VineCopula
    rng = np.random.default_rng(ctx.seed + 16)
    for vt in ('center', 'direct', 'regular'):
        for d in (3, 4, 5):
            X = table(rng, d)
            rep = (f"import numpy as np, pandas as pd\nfrom copulas.multivariate import VineCopula\nrng=np.random.default_rng(1)\n"
                   f"X=pd.DataFrame(rng.normal(size=(80,{d})), columns=list('abcdefg')[:{d}])\nv=VineCopula('{vt}'); v.fit(X)\nprint([len(t.edges) for t in v.trees])\n")
            try:
                v = VineCopula(vt)
                v.fit(X)
                ok = [len(t.edges) for t in v.trees] == [d - 1 - k for k in range(min(d - 1, 3))]
                ctx.obligation(f'fit:{vt}:{d}', ok, 'correspondence', str([len(t.edges) for t in v.trees]))
                if not ok:
                    ctx.violation(f'fit-shape:{vt}', f'VineCopula({vt!r}).fit on {d} columns: trees have {[len(t.edges) for t in v.trees]} edges', {'repro': rep})
            except Exception as ex:
                ctx.obligation(f'fit:{vt}:{d}', False, 'correspondence', repr(ex))
                ctx.violation(f'fit-raises:{vt}:{type(ex).__name__}', f'VineCopula({vt!r}).fit on {d} columns raised {type(ex).__name__}: {ex}', {'vine_type': vt, 'd': d, 'repro': rep})
            ctx.case((vt, d), {'vine_type': vt, 'columns': d})
