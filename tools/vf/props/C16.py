"""C16 — a fitted vine is a regular vine of the requested type and depth.

(1) Props/C16.v: the structural theorems of coq/Spec/Vine*.v restated and re-checked (plus the theta domains generated
    from copulas/bivariate/*.py).
(2) correspondence, all evaluated by vm_compute inside Coq:
    (i)   unit level: the REAL VineCopula.train_vine / Tree.fit / CenterTree / DirectTree / RegularTree driven with synthetic
          tau matrices for every level (data plane stubbed), numpy's argsort order and Python's set-iteration order recorded
          and replayed in Model.Vine; every tree compared edge by edge (index, L, R, D, parents);
    (ii)  end to end: VineCopula(type).fit(table, truncated=t); the tau matrix actually handed to every Tree.fit is captured
          and the model replayed with it; the proved-sound validator Spec.VineValid.valid_vine is run on the
          implementation's own output;
    (iii) every edge's (family, theta) is what select_copula returned for that edge's input columns and passes check_theta
          (the implementation's and Model.BivCtl.check_theta on the generated domains).
    F8: copulas.multivariate.tree's np.empty is poisoned with different fills (harness side only); a structure that depends
    on the fill depends on uninitialised memory.
(3) witness search: an independent Python statement of the property (vinestruct.py_validate, own Kruskal) on every
    implementation output of (i) and (ii).
"""
COQCHK = ['C16_fit']   # cones without Coquelicot / Interval: coqchk -o re-checks them in about a minute each (thorough tier)
import contextlib
import hashlib
import itertools
import signal

import numpy as np

from .. import biv, cases, vinebuildgen, vinefitgen, vinegen
from .. import vinestruct as VS

VTS = ('center', 'direct', 'regular')
FILLS = (float('nan'), 0.123, 2.0)
KINDS = ('gauss', 'strong', 'heavy', 'mixed', 'ties', 'indep', 'mono', 'anti', 'binary', 'dup')
DEGENERATE = ('mono', 'dup', 'binary')     # ValueError refusals are accepted for these tables (reported, not violations)


def table(rng, d, n=120):
    """random Gaussian table with d columns (also used by C17)"""
    import pandas as pd
    a = rng.normal(size=(d, d))
    cov = a @ a.T + np.eye(d)
    z = rng.multivariate_normal(np.zeros(d), cov, n)
    return pd.DataFrame(z, columns=[f'c{i}' for i in range(d)])


def e2e_table(seed, d, n, kind):
    import pandas as pd
    if kind in ('mono', 'anti', 'binary', 'dup'):
        X = VS.make_table(seed, d, n, 'gauss')
        z = X.to_numpy().copy()
        if kind == 'mono':
            z[:, -1] = np.exp(z[:, 0])
        elif kind == 'anti':
            z[:, -1] = -z[:, 0] + 1e-3 * z[:, -1]
        elif kind == 'binary':
            z[:, -1] = (z[:, 0] > 0) * 1.0
        else:
            z[:, -1] = z[:, 0]
        return pd.DataFrame(z, columns=X.columns)
    return VS.make_table(seed, d, n, kind)


def digest(obj):
    return hashlib.sha1(repr(obj).encode()).hexdigest()[:10]


def fill_name(f):
    return 'nan' if f != f else repr(f)


# ------------------------------------------------------------------------------------------------ unit level
def unit_cases(ctx, quick):
    rng = np.random.default_rng(ctx.seed + 1600)
    out = []

    def deeper(d, kinds=('grid', 'distinct', 'sparse', 'nanvar', 'few')):
        return [VS.random_tau(rng, d - k, k, kinds[int(rng.integers(0, len(kinds)))]) for k in range(1, max(1, d - 1))]

    # exhaustive over the strict orderings of the pairwise |tau| ranks, d <= 4 (sampled in the quick tier for d = 4)
    for d in (2, 3, 4):
        perms = list(VS.all_orderings(d))
        if quick and len(perms) > 40:
            perms = [perms[i] for i in sorted(rng.choice(len(perms), size=40, replace=False))]
        for p in perms:
            for vt in VTS:
                signs = [bool(rng.random() < 0.5) for _ in p]
                t = d - 1 if rng.random() < 0.7 else int(rng.choice([1, 2, 3, d + 2]))
                out.append({'src': 'ordering', 'vt': vt, 'd': d, 't': t, 'taus': [VS.ordering_matrix(p, signs)] + deeper(d)})
    # boundary-biased random matrices with ties, NaN variables, NaN cells, d <= 7
    n_rand = 240 if quick else 3000
    for i in range(n_rand):
        vt = VTS[i % 3]
        d = int(rng.choice([2, 3, 4, 5, 5, 6, 6, 7, 7]))
        t = d - 1 if rng.random() < 0.5 else int(rng.choice([0, 1, 2, 3, d - 1, d + 2]))
        kind = ('grid', 'distinct', 'nanvar', 'sparse', 'few', 'few')[int(rng.integers(0, 6))]
        out.append({'src': kind, 'vt': vt, 'd': d, 't': t, 'taus': [VS.random_tau(rng, d, 0, kind)] + deeper(d)})
    return out


def repro_unit(c, expected):
    return ("# drives the real VineCopula.train_vine / Tree classes with these tau matrices (select_copula and the data plane stubbed)\n"
            "from vf import vinestruct as VS\n"
            f"taus = {[VS.tolist(m) for m in c['taus']]!r}\n"
            f"expected = {expected!r}    # structure computed by the Coq model (coq/Model/Vine.v) with the recorded argsort/set orders\n"
            f"r = VS.repro_unit({c['vt']!r}, {c['d']}, {c['t']}, taus, expected)\n"
            "print('\\n'.join(r))\nassert not r\n")


def unit_level(ctx, quick):
    cs = unit_cases(ctx, quick)
    exprs = []
    for c in cs:
        cap, v, exc = VS.drive_train_vine(c['vt'], c['d'], c['t'], c['taus'])
        c['exc'] = exc
        c['struct'] = None if exc is not None else VS.edges_of(v.trees)
        # the matrices the implementation handed to Tree.fit must be the ones get_tau_matrix returned (padded check)
        c['passed_ok'] = all(np.array_equal(lv['tau'], np.asarray(c['taus'][lv['index']], dtype=float), equal_nan=True)
                             and lv['n'] == c['d'] - lv['index'] for lv in cap.levels)
        term, okrec = VS.coq_replay(c['vt'], c['d'], c['t'], cap.levels, c['taus'])
        c['okrec'] = okrec
        c['i_replay'] = len(exprs)
        exprs.append(term)
        if c['struct'] is not None:
            c['i_valid'] = len(exprs)
            exprs.append(VS.coq_valid(c['vt'], c['d'], c['t'], c['struct']))
    outs = cases.run_vm_cases(ctx, 'Cases_C16_unit', VS.VM_IMPORTS, exprs, per_file=60 if quick else 150, scope_open=VS.VM_SCOPE)
    agree = 0
    for i, c in enumerate(cs):
        vt, d, t = c['vt'], c['d'], c['t']
        model = VS.parse_vine(outs[c['i_replay']])
        ok = (model == c['struct']) and c['okrec'] and c['passed_ok'] and not isinstance(model, str)
        ctx.obligation(f'corr:unit{i}:{vt}:d{d}:t{t}', ok, 'correspondence',
                       '' if ok else f"impl={c['struct']} exc={c['exc']!r} model={model} records_consistent={c['okrec']} taus_passed={c['passed_ok']}")
        ctx.case(('unit', vt, d, t, digest(c['struct'])),
                 {'level': 'unit', 'source': c['src'], 'vine_type': vt, 'd': d, 'truncated': t, 'tau_level1': VS.tolist(c['taus'][0]),
                  'structure': c['struct']}, nontrivial=c['struct'] is not None and d >= 3)
        if ok:
            agree += 1
        else:
            what = (f"{vt} vine on d={d}, truncated={t}: the real Tree classes built {c['struct']}"
                    + (f" (raised {type(c['exc']).__name__}: {c['exc']})" if c['exc'] is not None else '') + f", the model {model}")
            key = f"corr:unit:{vt}" + (f":raises-{type(c['exc']).__name__}" if c['exc'] is not None else '')
            ctx.violation(key, what, {'vine_type': vt, 'd': d, 'truncated': t, 'taus': [VS.tolist(m) for m in c['taus']],
                                      'impl': c['struct'], 'model': model, 'repro': repro_unit(c, model if not isinstance(model, str) else 'skip')})
        if c['struct'] is not None:
            vres = outs[c['i_valid']]
            vok = vres == 'true'
            ctx.obligation(f'valid:unit{i}:{vt}:d{d}:t{t}', vok, 'correspondence', '' if vok else f"valid_vine = {vres} on {c['struct']}")
            probs = VS.py_validate(vt, d, t, c['struct'], c['taus'][0])
            if not vok or probs:
                ctx.violation(f'invalid-vine:unit:{vt}', f"{vt} vine on d={d}, truncated={t} built by the real Tree classes is not a regular vine of "
                              f"that type/depth: {probs[:3] or 'rejected by the Coq validator valid_vine'}",
                              {'vine_type': vt, 'd': d, 'truncated': t, 'taus': [VS.tolist(m) for m in c['taus']], 'impl': c['struct'],
                               'problems': probs, 'coq_valid_vine': vres, 'repro': repro_unit(c, 'skip')})
    ctx.extra['unit_cases'] = {'total': len(cs), 'agreeing': agree,
                               'by_source': {s: sum(1 for c in cs if c['src'] == s) for s in sorted({c['src'] for c in cs})},
                               'by_d': {d: sum(1 for c in cs if c['d'] == d) for d in range(2, 8)},
                               'python_raised': sum(1 for c in cs if c['exc'] is not None)}


# ------------------------------------------------------------------------------------------------ end to end
def e2e_plan(ctx, quick):
    rng = np.random.default_rng(ctx.seed + 1601)
    plan = []
    j = int(ctx.seed)
    for vt in VTS:
        for d in range(2, 8):
            ts = [1, 2, 3, d - 1, d + 2]
            reps = 1 if quick else 3
            for r in range(reps):
                for t in ts:
                    kind = KINDS[j % len(KINDS)]
                    j += 1
                    plan.append({'vt': vt, 'd': d, 't': int(max(1, t)), 'kind': kind, 'n': int(rng.integers(60, 101)),
                                 'tseed': int(rng.integers(0, 2 ** 31))})
    return plan


def repro_fit(p, what):
    return ("# end-to-end VineCopula.fit under poisoned np.empty fills (harness side only), independent validator\n"
            "from vf.props.C16 import replay_fit\n"
            f"r = replay_fit({p['vt']!r}, {p['tseed']}, {p['d']}, {p['n']}, {p['kind']!r}, {p['t']}, {what!r})\n"
            "print('\\n'.join(map(str, r)))\nassert not r\n")


def replay_fit(vt, tseed, d, n, kind, t, what):
    """used by replay snippets; returns the list of problems of class `what`"""
    X = e2e_table(tseed, d, n, kind)
    out, structs = [], []
    for f in FILLS:
        cap, v, exc = VS.fit_vine(vt, X, t, f)
        if exc is not None:
            if what == 'raises':
                out.append(f'fill={fill_name(f)}: raised {type(exc).__name__}: {exc}')
            structs.append(None)
            continue
        s = VS.edges_of(v.trees)
        structs.append(s)
        if what == 'valid':
            out += [f'fill={fill_name(f)}: {p}' for p in VS.py_validate(vt, d, t, s, cap.levels[0]['tau'])]
        if what == 'edges':
            out += [f'fill={fill_name(f)}: {p}' for p in check_edge_copulas(cap, v)[0]]
        if what == 'unwritten' and f != f:
            nr = unwritten_reads(cap, v, vt)
            out += [f'tree {tk}: {c} unwritten tau cells read' for tk, c in nr.items() if vt == 'center' or tk <= 2]
        if what == 'kendall' and f != f:
            km = kendall_matrix(X)
            if not np.allclose(cap.levels[0]['tau'], km, rtol=0, atol=1e-9, equal_nan=True):
                out.append(f"Tree.fit got {cap.levels[0]['tau'].tolist()} but pairwise Kendall tau is {km.tolist()}")
            out += VS.py_validate(vt, d, t, s, km)
    if what == 'fill' and any(s != structs[0] for s in structs[1:]):
        for f, s in zip(FILLS, structs):
            out.append(f'np.empty fill {fill_name(f)}: {s}')
    return out


def check_edge_copulas(cap, v):
    """(iii): edge i of every tree carries what the i-th select_copula call of that tree returned, computed on that edge's
    input columns, and the theta passes the family's check_theta.  Returns (problems, [(family, theta)])."""
    from copulas.bivariate import Bivariate
    bad, fams = [], []
    for lv, tree in zip(cap.levels, v.trees):
        k = lv['index']
        if len(lv['selects']) != len(tree.edges):
            bad.append(f'tree {k + 1}: {len(lv["selects"])} select_copula calls for {len(tree.edges)} edges')
            continue
        for e, (X, name, theta) in zip(tree.edges, lv['selects']):
            if e.name is not name or not (e.theta is theta or e.theta == theta):
                bad.append(f'tree {k + 1} edge {e.index}: stores ({e.name}, {e.theta}) but select_copula returned ({name}, {theta})')
            if X.ndim != 2 or X.shape != (v.n_sample, 2):
                bad.append(f'tree {k + 1} edge {e.index}: select_copula input has shape {X.shape}')
                continue
            if k == 0:
                cols = [v.u_matrix[:, int(e.L)], v.u_matrix[:, int(e.R)]]
                okc = (np.array_equal(X[:, 0], cols[0]) and np.array_equal(X[:, 1], cols[1])) or \
                      (np.array_equal(X[:, 0], cols[1]) and np.array_equal(X[:, 1], cols[0]))
                if not okc:
                    bad.append(f'tree 1 edge {e.index} ({e.L},{e.R}): select_copula input is not the pair of marginal columns {e.L},{e.R}')
            else:
                p0, p1 = e.parents
                ok0 = any(np.array_equal(X[:, 0], np.ravel(u)) for u in p0.U)
                ok1 = any(np.array_equal(X[:, 1], np.ravel(u)) for u in p1.U)
                if not (ok0 and ok1):
                    bad.append(f'tree {k + 1} edge {e.index}: select_copula input columns are not conditional columns of its two parents')
            try:
                c = Bivariate(copula_type=e.name)
                c.theta = e.theta
                c.check_theta()
            except Exception as ex:      # noqa
                bad.append(f'tree {k + 1} edge {e.index}: theta {e.theta} is not admissible for {e.name}: {type(ex).__name__}: {ex}')
            fams.append((str(getattr(e.name, 'name', e.name)).lower(), float(e.theta)))
    return bad, fams


def coq_theta(fam, th):
    from fractions import Fraction
    if th != th:
        return 'false'
    if th in (float('inf'), float('-inf')):
        ext = 'PInf' if th > 0 else 'MInf'
    else:
        f = Fraction(th)
        ext = f'(Fin (Qmake ({f.numerator}) {f.denominator}))'
    if fam not in ('clayton', 'frank', 'gumbel'):
        return 'false'
    return f'check_theta {fam}_dom {ext}'


def unwritten_reads(cap, v, vt):
    """per tree (1-based number): how many cells of the captured (NaN-poisoned) tau matrix the construction of that tree reads
    although get_tau_matrix never wrote them"""
    out = {}
    for lv, tree in zip(cap.levels, v.trees):
        k = lv['index']
        if k == 0:
            continue
        prev = v.trees[k - 1].edges
        tau = lv['tau']
        n = 0
        if vt == 'direct':
            n = sum(1 for i in range(len(prev) - 1) if tau[i, i + 1] != tau[i, i + 1])
        elif vt == 'regular':
            for x in range(len(prev)):
                for y in range(len(prev)):
                    if x != y and tau[x, y] != tau[x, y]:
                        U = {prev[x].L, prev[x].R, *prev[x].D, prev[y].L, prev[y].R, *prev[y].D}
                        n += len(U) == k + 2
        else:
            n = sum(1 for i in range(1, len(prev)) if tau[i, 0] != tau[i, 0])
        if n:
            out[k + 1] = n
    return out


def kendall_matrix(X):
    """independent pairwise Kendall tau-b of the table (scipy on the raw columns)"""
    import scipy.stats
    z = X.to_numpy()
    d = z.shape[1]
    m = np.ones((d, d))
    for i in range(d):
        for j in range(i + 1, d):
            m[i, j] = m[j, i] = scipy.stats.kendalltau(z[:, i], z[:, j])[0]
    return m


def e2e_level(ctx, quick):
    plan = e2e_plan(ctx, quick)
    exprs, runs = [], []
    refusals, f8_tau, f8_reads, fam_count = [], {}, {}, {}
    for pi, p in enumerate(plan):
        vt, d, t = p['vt'], p['d'], p['t']
        X = e2e_table(p['tseed'], d, p['n'], p['kind'])
        per_fill = []
        for f in FILLS:
            cap, v, exc = VS.fit_vine(vt, X, t, f)
            r = {'p': p, 'fill': f, 'exc': exc, 'cap': cap, 'v': v}
            per_fill.append(r)
            if exc is not None:
                continue
            r['struct'] = VS.edges_of(v.trees)
            r['etaus'] = VS.edge_taus(v.trees)
            term, okrec = VS.coq_replay(vt, d, t, cap.levels)
            r['okrec'] = okrec
            r['i_replay'] = len(exprs)
            exprs.append(term)
            r['i_valid'] = len(exprs)
            exprs.append(VS.coq_valid(vt, d, t, r['struct']))
            r['edge_problems'], r['fams'] = check_edge_copulas(cap, v)
            r['i_theta'] = len(exprs)
            exprs.append('[' + '; '.join(coq_theta(a, b) for a, b in r['fams']) + ']')
        runs.append(per_fill)
    outs = cases.run_vm_cases(ctx, 'Cases_C16_e2e', VS.VM_IMPORTS + '\nFrom CopRun Require Import Gen_bivq.', exprs,
                              per_file=40 if quick else 120, scope_open=VS.VM_SCOPE)
    n_fit = n_agree = 0
    for pi, per_fill in enumerate(runs):
        p = per_fill[0]['p']
        vt, d, t, kind = p['vt'], p['d'], p['t'], p['kind']
        tag = f"{vt}:d{d}:t{t}:{kind}"
        if any(r['exc'] is not None for r in per_fill):
            r = next(r for r in per_fill if r['exc'] is not None)
            ex = r['exc']
            if kind in DEGENERATE and isinstance(ex, ValueError) and not isinstance(ex, VS.SpinError):
                refusals.append(f"{tag}: ValueError: {str(ex)[:60]}")
                ctx.case(('e2e-refused', vt, d, kind), {'level': 'e2e', 'vine_type': vt, 'd': d, 'truncated': t, 'table': kind,
                                                        'outcome': f'ValueError: {ex}'}, nontrivial=False)
                continue
            ctx.obligation(f'fit:{tag}', False, 'correspondence', repr(ex))
            ctx.violation(f'fit-raises:{vt}:{type(ex).__name__}', f'VineCopula({vt!r}).fit on a {kind} table with {d} columns, truncated={t} '
                          f'raised {type(ex).__name__}: {ex}', {'plan': p, 'repro': repro_fit(p, 'raises')})
            continue
        structs = [r['struct'] for r in per_fill]
        for r in per_fill:
            n_fit += 1
            fn = fill_name(r['fill'])
            model = VS.parse_vine(outs[r['i_replay']])
            ok = model == r['struct'] and r['okrec'] and not isinstance(model, str)
            n_agree += ok
            ctx.obligation(f'corr:e2e:{tag}:fill={fn}', ok, 'correspondence',
                           '' if ok else f"impl={r['struct']} model={model} records_consistent={r['okrec']}")
            if not ok:
                taus = [VS.tolist(lv['tau']) for lv in r['cap'].levels]
                ctx.violation(f'corr:e2e:{vt}', f"VineCopula({vt!r}).fit ({kind} table, d={d}, truncated={t}, np.empty fill {fn}) built "
                              f"{r['struct']} but the model replayed with the captured tau matrices gives {model}",
                              {'plan': p, 'fill': fn, 'captured_taus': taus, 'impl': r['struct'], 'model': model,
                               'repro': ("from vf import vinestruct as VS\n" f"taus = {taus!r}\nexpected = {(model if not isinstance(model, str) else 'skip')!r}\n"
                                         f"r = VS.repro_unit({vt!r}, {d}, {t}, taus, expected)\nprint('\\n'.join(r))\nassert not r\n")})
            vres = outs[r['i_valid']]
            vok = vres == 'true'
            ctx.obligation(f'valid:e2e:{tag}:fill={fn}', vok, 'correspondence', '' if vok else f"valid_vine = {vres} on {r['struct']}")
            probs = VS.py_validate(vt, d, t, r['struct'], r['cap'].levels[0]['tau'])
            if not vok or probs:
                ctx.violation(f'invalid-vine:e2e:{vt}', f"VineCopula({vt!r}).fit on a {kind} table with {d} columns, truncated={t} is not a regular "
                              f"vine of that type/depth: {probs[:3] or 'rejected by the Coq validator valid_vine'}",
                              {'plan': p, 'fill': fn, 'impl': r['struct'], 'problems': probs, 'coq_valid_vine': vres,
                               'repro': repro_fit(p, 'valid')})
            th = outs[r['i_theta']]
            th_ok = th is not None and 'false' not in th and th.count('true') == len(r['fams'])
            e_ok = not r['edge_problems'] and th_ok
            ctx.obligation(f'edges:e2e:{tag}:fill={fn}', e_ok, 'correspondence',
                           '' if e_ok else f"{r['edge_problems'][:3]} coq check_theta={th} for {r['fams']}")
            if not e_ok:
                ctx.violation(f'edge-copula:{vt}', f"VineCopula({vt!r}).fit ({kind} table, d={d}, truncated={t}): an edge does not carry the copula "
                              f"select_copula returned for its input columns, or its theta is not admissible: "
                              f"{r['edge_problems'][:2] or [x for x, y in zip(r['fams'], (th or '').strip('[]').split(';')) if 'true' not in y][:2]}",
                              {'plan': p, 'fill': fn, 'problems': r['edge_problems'], 'families': r['fams'], 'coq_check_theta': th,
                               'repro': repro_fit(p, 'edges')})
            for a, _ in r['fams']:
                fam_count[a] = fam_count.get(a, 0) + 1
        r0 = per_fill[0]
        ctx.case(('e2e', vt, d, t, kind, digest(structs[0])),
                 {'level': 'e2e', 'vine_type': vt, 'd': d, 'truncated': t, 'table': kind, 'rows': p['n'], 'table_seed': p['tseed'],
                  'structure': structs[0], 'families': r0['fams'][:6]}, nontrivial=d >= 3)
        # F8: does anything depend on the np.empty fill?
        if any(s != structs[0] for s in structs[1:]):
            first = next(k for k in range(len(structs[0])) if any(s[k] != structs[0][k] for s in structs[1:]))
            ctx.violation(f'F8:{vt}-structure-depends-on-uninitialised-tau:tree{first + 1}',
                          f"VineCopula({vt!r}).fit ({kind} table, {d} columns, truncated={t}): tree {first + 1} depends on the content of the "
                          f"np.empty matrix of Tree.get_tau_matrix (cells never written are read by _build_kth_tree): "
                          + ' / '.join(f'fill {fill_name(f)}: {[(e[1], e[2]) for e in s[first]]}' for f, s in zip(FILLS, structs)),
                          {'plan': p, 'first_differing_tree': first + 1, 'structures': {fill_name(f): s for f, s in zip(FILLS, structs)},
                           'repro': repro_fit(p, 'fill')})
            f8_tau.setdefault(vt + ':structure', []).append(tag)
        elif not all(VS.same_floats(r['etaus'], r0['etaus']) for r in per_fill[1:]):
            lv = next(k for k in range(len(r0['etaus'])) if not all(VS.same_floats([r['etaus'][k]], [r0['etaus'][k]]) for r in per_fill[1:]))
            f8_tau.setdefault(f'{vt}:edge.tau-only:first-at-tree{lv + 1}', []).append(tag)
        nr = unwritten_reads(r0['cap'], r0['v'], vt)
        for tk, cnt in nr.items():
            f8_reads[f'{vt}:tree{tk}'] = f8_reads.get(f'{vt}:tree{tk}', 0) + cnt
        # outside the F8 zone (regular/direct trees >= 3) every cell that is read must have been written
        early = {tk: c for tk, c in nr.items() if vt == 'center' or tk <= 2}
        ctx.obligation(f'tau-written:{tag}', not early, 'correspondence', f'unwritten tau cells read: {early}')
        if early:
            tk = min(early)
            ctx.violation(f'F8:{vt}-reads-unwritten-tau:tree{tk}', f"VineCopula({vt!r}).fit ({kind} table, {d} columns, truncated={t}): building tree {tk} "
                          f"reads {early[tk]} cell(s) of the tau matrix that Tree.get_tau_matrix never wrote",
                          {'plan': p, 'unwritten_reads_per_tree': nr, 'repro': repro_fit(p, 'unwritten')})
        # the level-1 matrix is the pairwise Kendall tau of the table
        km = kendall_matrix(e2e_table(p['tseed'], d, p['n'], kind))
        t0 = r0['cap'].levels[0]['tau']
        k_ok = t0.shape == km.shape and bool(np.allclose(t0, km, rtol=0, atol=1e-9, equal_nan=True))
        ctx.obligation(f'tau-level1:{tag}', k_ok, 'correspondence', '' if k_ok else f'Tree.fit got {t0.tolist()} but pairwise Kendall tau is {km.tolist()}')
        if not k_ok:
            ctx.violation(f'tau-level1-not-kendall:{vt}', f"VineCopula({vt!r}).fit ({kind} table, {d} columns): the matrix handed to the first tree is not the "
                          f"pairwise Kendall tau of the table", {'plan': p, 'given': VS.tolist(t0), 'kendall': VS.tolist(km), 'repro': repro_fit(p, 'kendall')})
        elif vt == 'regular':
            probs = VS.py_validate(vt, d, t, structs[0], km)
            if probs:
                ctx.violation('invalid-vine:e2e:regular', f"VineCopula('regular').fit ({kind} table, {d} columns): {probs[:2]}",
                              {'plan': p, 'problems': probs, 'repro': repro_fit(p, 'valid')})
    ctx.extra['e2e'] = {'fits': n_fit, 'replays_agreeing': n_agree, 'plans': len(plan), 'families_selected': fam_count,
                        'refused_degenerate_tables': refusals[:20]}
    ctx.extra['F8_dependence_on_np_empty_fill'] = {k: (len(v), v[:4]) for k, v in sorted(f8_tau.items())}
    ctx.extra['F8_unwritten_tau_cells_read'] = f8_reads


def _run(ctx):
    quick = ctx.tier == 'quick'
    status = biv.generate_q(ctx)
    need = ['clayton_dom', 'frank_dom', 'gumbel_dom']
    for k in need:
        ctx.obligation(f'translate:{k}', not status.get(k, 'missing'), 'translation', status.get(k, 'missing') or '')
    # the edge kernel of tree.py, generated from the AST and proved equal to Model.Vine ([C16_bridge_*] in Props/C16.v).  A failed
    # translation leaves the definition out of Gen_vinekernel.v: the bridge theorem cannot be checked and C16.v fails at it; the
    # correspondence and the witness search below run regardless.
    kstatus = vinegen.generate(ctx)
    vinegen.record(ctx, kstatus, [k for k in vinegen.NAMES if k != 'gen_get_conditional_uni'])
    ctx.copy_src('Props/C16.v')
    ctx.compile(['Gen_bivq.v', 'Gen_vinekernel.v', 'C16.v'])
    # the tree construction (sort_tau_by_y, the builders, Tree.fit, train_vine), generated from the AST and proved equal to Model.Vine
    # ([C16_bridge_*] in Props/C16_build.v); compiled separately so that a failure here does not hide the theorems of C16.v
    bstatus = vinebuildgen.generate(ctx, kstatus)
    vinebuildgen.record(ctx, bstatus)
    ctx.copy_src('Props/C16_build.v')
    # the Prim loops of RegularTree (tools/vf/vineregulargen.py: the translators `gen_regular_first` / `gen_regular_kth` of vinebuildgen.TRANSLATORS,
    # recorded above) and, with them, the generated dispatch / Tree.fit / train_vine / VineCopula.fit for all three vine types: C16_regular.v
    ctx.copy_src('Props/C16_regular.v')
    ctx.compile(['Gen_vinebuild.v', 'C16_build.v', 'C16_regular.v'])
    # Tree.get_tau_matrix and VineCopula.__init__ / fit outside train_vine (tools/vf/vinefitgen.py; bridges + F8 on the generated functions: C16_fit.v)
    vinefitgen.record(ctx, vinefitgen.generate(ctx, kstatus))
    ctx.copy_src('Props/C16_fit.v')
    ctx.compile(['Gen_vinefit.v', 'C16_fit.v'])
    ctx.rule('unit level: real VineCopula.train_vine + Tree.fit + CenterTree/DirectTree/RegularTree with synthetic tau matrices per level '
             '(select_copula, get_tau_matrix, prepare_next_tree stubbed): every strict ordering of the pairwise |tau| ranks for d = 2,3,4 '
             '(40 sampled orderings of the 720 for d = 4 in the quick tier) with random signs, and boundary-biased random matrices for d = 2..7 '
             '(quarter grid with many ties, three-valued matrices, +-1, 0, denormal, NaN variables, NaN cells; levels >= 2 asymmetric), truncation in {0,1,2,3,d-1,d+2}; '
             'numpy argsort order and Python set-iteration orders recorded and replayed; all trees compared with vm_compute of '
             'Model.Vine.train_vine_gen_opt; Spec.VineValid.valid_vine evaluated on the implementation output')
    ctx.rule('end to end: VineCopula(type).fit(table, truncated=t) for type in center/direct/regular, 2..7 columns, t in {1,2,3,d-1,d+2}, tables of '
             '60..100 rows (Gaussian, strongly dependent, heavy-tailed, non-linear, rounded/tied, independent, monotone/anti-monotone/binary/duplicated '
             'column), each under three np.empty fills (NaN, 0.123, 2.0) of copulas.multivariate.tree; tau matrices handed to Tree.fit captured and '
             'replayed in the model; valid_vine on the output; (family, theta) of every edge against the captured select_copula calls, the '
             'implementation check_theta and Model.BivCtl.check_theta on the generated domains')
    ctx.rule('witness search: independent Python statement of the property (tree count/edge counts/spanning tree/star/path/proximity/'
             'D = intersection/pair = symmetric difference/|D| = k-1/no pair twice; regular first tree total |tau| = own Kruskal maximum) on every output')
    unit_level(ctx, quick)
    e2e_level(ctx, quick)
    ctx.trusted += ['Model.Vine is a hand-written transcription of copulas/multivariate/tree.py and VineCopula.train_vine (structure only); tied by the replay correspondence; '
                    'its edge kernel (check_constraint, identify_eds_ing, is_adjacent, sort_edge / edge_key_le, get_child_edge, get_constraints) is in addition proved '
                    'equal to definitions generated from the AST on every run (tools/vf/vinegen.py, denotations of the Python set operations, of sorted(key=) and of the '
                    'append loop: coq/Lib/PySet.v - the translator and these denotations are trusted, the equality is proved)',
                    'scipy.stats.kendalltau / DataFrame.corr(method="kendall"), GaussianKDE marginals and select_copula are oracles: the tau matrices and the '
                    '(family, theta) pairs are captured values',
                    "numpy argsort tie-breaking and Python set iteration order enter the model as recorded data (the theorems hold for every order / every "
                    "tie-breaking that sorts row 0 last)",
                    'the harness instruments copulas.multivariate.tree by monkeypatching (Tree.fit, _sort_tau_by_y, _check_constraint, sorted, np.empty, select_copula), restored afterwards',
                    'tree construction (_sort_tau_by_y, get_anchor, Center/Direct builders, get_tree, Tree.fit, train_vine, VineCopula.fit slice) generated from the AST by tools/vf/vinebuildgen.py and '
                    'proved equal to Model.Vine in Props/C16_build.v; trusted: the translator and the numpy denotations of coq/Lib/PyMat.v',
                    'the Prim loops of RegularTree (_build_first_tree / _build_kth_tree) generated from the AST by tools/vf/vineregulargen.py and proved equal to Model.Vine '
                    '(prim_loop / cands / regular_first_run / regular_kth_fuel) in Props/C16_regular.v under sel_in, sel_some, perm_fun (stated in the theorems); trusted: the '
                    'translator and the denotations of coq/Lib/PyPrim.v (insertion-ordered sets, sorted(..)[0] = sel . order, list(unvisited)[0] = the least element, '
                    'while = recursion on fuel n_nodes); docs/vineregular_section.md']
    ctx.assumptions += ['tau entries are finite floats or NaN (exact rationals in the model); level-1 tau has no entry <= -10 (true of any Kendall tau) for the D-vine path theorem',
                        'proximity of regular vines beyond tree 3 and "no pair conditioned twice" for regular vines are not proved in general: checked per run by valid_vine',
                        'statistical content (which family is selected, quality of theta) is C10/C11; here only: the edge stores what select_copula returned and theta passes check_theta',
                        'the k-th tree (k >= 2) of a regular vine is NOT claimed to be a maximum spanning tree (get_tau_matrix writes tau of edge i alone into row i, F8)']


@contextlib.contextmanager
def _cpu_watchdog(seconds):
    """the oracles below fit the REAL classes without the capture harness (no spin guard): a library whose Prim loop does not terminate must
    not hang the check.  CPU time of this process (ITIMER_VIRTUAL: independent of the SIGALRM timers the oracles use), re-armed every 5 s"""
    def fire(sig, frm):
        raise TimeoutError(f'the oracles on the real classes used more than {seconds} s of CPU time (a fit that does not terminate?)')
    old = signal.signal(signal.SIGVTALRM, fire)
    signal.setitimer(signal.ITIMER_VIRTUAL, seconds, 5)
    try:
        yield
    finally:
        signal.setitimer(signal.ITIMER_VIRTUAL, 0)
        signal.signal(signal.SIGVTALRM, old)


def run(ctx):
    """the check proper, then the re-fit history oracle on the real class (always, also after a broken translation)"""
    from .. import extra_oracles
    try:
        _run(ctx)
    finally:
        try:
          with _cpu_watchdog(300):
            extra_oracles.vine_history(ctx, ('structure',))
            from .. import extra_oracles2
            extra_oracles2.vine_api(ctx, ('positional-seed', 'duplicated-rows'))
            from .. import extra_oracles3
            extra_oracles3.vine_round6(ctx, 'C16')
        except Exception as ex:       # the oracle itself must never hide the result of the check proper
            ctx.obligation('oracle:extra:raised', False, 'correspondence', repr(ex))
            ctx.violation('oracle:extra:raised:' + type(ex).__name__, 'history oracle raised ' + repr(ex), {'repro': '# see tools/vf/extra_oracles.py'})
