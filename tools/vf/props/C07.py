"""C07 — copula density and conditional CDF are the derivatives of the CDF."""
import numpy as np
from .. import biv, cases, implbiv
from ..core import frac

FAMS = ['clayton', 'frank', 'gumbel']
NEEDED = ['{f}_cumulative_distribution', '{f}_partial_derivative', '{f}_probability_density']
IMPORTS = 'From CopRun Require Import Gen_biv.'


def repro(fam, th, pts, meth):
    return (f"import numpy as np\nfrom copulas.bivariate import Bivariate\nc=Bivariate(copula_type='{fam}'); c.theta={th!r}\n"
            f"X=np.array({[list(map(float, p)) for p in pts]!r})\nprint(c.{meth}(X))\n")


def unfolds_for(fam, meth):
    u = [f'{fam}_{meth}']
    if fam == 'frank':
        u.append('frank__g')
    if fam == 'gumbel' and meth != 'cumulative_distribution':
        u.append('gumbel_cumulative_distribution')
    return u


# designed extreme cases of the stated box (|tau| <= 0.8, [1e-4, 1-1e-4]^2): the ends of every family's parameter range at the four corners
# and next to the diagonal, where a formula that is algebraically equal but numerically fragile (cancellation, overflow) shows first
DESIGNED = [(fam, meth, th, u, v)
            for fam, ths in (('clayton', [8.0, 0.05]), ('frank', [18.2, -18.2, 0.05]), ('gumbel', [5.0, 1.02]))
            for th in ths
            for meth in ('partial_derivative', 'probability_density')
            for (u, v) in ((0.999, 0.999), (1 - 1e-4, 1 - 1e-4), (1e-4, 1e-4), (1e-4, 1 - 1e-4), (1 - 1e-4, 1e-4), (0.9999, 0.98), (0.5, 0.5001))]


def corr_goals(ctx, n):
    rng = np.random.default_rng(ctx.seed + 7)
    goals = []
    designed = DESIGNED if ctx.tier != 'quick' else [d for k, d in enumerate(DESIGNED) if d[3:] in ((0.999, 0.999), (1e-4, 1e-4), (1 - 1e-4, 1e-4)) and d[2] in (8.0, 18.2, -18.2, 5.0)]
    for i in range(n + len(designed)):
        fam = FAMS[i % 3]
        meth = ['partial_derivative', 'probability_density'][(i // 3) % 2]
        th = implbiv.sample_theta(rng, fam, edge=(rng.random() < 0.15))
        u, v = (float(x) for x in rng.uniform(1e-4, 1 - 1e-4, 2))
        if rng.random() < 0.25:     # near the corners of the stated box
            u = float(rng.choice([1e-4, 1 - 1e-4, rng.uniform(0.98, 1 - 1e-4)]))
            v = float(rng.choice([1e-4, 1 - 1e-4, rng.uniform(0.98, 1 - 1e-4)]))
        if i >= n:
            fam, meth, th, u, v = designed[i - n]
        c = implbiv.make(fam, th)
        with np.errstate(all='ignore'):
            y = float(np.asarray(getattr(c, meth)(np.array([[u, v]])))[0])
        name = f'{fam}_{meth}'
        meta = {'fn': name, 'theta': th, 'u': u, 'v': v, 'impl': y}
        goals.append({'term': f'{name} {frac(th)} {frac(u)} {frac(v)}', 'y': y, 'tol': cases.tol_for(y),
                      'unfolds': unfolds_for(fam, meth), 'meta': meta})
        ctx.case((name, th, u, v), meta)
    return goals


def search(ctx, n_theta, n_pts):
    rng = np.random.default_rng(ctx.seed + 707)
    found = 0

    def hit(key, what, rep):
        nonlocal found
        found += 1
        ctx.violation(key, what, rep, found=True)
    for fam in FAMS:
        for it in range(n_theta):
            th = implbiv.sample_theta(rng, fam, edge=(it < 2))
            if fam == 'gumbel' and it == 2:
                th = 1.0                      # the independence member of the family (theta = 1 exactly)
            try:
                c = implbiv.make(fam, th)
                u = rng.uniform(1e-3, 1 - 1e-3, n_pts)
                v = rng.uniform(1e-3, 1 - 1e-3, n_pts)
                X = np.column_stack([u, v])
                with np.errstate(all='ignore'):
                    H = np.asarray(c.partial_derivative(X), dtype=float)
                    D = np.asarray(c.probability_density(X), dtype=float)
                    Ds = np.asarray(c.probability_density(X[:, ::-1].copy()), dtype=float)
                    L = np.asarray(c.log_probability_density(X), dtype=float)
                    d = 1e-6
                    Cp = np.asarray(c.cumulative_distribution(np.column_stack([u, v + d])), dtype=float)
                    Cm = np.asarray(c.cumulative_distribution(np.column_stack([u, v - d])), dtype=float)
                    Hp = np.asarray(c.partial_derivative(np.column_stack([u + d, v])), dtype=float)
                    Hm = np.asarray(c.partial_derivative(np.column_stack([u - d, v])), dtype=float)
                fdh = (Cp - Cm) / (2 * d)
                fdc = (Hp - Hm) / (2 * d)

                def first(mask):
                    idx = np.where(mask)[0]
                    return int(idx[0]) if len(idx) else None
                i = first(~np.isfinite(H) | (H < -1e-9) | (H > 1 + 1e-9))
                if i is not None:
                    hit(f'search:h-range:{fam}', f'{fam} theta={th}: partial_derivative={H[i]!r} outside [0,1] at ({u[i]!r},{v[i]!r})',
                        {'family': fam, 'theta': th, 'u': u[i], 'v': v[i], 'h': H[i], 'repro': repro(fam, th, [(u[i], v[i])], 'partial_derivative')})
                i = first(np.abs(H - fdh) > 2e-4 * (1 + np.abs(H)))
                if i is not None:
                    hit(f'search:h-is-dCdv:{fam}', f'{fam} theta={th}: partial_derivative {H[i]!r} != central difference of CDF {fdh[i]!r} at ({u[i]!r},{v[i]!r})',
                        {'family': fam, 'theta': th, 'u': u[i], 'v': v[i], 'h': H[i], 'fd': fdh[i],
                         'repro': repro(fam, th, [(u[i], v[i])], 'partial_derivative') + repro(fam, th, [(u[i], v[i] + d), (u[i], v[i] - d)], 'cumulative_distribution')})
                i = first(~np.isfinite(D) | (D < 0))
                if i is not None:
                    hit(f'search:pdf-nonneg:{fam}', f'{fam} theta={th}: probability_density={D[i]!r} at ({u[i]!r},{v[i]!r})',
                        {'family': fam, 'theta': th, 'u': u[i], 'v': v[i], 'pdf': D[i], 'repro': repro(fam, th, [(u[i], v[i])], 'probability_density')})
                i = first(np.abs(D - Ds) > 1e-6 * (1 + np.abs(D)))
                if i is not None:
                    hit(f'search:pdf-symmetric:{fam}', f'{fam} theta={th}: density not symmetric at ({u[i]!r},{v[i]!r}): {D[i]!r} vs {Ds[i]!r}',
                        {'family': fam, 'theta': th, 'u': u[i], 'v': v[i], 'pdf': D[i], 'pdf_swapped': Ds[i],
                         'repro': repro(fam, th, [(u[i], v[i]), (v[i], u[i])], 'probability_density')})
                i = first(np.abs(D - fdc) > 2e-3 * (1 + np.abs(D)))
                if i is not None:
                    hit(f'search:pdf-is-mixed-derivative:{fam}', f'{fam} theta={th}: probability_density {D[i]!r} != central difference of partial_derivative {fdc[i]!r} at ({u[i]!r},{v[i]!r})',
                        {'family': fam, 'theta': th, 'u': u[i], 'v': v[i], 'pdf': D[i], 'fd': fdc[i],
                         'repro': repro(fam, th, [(u[i], v[i])], 'probability_density') + repro(fam, th, [(u[i] + d, v[i]), (u[i] - d, v[i])], 'partial_derivative')})
                with np.errstate(all='ignore'):
                    i = first(np.abs(L - np.log(D)) > 1e-9 * (1 + np.abs(L)))
                if i is not None:
                    hit(f'search:log-pdf:{fam}', f'{fam} theta={th}: log_probability_density {L[i]!r} != log(pdf) {np.log(D[i])!r}',
                        {'family': fam, 'theta': th, 'u': u[i], 'v': v[i], 'repro': repro(fam, th, [(u[i], v[i])], 'log_probability_density')})
                # h monotone in u
                us = np.sort(rng.uniform(1e-3, 1 - 1e-3, 60))
                vv = float(rng.uniform(1e-3, 1 - 1e-3))
                with np.errstate(all='ignore'):
                    hm = np.asarray(c.partial_derivative(np.column_stack([us, np.full_like(us, vv)])), dtype=float)
                i = first(np.diff(hm) < -1e-9)
                if i is not None:
                    hit(f'search:h-monotone:{fam}', f'{fam} theta={th}: partial_derivative decreases in u between {us[i]!r} and {us[i+1]!r} at v={vv!r}',
                        {'family': fam, 'theta': th, 'u1': us[i], 'u2': us[i + 1], 'v': vv, 'h1': hm[i], 'h2': hm[i + 1],
                         'repro': repro(fam, th, [(us[i], vv), (us[i + 1], vv)], 'partial_derivative')})
                # rows independent
                k = rng.integers(0, n_pts, 20)
                for meth in ('partial_derivative', 'probability_density'):
                    with np.errstate(all='ignore'):
                        alone = np.array([float(np.asarray(getattr(c, meth)(X[j:j + 1]))[0]) for j in k])
                        inb = np.asarray(getattr(c, meth)(X[k]), dtype=float)
                    i = first(alone != inb)
                    if i is not None:
                        hit(f'search:rowwise:{meth}:{fam}', f'{fam} theta={th}: {meth} of row {X[k[i]].tolist()} differs alone vs in batch',
                            {'family': fam, 'theta': th, 'row': X[k[i]].tolist(), 'alone': alone[i], 'in_batch': inb[i],
                             'repro': repro(fam, th, X[k].tolist(), meth)})
                ctx.case(f'search:{fam}:{round(th, 6)}', None)
            except Exception as ex:
                hit(f'search:exception:{fam}:{type(ex).__name__}', f'{fam} theta={th}: raised {type(ex).__name__}: {ex}',
                    {'family': fam, 'theta': th, 'error': repr(ex), 'repro': repro(fam, th, [(0.3, 0.7)], 'probability_density')})
    # Frank next to the independence member: for 0 < |theta| <= 1e-6 (valid parameters) the first-order expansions
    # h = u + theta u(1-u)(1-2v)/2 + O(theta^2), c = 1 + theta (1-2u)(1-2v)/2 + O(theta^2), C = uv + O(theta) bound the distance to
    # (u, 1, uv) by |theta|; the implementation's own rounding there is below 3e-7 (measured 2.5e-8).  Finite differences are useless at
    # this scale (C carries 3e-9 absolute rounding), so the limit itself is the oracle.
    for th in (5e-8, -5e-8, 1e-6, -1e-6, 3e-10):
        c = implbiv.make('frank', th)
        u = rng.uniform(1e-3, 1 - 1e-3, n_pts)
        v = rng.uniform(1e-3, 1 - 1e-3, n_pts)
        X = np.column_stack([u, v])
        try:
            with np.errstate(all='ignore'):
                H = np.asarray(c.partial_derivative(X), dtype=float)
                D = np.asarray(c.probability_density(X), dtype=float)
                L = np.asarray(c.log_probability_density(X), dtype=float)
            for meth, got, want, tol in (('partial_derivative', H, u, 1e-5), ('probability_density', D, np.ones_like(u), 1e-4),
                                         ('log_probability_density', L, np.zeros_like(u), 1e-4)):
                err = np.abs(got - want)
                err[~np.isfinite(got)] = np.inf
                i = int(np.argmax(err))
                if err[i] > tol:
                    hit(f'search:frank-near-independence:{meth}', f'frank theta={th!r}: {meth}({u[i]!r},{v[i]!r}) = {got[i]!r}, but within |theta| of the '
                        f'independence copula the value is {want[i]!r} up to {tol}',
                        {'family': 'frank', 'theta': th, 'u': u[i], 'v': v[i], 'value': got[i], 'repro': repro('frank', th, [(u[i], v[i])], meth)})
        except Exception as ex:
            hit(f'search:exception:frank:{type(ex).__name__}', f'frank theta={th}: raised {type(ex).__name__}: {ex}',
                {'family': 'frank', 'theta': th, 'error': repr(ex), 'repro': repro('frank', th, [(0.3, 0.7)], 'probability_density')})
        ctx.case(f'search:frank-near-independence:{th}', None)
    # history oracle: an instance whose theta is changed between evaluations must behave like a fresh one
    for fam in FAMS:
        for it in range(4):
            th1, th2 = implbiv.sample_theta(rng, fam), implbiv.sample_theta(rng, fam)
            X = np.column_stack([rng.uniform(1e-3, 1 - 1e-3, 30), rng.uniform(1e-3, 1 - 1e-3, 30)])
            c = implbiv.make(fam, th1)
            for meth in ('cumulative_distribution', 'partial_derivative', 'probability_density'):
                with np.errstate(all='ignore'):
                    getattr(c, meth)(X)
            c.theta = th2
            fresh = implbiv.make(fam, th2)
            for meth in ('cumulative_distribution', 'partial_derivative', 'probability_density'):
                with np.errstate(all='ignore'):
                    a = np.asarray(getattr(c, meth)(X), dtype=float)
                    b = np.asarray(getattr(fresh, meth)(X), dtype=float)
                if not np.array_equal(a, b, equal_nan=True):
                    i = int(np.where(a != b)[0][0])
                    hit(f'search:stale-state:{meth}:{fam}', f'{fam}: {meth} after changing theta {th1} -> {th2} on the same instance differs from a fresh instance at {X[i].tolist()}: {a[i]!r} vs {b[i]!r}',
                        {'family': fam, 'theta_before': th1, 'theta_after': th2, 'point': X[i].tolist(), 'reused': a[i], 'fresh': b[i],
                         'repro': (f"import numpy as np\nfrom copulas.bivariate import Bivariate\nX=np.array({X[i:i+1].tolist()!r})\n"
                                   f"c=Bivariate(copula_type='{fam}'); c.theta={th1!r}\nc.cumulative_distribution(X); c.partial_derivative(X); c.probability_density(X)\nc.theta={th2!r}\n"
                                   f"f=Bivariate(copula_type='{fam}'); f.theta={th2!r}\na=c.{meth}(X); b=f.{meth}(X)\nprint(a,b)\nassert np.array_equal(a,b)\n")})
            ctx.case(f'search:stale:{fam}:{it}', None)
    ctx.rule('search: per family, thetas x points in [1e-3,1-1e-3]^2: h in [0,1], h vs central difference of C, h monotone in u, pdf>=0, '
             'pdf symmetric, pdf vs central difference of h, log pdf, row-vs-batch equality')
    return found


def _run(ctx):
    quick = ctx.tier == 'quick'
    status = biv.generate(ctx)
    needed = [p.format(f=f) for f in FAMS for p in NEEDED] + ['bivariate_log_probability_density']
    bad = {k: v for k, v in status.items() if k in needed and v}
    for k in needed:
        ctx.obligation(f'translate:{k}', k not in bad, 'translation', bad.get(k, ''))
    if not bad:
        ctx.copy_src('Bridge/Bridge_biv.v')
        ctx.copy_src('Props/C07.v')
        ctx.compile(['Gen_biv.v', 'Bridge_biv.v', 'C07.v'])
    ctx.rule('correspondence: (family, method in {partial_derivative, probability_density}, theta over the |tau|<=0.8 range, (u,v) in '
             '[1e-4,1-1e-4]^2 with 25% near the corners); Interval certifies |Gen(theta,u,v) - impl| <= 1e-7(1+|impl|)')
    if not bad:
        goals = corr_goals(ctx, 48 if quick else 900)
        for g, err in cases.run_interval_cases(ctx, 'Cases_C07', IMPORTS, goals):
            m = g['meta']
            fam, meth = m['fn'].split('_', 1)
            ctx.violation(f"corr:{m['fn']}:theta={m['theta']!r}:u={m['u']!r}:v={m['v']!r}",
                          f"model and implementation disagree beyond 1e-7 relative on {m}",
                          {'meta': m, 'coq_error': err[-300:], 'repro': repro(fam, m['theta'], [(m['u'], m['v'])], meth)}, found=True)
    ctx.extra['witness_search_hits'] = search(ctx, 6 if quick else 40, 300 if quick else 3000)
    ctx.assumptions += ['IEEE overflow guards (Clayton (A == inf).any()) are constant-false in the real-number model; claimed on [1e-4,1-1e-4]^2 only',
                        'the base-class finite-difference fallback partial_derivative is not used by any family and is not modelled']


def run(ctx):
    """the check proper, then the history / memory-layout oracles on the real classes (always, also after a broken translation)"""
    from .. import extra_oracles
    try:
        _run(ctx)
    finally:
        try:
            extra_oracles.biv_extra(ctx, 'C07')
        except Exception as ex:       # the oracle itself must never hide the result of the check proper
            ctx.obligation('oracle:extra:raised', False, 'correspondence', repr(ex))
            ctx.violation('oracle:extra:raised:' + type(ex).__name__, 'history/layout oracle raised ' + repr(ex), {'repro': '# see tools/vf/extra_oracles.py'})
