"""C03 — every fitted univariate obeys the laws of a distribution function."""
import re
from fractions import Fraction

import numpy as np

from .. import cases, univ
from ..core import frac
from ..univ import O, EPS32

SCIPY_FAMS = ['gaussian', 'uniform', 'beta', 'gamma', 'student_t', 'log_laplace', 'truncated']
QUERY = ['probability_density', 'cumulative_distribution', 'percent_point', 'log_probability_density']

VM_HDR = cases.VM_HDR + '''
Definition showq (q : Q) : Z * Z := let r := Qred q in (Qnum r, Zpos (Qden r)).
Definition showoq (o : option Q) : option (Z * Z) := option_map showq o.
Definition showqq (p : Q * Q) : (Z * Z) * (Z * Z) := (showq (fst p), showq (snd p)).
Definition showroute (r : qroute) : Z := match r with QNegInf => (-1)%Z | QPosInf => 1%Z | QRoot _ _ _ => 0%Z end.
Definition showroutes (o : option (list qroute)) : option (list Z) := option_map (map showroute) o.
'''
VM_IMPORTS = 'From Cop Require Import Model.UnivQ.'
TAB_HDR = '''From Coq Require Import List String.
{imports}
Import ListNotations.
'''
def bounds_tactic(D):
    """certify np.min / np.max of the literal list by naming the extremum, then evaluate mean/std with Interval"""
    mn, mx = frac(float(np.min(D))), frac(float(np.max(D)))
    return ('cbv beta zeta iota delta [gen_kde_get_bounds fst snd]; '
            f'rewrite ?(np_min_is _ {mn}) by minmax_side; rewrite ?(np_max_is _ {mx}) by minmax_side; '
            'cbv [np_std np_var np_mean np_sqrt Rsum map List.length INR]; interval with (i_prec 90)')


def q(x):
    f = Fraction(float(x))
    return f'({f.numerator} # {f.denominator})' if f >= 0 else f'(-({-f.numerator} # {f.denominator}))'


def qlist(a):
    return '[' + '; '.join(q(x) for x in a) + ']'


def rlist(a):
    return '[' + '; '.join(frac(x) for x in a) + ']'


def ints(s):
    return [int(x) for x in re.findall(r'-?\d+', s or '')]


def fracs(s):
    v = ints(s)
    return [Fraction(v[i], v[i + 1]) for i in range(0, len(v) - 1, 2)]


def close(impl, model, tol=1e-12):
    """impl float vs exact model rational"""
    impl = float(impl)
    if not np.isfinite(impl):
        return False
    return abs(Fraction(impl) - model) <= Fraction(tol) * (1 + abs(model))


def pairs(s):
    return re.findall(r'\("([^"]*)", "([^"]*)"\)', s or '')


# ------------------------------------------------------------------------------------------------
#  model specifications
# ------------------------------------------------------------------------------------------------
def make_specs(ctx):
    """(label, spec) for every family x constructor option on generated samples."""
    quick = ctx.tier == 'quick'
    rng = np.random.default_rng(ctx.seed + 3)
    out = []

    def add(label, cls, X, kwargs=None, np_seed=None):
        out.append((label, {'cls': cls, 'kwargs': kwargs or {}, 'X': [float(v) for v in X], 'np_seed': np_seed}))
    reps = 1 if quick else 12
    for rep in range(reps):
        for i, fam in enumerate(SCIPY_FAMS):
            cls = univ.FAM_CLASS[fam]
            X, _, _ = univ.draw_family(rng, fam, int(rng.choice([8, 14, 25])))
            add(f'{fam}:own:{rep}', cls, X)
            X, _, _ = univ.draw_family(rng, fam, 200)
            add(f'{fam}:own200:{rep}', cls, X)
            kind = univ.GENERIC_KINDS[(i + rep + ctx.seed) % len(univ.GENERIC_KINDS)]
            add(f'{fam}:{kind}:{rep}', cls, univ.generic_sample(rng, kind, int(rng.choice([6, 12, 30]))))
        # large offset / tiny spread and tiny magnitudes: many distinct values that are "close" in floating point, never a constant column
        for fam in ('gaussian', 'uniform', 'student_t', 'truncated'):
            add(f'{fam}:bigoffset:{rep}', univ.FAM_CLASS[fam], univ.generic_sample(rng, 'bigoffset', 2000 if fam == 'gaussian' else 60))
            add(f'{fam}:tiny:{rep}', univ.FAM_CLASS[fam], univ.generic_sample(rng, 'tiny', 40))
        add(f'kde:bigoffset:{rep}', 'GaussianKDE', univ.generic_sample(rng, 'bigoffset', 9))
        add(f'kde:tiny:{rep}', 'GaussianKDE', univ.generic_sample(rng, 'tiny', 12))
        add(f'wrapper:bigoffset:{rep}', 'Univariate', univ.generic_sample(rng, 'bigoffset', 2000), {'candidates': ['GaussianUnivariate', 'GaussianKDE']}, np_seed=3)
        add(f'wrapper:tiny:{rep}', 'Univariate', univ.generic_sample(rng, 'tiny', 40), {'parametric': 'PARAMETRIC'}, np_seed=3)
        add(f'uniform:dyadic:{rep}', 'UniformUnivariate', univ.generic_sample(rng, 'dyadic', 9))
        add(f'gaussian:dyadic:{rep}', 'GaussianUnivariate', univ.generic_sample(rng, 'dyadic', 9))
        # truncation bounds given / partly given
        X, _, _ = univ.draw_family(rng, 'truncated', 20, loc=float(rng.uniform(-5, 5)), scale=float(rng.uniform(1, 4)))
        lo, hi = float(np.floor(X.min() - 1)), float(np.ceil(X.max() + 1))
        add(f'truncated:bounds-both:{rep}', 'TruncatedGaussian', X, {'minimum': lo, 'maximum': hi})
        add(f'truncated:bounds-min:{rep}', 'TruncatedGaussian', X, {'minimum': lo})
        add(f'truncated:bounds-max:{rep}', 'TruncatedGaussian', X, {'maximum': hi})
        # GaussianKDE options
        for j, (bw, wt, ss) in enumerate([(None, False, None), ('scott', False, None), ('silverman', False, None), (0.3, False, None),
                                          (1.0, False, None), (None, True, None), ('silverman', True, None), (0.5, True, None),
                                          (None, False, 7), ('silverman', False, 15), (0.8, False, 9), (None, True, 'n')]):
            n = int(rng.choice([6, 9, 12]))
            kind = ['normal', 'bimodal', 'skewed', 'dyadic', 'ties'][(j + rep) % 5]
            X = univ.generic_sample(rng, kind, n)
            kw = {}
            if bw is not None:
                kw['bw_method'] = bw
            if wt:
                kw['weights'] = [float(v) for v in rng.uniform(0.2, 1.0, len(X))]
            if ss is not None:
                kw['sample_size'] = len(X) if ss == 'n' else ss
            add(f'kde:bw={bw}:w={int(wt)}:ss={ss}:{kind}:{rep}', 'GaussianKDE', X, kw, np_seed=int(rng.integers(0, 10 ** 6)))
        add(f'kde:n200:{rep}', 'GaussianKDE', univ.generic_sample(rng, 'bimodal', 200))
        # the selecting wrapper: candidate lists / filters / selection subsample
        Xw = univ.generic_sample(rng, 'normal', 30)
        for lab, kw in [('default', {}), ('parametric', {'parametric': 'PARAMETRIC'}), ('nonparametric', {'parametric': 'NON_PARAMETRIC'}),
                        ('bounded', {'bounded': 'BOUNDED'}), ('semibounded', {'bounded': 'SEMI_BOUNDED'}),
                        ('cand-gauss-unif', {'candidates': ['GaussianUnivariate', 'UniformUnivariate']}),
                        ('cand-kde', {'candidates': ['GaussianKDE']}), ('cand-t-gamma', {'candidates': ['StudentTUnivariate', 'GammaUnivariate']}),
                        ('subsample', {'selection_sample_size': 10, 'candidates': ['GaussianUnivariate', 'BetaUnivariate', 'GaussianKDE']})]:
            add(f'wrapper:{lab}:{rep}', 'Univariate', Xw if lab != 'bounded' else univ.generic_sample(rng, 'unit', 30), kw,
                np_seed=int(rng.integers(0, 10 ** 6)))
    # the witness of the design document for F13b (wide bandwidth, few points)
    add('kde:bw=1.0:n6:design-witness', 'GaussianKDE', np.random.default_rng(0).normal(3, 2, 6), {'bw_method': 1.0})
    # constant samples
    for k, cname in enumerate(list(univ.FAM_CLASS.values())):
        for c in ([2.5] if quick else [2.5, -3.0, 0.0, 1e6 + 0.125]):
            kw = {}
            if cname == 'GaussianKDE' and k % 2 == 1:
                kw = {'sample_size': 4}
            add(f'constant:{cname}:{c}', cname, [c] * (5 + k), kw, np_seed=1)
    return out


def tiny(spec):
    s = dict(spec)
    s['X'] = spec['X'][:6] + (['...'] if len(spec['X']) > 6 else [])
    s['n'] = len(spec['X'])
    return s


# ------------------------------------------------------------------------------------------------
#  witness search on one fitted model
# ------------------------------------------------------------------------------------------------
def search_model(ctx, label, spec, m, hits):
    fam = univ.fam_of(m)
    X = np.asarray(spec['X'], dtype=float)
    k = univ.inner(m)

    def report(key, what, data, oracle, args):
        hits.append(key)
        rep = dict(data)
        rep.update({'model': label, 'spec': spec, 'repro': univ.repro_oracle(oracle, spec, args)})
        ctx.violation(key, f'{label} ({spec["cls"]} {spec["kwargs"]}): {what}', rep, found=True)
    if len(np.unique(X)) == 1:
        r = O.point_mass(m, float(X[0]))
        if r:
            report(f'search:{r["key"]}:{fam}', r['what'], r, 'point_mass', [float(X[0])])
        return
    r = O.not_degenerate(m)
    if r:
        report(f'search:{r["key"]}:{fam}', r['what'] + f' (n = {len(X)}, {len(np.unique(X))} distinct values in [{X.min()!r}, {X.max()!r}])', r, 'not_degenerate', [])
    sd, lo, hi = float(np.std(X)), float(X.min()), float(X.max())
    if fam == 'kde':
        D = np.ravel(np.asarray(k._params['dataset'], dtype=float))
        sd, lo, hi = float(np.std(D)), float(D.min()), float(D.max())
    grid = np.unique(np.concatenate([np.linspace(lo - 8 * sd, hi + 8 * sd, 161), X, [lo - 1e3 * sd, hi + 1e3 * sd, lo - 1e9 * sd, hi + 1e9 * sd]]))
    gl = [float(v) for v in grid]
    # --- CDF laws
    r = O.cdf_laws(m, gl)
    if r:
        key = f'search:{r["key"]}:{fam}'
        if fam == 'kde' and r['key'] == 'cdf-range':
            tail = univ.kde_tail_bound(m)
            lower = float(k._get_bounds()[0])
            Dd = np.ravel(np.asarray(k._params['dataset'], dtype=float))
            if abs(lower - (Dd.min() - 5 * Dd.std())) <= 1e-9 * (1 + abs(lower)) and r['x'] < lower and -tail * (1 + 1e-6) - 1e-15 <= r['value'] < 0:
                key = 'F13a:kde-cdf-outside-unit-interval'
                r['what'] += f' (x is below the lower bound min-5*sigma = {lower!r}; |value| <= Phi(-5 sigma/h) = {tail!r})'
        report(key, r['what'], r, 'cdf_laws', [gl])
    r = O.cdf_limits(m)
    if r:
        key = f'search:{r["key"]}:{fam}'
        if fam == 'kde':
            tail = univ.kde_tail_bound(m)
            if -tail * (1 + 1e-6) - 1e-15 <= r['lo'] <= 0 and 1 - tail * (1 + 1e-6) - 1e-15 <= r['hi'] <= 1:
                key = 'F13a:kde-cdf-outside-unit-interval'
        report(key, r['what'], r, 'cdf_limits', [])
    # --- short names
    r = O.aliases(m, [float(v) for v in np.linspace(lo, hi, 5)])
    if r:
        report(f'search:{r["key"]}:{fam}', r['what'], r, 'aliases', [[float(v) for v in np.linspace(lo, hi, 5)]])
    # --- density
    r = O.pdf_nonneg(m, gl)
    if r:
        report(f'search:{r["key"]}:{fam}', r['what'], r, 'pdf_nonneg', [gl])
    qs_in = [0.05, 0.2, 0.4, 0.6, 0.8, 0.95]
    try:
        with np.errstate(all='ignore'):
            xq = [float(v) for v in np.asarray(m.percent_point(np.array(qs_in)), dtype=float)]
    except Exception:
        xq = [float(v) for v in np.quantile(X, qs_in)]
    for a, b in zip(xq[:-1:2], xq[1::2]):
        if np.isfinite(a) and np.isfinite(b) and a < b:
            r = O.pdf_integrates(m, a, b)
            if r:
                report(f'search:{r["key"]}:{fam}', r['what'], r, 'pdf_integrates', [a, b])
                break
    # --- log density
    pts = [float(v) for v in np.linspace(lo - sd, hi + sd, 25)]
    r = O.log_pdf(m, pts)
    if r:
        key = f'search:{r["key"]}:{fam}'
        if fam == 'kde' and r['key'] == 'logpdf-raises-TypeError' and "unexpected keyword argument 'dataset'" in r['what']:
            key = 'F12:kde-log-probability-density-typeerror'
        report(key, r['what'], r, 'log_pdf', [pts])
    # --- quantile function
    qs = [0.0, 1e-12, 1e-9, EPS32 / 2, EPS32, float(np.nextafter(EPS32, 1)), 1e-6, 1e-4, 1e-3, 0.01, 0.05, 0.1, 0.25, 0.4, 0.5, 0.6, 0.75, 0.9, 0.95,
          0.99, 0.999, 1 - 1e-4, 1 - 1e-6, float(np.nextafter(1 - EPS32, 0)), 1 - EPS32, 1 - EPS32 / 2, 1 - 1e-9, 1.0]
    if fam == 'kde':
        # by C03_kde_bracket_iff the solver's bracket is a sign change exactly for u <= F(upper)
        upper = float(k._get_bounds()[1])
        Fhi = float(np.asarray(m.cumulative_distribution(np.array([upper])))[0])
        unsafe = [u for u in qs + [1 - 2e-7] if EPS32 < u < 1 - EPS32 and u > Fhi]
        qs = [u for u in qs if u not in unsafe]
        if unsafe:
            r = O.ppf_laws(m, unsafe[:1])
            if r:
                key = f'search:{r["key"]}:{fam}'
                tail = univ.kde_tail_bound(m)
                Dd = np.ravel(np.asarray(k._params['dataset'], dtype=float))
                genuine = (abs(upper - (Dd.max() + 5 * Dd.std())) <= 1e-9 * (1 + abs(upper)) and Fhi >= 1 - 2 * tail * (1 + 1e-6) - 1e-12)
                if r['key'] == 'ppf-raises-AssertionError' and genuine:     # bracket as designed, cdf(upper) >= 1 - 2 Phi(-5 sigma/h) (kde_cdf_at_U_lower)
                    key = 'F13b:kde-ppf-bracket-invalid'
                    r['what'] = (f'percent_point({unsafe[0]!r}) raises AssertionError: the bracket [min-5 sigma, max+5 sigma] is not a sign change because '
                                 f'cdf(upper) = {Fhi!r} < u (bandwidth h = {float(np.sqrt(k._model.covariance[0, 0]))!r}, sigma = {sd!r})')
                report(key, r['what'], r, 'ppf_laws', [unsafe[:1]])
    r = O.ppf_laws(m, qs)
    if r:
        report(f'search:{r["key"]}:{fam}', r['what'], r, 'ppf_laws', [qs])
    xs = [float(v) for v in np.linspace(lo, hi, 21)]
    r = O.ppf_of_cdf(m, xs, sd)
    if r:
        report(f'search:{r["key"]}:{fam}', r['what'], r, 'ppf_of_cdf', [xs, sd])
    if fam == 'kde':       # both solvers
        us3 = np.array([0.1, 0.5, 0.9])
        try:
            a = np.asarray(k.percent_point(us3, method='bisect'), dtype=float)
            b = np.asarray(k.percent_point(us3), dtype=float)
            ca = np.asarray(k.cumulative_distribution(a), dtype=float)
            if not np.all(np.abs(ca - us3) <= 1e-6):
                key = 'search:kde-bisect-wrong-quantile:kde'
                why = ''
                if np.all(np.abs(a - b) <= 1e-8):      # within bisect's absolute x-tolerance tol=1e-8 of the Chandrupatla root: the tolerance ignores the data scale
                    key = 'F33:kde-ppf-bisect-absolute-tolerance'
                    why = (f'; the roots are within bisect\'s absolute tolerance 1e-8 of the Chandrupatla roots {b.tolist()}, but the data spread is only sigma = {sd!r}')
                hits.append(key)
                ctx.violation(key, f'{label} ({spec["cls"]} {spec["kwargs"]}): percent_point({us3.tolist()}, method="bisect") = {a.tolist()} whose cdf is {ca.tolist()}' + why,
                              {'model': label, 'spec': spec, 'bisect': a.tolist(), 'chandrupatla': b.tolist(), 'cdf_of_bisect': ca.tolist(),
                               'repro': 'import numpy as np, warnings\nwarnings.filterwarnings("ignore")\nfrom vf import univ\n'
                                        f'k = univ.inner(univ.build({spec!r}))\nu = np.array([0.1, 0.5, 0.9])\nx = k.percent_point(u, method="bisect")\n'
                                        'c = k.cumulative_distribution(x)\nprint(x, c)\nassert np.all(np.abs(c - u) <= 1e-6)\n'}, found=True)
        except Exception as ex:
            report(f'search:ppf-bisect-raises-{type(ex).__name__}:kde', f'percent_point(method="bisect") raises {type(ex).__name__}: {ex}', {}, 'ppf_laws', [[0.1, 0.5, 0.9]])


# ------------------------------------------------------------------------------------------------
#  run
# ------------------------------------------------------------------------------------------------
def _run(ctx):
    quick = ctx.tier == 'quick'
    status = univ.generate(ctx)
    for name, err in status.items():
        ctx.obligation(f'translate:{name}', err is None, 'translation', err or '')
    gen_ok = all(v is None for v in status.values())
    gen_compiled = compiled = False
    if gen_ok:
        ctx.copy_src('Props/C03.v')
        gen_compiled = ctx.compile(['Gen_univ.v'])
        compiled = gen_compiled and ctx.compile(['C03.v'])
    ctx.rule('models: each scipy-backed family (Gaussian, Uniform, Beta, Gamma, StudentT, LogLaplace, TruncatedGaussian) on a sample from a member of '
             'the family (n in {8,14,25} and n=200) and on a generic sample (normal/ints/ties/bimodal/skewed/unit/dyadic, >= 5 distinct values); '
             'TruncatedGaussian with both/min/max bounds given; GaussianKDE with bw_method in {default,scott,silverman,0.3,0.5,0.8,1.0} x weights x '
             'sample_size; Univariate wrapper with default/parametric/bounded filters, candidate lists and selection_sample_size; constant samples for '
             'every class')
    ctx.rule('correspondence: constant detection, degenerate-law queries, Uniform fit and cdf/pdf/ppf, KDE percent_point routing evaluated by '
             'vm_compute on the rational mirror (Model.UnivQ, proved equal to the real model, which the bridges prove equal to the generated code) '
             'on the exact binary values; KDE bounds, the arguments handed to ndtr and the weighted sum of the captured ndtr values certified by '
             'Interval; scipy delegation traces (function, arguments, **_params, pass-through) against the generated tables')
    ctx.rule('search: CDF monotone/in [0,1]/limits, pdf >= 0, quadrature of pdf vs CDF increments, cdf(ppf(q)) = q up to the floating-point '
             'resolution of x, ppf(cdf(x)) = x where the density is positive, ppf monotone, log_pdf = log(pdf), constant data = point mass')
    ctx.trusted += ['scipy.stats distribution functions (pdf/cdf/ppf/logpdf/rvs), scipy.special.ndtr, gaussian_kde covariance/weights: oracles '
                    '(captured values); the distribution-function laws of the six scipy-delegated families are scipy\'s']
    ctx.assumptions += ['model.dataset of the scipy gaussian_kde object equals the stored _params["dataset"] (checked on every KDE case)',
                        'probabilities within EPSILON = 2^-23 of 0 / 1 are routed to -inf / +inf by GaussianKDE.percent_point (C03_kde_ppf_routing); '
                        'the round trip cdf(ppf(q)) = q is therefore only required up to EPSILON + Phi(-5 sigma/h) there (documented quirk, not reported)',
                        'the degenerate "density" is a probability mass function (C03_constant_density_is_pmf); the property does not constrain it']

    specs = make_specs(ctx)
    hits = []
    models = []
    fit_errors = {}
    # ------------------------------------------------------------------ fit everything under capture
    for label, spec in specs:
        with univ.Capture() as cap:
            try:
                m = univ.build(spec)
            except Exception as ex:
                fit_errors[label] = f'{type(ex).__name__}: {ex}'
                m = None
            log = list(cap.log)
        models.append((label, spec, m, log))
    ctx.extra['fit_raised'] = fit_errors
    for label, err in fit_errors.items():
        spec = dict(specs)[label]
        fam = label.split(':')[0]
        if fam in ('beta', 'gamma', 'student_t', 'log_laplace') and ':own' not in label:
            # scipy's generic MLE refusing a sample that is not from its family: no fitted model, the property is vacuous there
            ctx.log(f'note: fit raised for {label}: {err[:120]}')
            continue
        ctx.violation(f'search:fit-raises-{err.split(":")[0]}:{fam}', f'{label} ({spec["cls"]} {spec["kwargs"]}): fit raised {err[:300]}',
                      {'model': label, 'spec': spec, 'repro': f'from vf import univ\nm = univ.build({spec!r})\n'}, found=True)

    import time
    t1 = time.time()
    ctx.log(f'fitted {len(models)} models in {t1 - ctx.t0:.1f}s (incl. proofs)')
    # ------------------------------------------------------------------ correspondence
    if gen_compiled:
        correspondence(ctx, models, compiled)
    t2 = time.time()
    ctx.log(f'correspondence {t2 - t1:.1f}s')
    # ------------------------------------------------------------------ witness search (always)
    for label, spec, m, log in models:
        if m is None:
            continue
        try:
            search_model(ctx, label, spec, m, hits)
        except Exception as ex:
            import traceback
            ctx.violation(f'search:exception:{univ.fam_of(m)}:{type(ex).__name__}', f'{label}: oracle raised {type(ex).__name__}: {ex}',
                          {'model': label, 'spec': spec, 'traceback': traceback.format_exc()[-1500:],
                           'repro': f'from vf import univ\nm = univ.build({spec!r})\n'}, found=True)
        ctx.case(('search', label), None, nontrivial=True)
    ctx.log(f'witness search {time.time() - t2:.1f}s')
    ctx.extra['witness_search_hits'] = sorted(set(hits))
    # a failed bridge/translation that the search could not turn into a concrete input is reported by finish()


def correspondence(ctx, models, props_compiled):
    imports_gen = 'From CopRun Require Import Gen_univ.'
    # ---------- static tables, evaluated in Coq
    tabs = cases.run_vm_cases(ctx, 'Cases_C03_tab', imports_gen,
                              ['gen_scipy_delegation', 'gen_wrapper_delegation', 'gen_constant_replacements', 'gen_model_class', 'gen_kde_ppf_solvers',
                               'gen_kde_ppf_shape_error 1', 'gen_kde_ppf_shape_error 2'],
                              hdr=TAB_HDR)
    deleg, wrap, repl, mclass, solvers = (dict(pairs(t)) for t in tabs[:5])
    solvers['shape-error'] = (tabs[5], tabs[6])
    ctx.obligation('corr:tables-evaluated', all(tabs) and all([deleg, wrap, repl, mclass, solvers]), 'correspondence', str(tabs)[:300])
    if not all(tabs):
        return
    exprs, vmeta = [], []          # vm_compute cases
    goals = []                     # interval goals

    def vm(expr, meta):
        exprs.append(expr)
        vmeta.append(meta)
    seen = set()

    def once(kind, fam, sample):
        """evidence samples: one per (kind of case, family), so that the 12 recorded samples are diverse"""
        if (kind, fam) in seen or (kind == 'delegation' and len(seen) > 9):
            return None
        seen.add((kind, fam))
        return {'case': kind, **sample}
    for label, spec, m, log in models:
        if m is None:
            continue
        fam = univ.fam_of(m)
        k = univ.inner(m)
        X = np.asarray(spec['X'], dtype=float)
        is_wrapper = spec['cls'] == 'Univariate'
        const = len(np.unique(X)) == 1
        sample = {'model': label, 'spec': tiny(spec), 'selected': type(k).__name__}
        # ---- constant detection (every model)
        vm(f'showoq (qcheck_constant_value {qlist(X)})', ('const-detect', label, spec, m))
        ctx.case(('const-detect', label), None, nontrivial=True)
        if const:
            c = float(X[0])
            xs = [c - 1.0, float(np.nextafter(c, -np.inf)), c, float(np.nextafter(c, np.inf)), c + 2.5]
            vm(f'(map showq (map (qconst_cdf {q(c)}) {qlist(xs)}), map showq (map (qconst_pdf {q(c)}) {qlist(xs)}), '
               f'map showq (map (qconst_ppf {q(c)}) {qlist([0.0, 0.3, 1.0])}), map showq (qconst_sample {q(c)} 4))', ('const-query', label, spec, m, xs))
            ctx.case(('const-query', label), once('constant-query', 'any', {**sample, 'c': c, 'points': xs}), nontrivial=True)
            # instance-level replacement table
            got = {name: getattr(k, name).__name__ for name in repl if name in k.__dict__}
            ctx.obligation(f'corr:constant-replacements:{label}', got == repl, 'correspondence', f'instance overrides {got} vs generated table {repl}')
            if got != repl:
                ctx.violation(f'corr:constant-replacements:{fam}', f'{label}: degenerate methods installed {got}, generated table {repl}',
                              {'spec': spec, 'repro': f'from vf import univ\nm = univ.inner(univ.build({spec!r}))\nprint(sorted(m.__dict__))\n'
                                                      f'assert {{n: getattr(m, n).__name__ for n in {sorted(repl)!r} if n in m.__dict__}} == {repl!r}\n'})
            continue
        # ---- uniform end to end
        if fam == 'uniform' and not is_wrapper:
            loc, sc = float(k._params['loc']), float(k._params['scale'])
            vm(f'showqq (quniform_fit {qlist(X)})', ('uniform-fit', label, spec, m))
            # evaluation points avoid the two end points up to 2^-20 of the width: there the float and the exact comparison may differ by one rounding
            xs = [loc + t * sc for t in (-0.5, -0.2, -2.0 ** -20, 2.0 ** -20, 0.1, 0.3, 0.5, 0.7, 0.9, 1 - 2.0 ** -20, 1 + 2.0 ** -20, 1.2, 1.5)] + [loc]
            us = [0.0, 0.125, 0.5, 0.8125, 1.0, -0.25, 1.5]
            vm(f'(map showq (map (qunif_cdf {q(loc)} {q(sc)}) {qlist(xs)}), map showq (map (qunif_pdf {q(loc)} {q(sc)}) {qlist(xs)}), '
               f'map showoq (map (qunif_ppf {q(loc)} {q(sc)}) {qlist(us)}))', ('uniform-query', label, spec, m, xs, us))
            ctx.case(('uniform', label), once('uniform-closed-form', 'uniform', {**sample, 'loc': loc, 'scale': sc}), nontrivial=True)
        # ---- aliases pdf/cdf/ppf and (wrapper) delegation to the selected instance, per the generated table
        check_wrapper(ctx, label, spec, m, wrap)
        # ---- scipy delegation trace
        if fam in SCIPY_FAMS:
            check_delegation(ctx, label, spec, m, deleg, mclass, wrap)
            ctx.case(('delegation', label), once('delegation', fam + spec['cls'], {**sample, 'params': {kk: float(vv) for kk, vv in k._params.items()}}), nontrivial=True)
        # ---- KDE
        if fam == 'kde':
            check_kde(ctx, label, spec, m, vm, goals, wrap, solvers)
            ctx.case(('kde', label), once('kde', str(sorted(spec['kwargs'])) + spec['cls'], {**sample, 'bandwidth_factor': float(k._model.factor), 'h2': float(k._model.covariance[0, 0]),
                                                                                 'bounds': [float(v) for v in k._get_bounds()]}), nontrivial=True)
    # ---------- run vm cases
    outs = cases.run_vm_cases(ctx, 'Cases_C03_vm', VM_IMPORTS, exprs, per_file=40, hdr=VM_HDR, scope_open='Open Scope Q_scope.')
    for meta, o in zip(vmeta, outs):
        try:
            judge_vm(ctx, meta, o)
        except Exception as ex:
            ctx.obligation(f'corr:{meta[0]}:{meta[1]}', False, 'correspondence', f'comparison raised {type(ex).__name__}: {ex}; model output {str(o)[:200]}')
    # ---------- interval cases
    if goals:
        hdr = 'From CopRun Require Import Gen_univ.\nFrom Cop Require Import Model.Univariate.\nFrom Coq Require Import String.'
        for g, err in cases.run_interval_cases(ctx, 'Cases_C03_iv', hdr, goals, per_file=max(4, len(goals) // 30 + 1)):
            mt = g['meta']
            ctx.violation(f"corr:kde-{mt['what']}:{mt['model'].split(':')[1] if ':' in mt['model'] else mt['model']}",
                          f"{mt['model']}: generated model and implementation disagree on {mt['what']} ({mt.get('detail', '')}): implementation {g['y']!r}",
                          {'meta': {kk: vv for kk, vv in mt.items() if kk != 'spec'}, 'spec': mt['spec'], 'coq_error': err[-300:],
                           'repro': mt['repro']}, found=True)


def safe(f):
    """implementation call -> float array, or a string describing the exception"""
    try:
        with np.errstate(all='ignore'):
            return np.asarray(f(), dtype=float)
    except Exception as ex:
        return f'raises {type(ex).__name__}: {str(ex)[:120]}'


def show(v):
    return v if isinstance(v, str) else v.tolist()


def exact(impl, model):
    return not isinstance(impl, str) and impl.ndim == 1 and [Fraction(float(v)) if np.isfinite(v) else None for v in impl] == list(model)


def viol_corr(ctx, key, what, spec, extra, body):
    rep = dict(extra)
    rep['spec'] = spec
    rep['repro'] = ('import numpy as np, warnings\nwarnings.filterwarnings("ignore")\nfrom vf import univ\n'
                    f'm = univ.build({spec!r})\n' + body)
    ctx.violation(key, what, rep, found=True)


def judge_vm(ctx, meta, o):
    kind, label, spec, m = meta[:4]
    k = univ.inner(m)
    fam = univ.fam_of(m)
    if o is None:
        ctx.obligation(f'corr:{kind}:{label}', False, 'correspondence', 'model evaluation failed')
        return
    if kind == 'const-detect':
        model_c = fracs(o)[0] if o.startswith('Some') else None
        impl_c = k._constant_value
        ok = (model_c is None and impl_c is None) or (model_c is not None and impl_c is not None and Fraction(float(impl_c)) == model_c)
        ctx.obligation(f'corr:const-detect:{label}', ok, 'correspondence', f'model {o} vs implementation _constant_value={impl_c!r}')
        if not ok:
            viol_corr(ctx, f'corr:constant-detection:{fam}', f'{label}: model says constant value {model_c}, implementation has _constant_value = {impl_c!r}',
                      spec, {'model': o}, f'c = univ.inner(m)._constant_value\nprint(c)\nassert (c is None) == {model_c is None}\n')
    elif kind == 'const-query':
        xs = meta[4]
        parts = re.split(r'\],\s*\[', o)
        mc, mp, mq, ms = (fracs(p) for p in parts)
        c = float(spec['X'][0])
        ic = safe(lambda: m.cumulative_distribution(np.array(xs)))
        ip = safe(lambda: m.probability_density(np.array(xs)))
        iq = safe(lambda: m.percent_point(np.array([0.0, 0.3, 1.0])))
        isam = safe(lambda: m.sample(4))
        okc, okp, okq, oks = (exact(v, w) for v, w in ((ic, mc), (ip, mp), (iq, mq), (isam, ms)))
        ctx.obligation(f'corr:const-query:{label}', okc and okp and okq and oks, 'correspondence',
                       f'cdf {show(ic)} pdf {show(ip)} ppf {show(iq)} sample {show(isam)} vs model {o[:200]}')
        for ok, name, impl, mod in ((okc, 'cumulative_distribution', ic, mc), (okq, 'percent_point', iq, mq), (oks, 'sample', isam, ms),
                                    (okp, 'probability_density', ip, mp)):
            if not ok:
                arg = {'cumulative_distribution': xs, 'probability_density': xs, 'percent_point': [0.0, 0.3, 1.0]}.get(name)
                call = f'm.{name}(np.array({arg!r}))' if arg is not None else 'm.sample(4)'
                viol_corr(ctx, f'corr:constant-{name}:{fam}', f'{label}: constant data {c!r}: {name} = {show(impl)}, point-mass model {[float(v) for v in mod]}',
                          spec, {'impl': show(impl)}, f'r = np.asarray({call}, dtype=float)\nprint(r)\nassert r.tolist() == {[float(v) for v in mod]!r}\n')
    elif kind == 'uniform-fit':
        ml, ms = fracs(o)
        ok = close(k._params['loc'], ml) and close(k._params['scale'], ms)
        ctx.obligation(f'corr:uniform-fit:{label}', ok, 'correspondence', f"impl {k._params} vs model loc={float(ml)!r} scale={float(ms)!r}")
        if not ok:
            viol_corr(ctx, 'corr:uniform-fit', f"{label}: UniformUnivariate fit stores {dict(k._params)}, model (min, max-min) = ({float(ml)!r}, {float(ms)!r})", spec, {},
                      f"p = m._params\nprint(p)\nassert abs(p['loc'] - {float(ml)!r}) <= 1e-12 * (1 + abs(p['loc'])) and abs(p['scale'] - {float(ms)!r}) <= 1e-12 * (1 + abs(p['scale']))\n")
    elif kind == 'uniform-query':
        xs, us = meta[4], meta[5]
        a, b, c = re.split(r'\],\s*\[', o)
        mc, mp = fracs(a), fracs(b)
        mq = [None if 'None' in t else fracs(t)[0] for t in c.split(';')]
        ic = safe(lambda: m.cumulative_distribution(np.array(xs)))
        ip = safe(lambda: m.probability_density(np.array(xs)))
        iq = safe(lambda: m.percent_point(np.array(us)))
        okc = not isinstance(ic, str) and len(ic) == len(mc) and all(close(v, w) for v, w in zip(ic, mc))
        okp = not isinstance(ip, str) and len(ip) == len(mp) and all(close(v, w, 1e-12) for v, w in zip(ip, mp))
        okq = not isinstance(iq, str) and len(mq) == len(us) == len(iq) and \
            all((np.isnan(v) and w is None) or (w is not None and close(v, w)) for v, w in zip(iq, mq))
        ctx.obligation(f'corr:uniform-query:{label}', okc and okp and okq, 'correspondence',
                       f'cdf {show(ic)} pdf {show(ip)} ppf {show(iq)} vs model {o[:300]}')
        for ok, name, arg, impl, mod in ((okc, 'cumulative_distribution', xs, ic, mc), (okp, 'probability_density', xs, ip, mp), (okq, 'percent_point', us, iq, mq)):
            if not ok:
                modf = [None if v is None else float(v) for v in mod]
                viol_corr(ctx, f'corr:uniform-{name}', f'{label}: {name}({arg}) = {show(impl)} but the closed form gives {modf}', spec, {'impl': show(impl), 'model': modf},
                          f'r = np.asarray(m.{name}(np.array({arg!r})), dtype=float)\nprint(r)\nexp = {modf!r}\n'
                          'assert all((e is None and np.isnan(v)) or (e is not None and abs(v - e) <= 1e-12 * (1 + abs(e))) for v, e in zip(r, exp))\n')
    elif kind == 'kde-route':
        us, impl = meta[4], meta[5]
        model = 'error' if o.startswith('None') else ints(o)
        ok = model == impl
        ctx.obligation(f'corr:kde-route:{label}', ok, 'correspondence', f'u={us} implementation {impl} model {model}')
        if not ok:
            viol_corr(ctx, 'corr:kde-ppf-routing', f'{label}: percent_point routing of u={us}: implementation {impl} (-1 = -inf, 0 = root finder, 1 = +inf, "error" = ValueError), '
                      f'model {model}', spec, {'u': us, 'impl': impl, 'model': model},
                      f'u = np.array({us!r})\ntry:\n    r = np.asarray(m.percent_point(u), dtype=float)\n    got = [(-1 if v == -np.inf else 1 if v == np.inf else 0) for v in r]\n'
                      f'except ValueError:\n    got = "error"\nprint(got)\nassert got == {model!r}\n')


def check_delegation(ctx, label, spec, m, deleg, mclass, wrap):
    """each query of a scipy-backed model is exactly ONE call MODEL_CLASS.<fn>(argument, **_params) whose value is returned unchanged"""
    k = univ.inner(m)
    fam = univ.fam_of(m)
    expect_obj = mclass.get(type(k).__name__)
    X = np.asarray(spec['X'], dtype=float)
    xs = np.linspace(X.min(), X.max(), 5)
    args = {'probability_density': xs, 'cumulative_distribution': xs, 'percent_point': np.array([0.1, 0.5, 0.9]), 'log_probability_density': xs}
    bad = []
    with univ.Capture() as cap:
        for meth in QUERY:
            n0 = len(cap.log)
            try:
                out = getattr(m, meth)(args[meth])
            except Exception as ex:
                bad.append(f'{meth} raised {type(ex).__name__}: {ex}')
                continue
            calls = [e for e in cap.log[n0:] if e['obj'].startswith('scipy.stats.')]
            okc = (len(calls) == 1 and calls[0]['obj'] == expect_obj and calls[0]['fn'] == deleg.get(meth) and len(calls[0]['args']) == 1
                   and calls[0]['args'][0] is args[meth] and calls[0]['kwargs'] == k._params and calls[0]['ret'] is out)
            if not okc:
                bad.append(f"{meth}: scipy calls {[(e['obj'], e['fn'], sorted(e['kwargs'])) for e in calls]}, expected one call {expect_obj}.{deleg.get(meth)}(x, **{sorted(k._params)}) returned unchanged")
        n0 = len(cap.log)
        np.random.seed(5)
        out = m.sample(3)
        calls = [e for e in cap.log[n0:] if e['obj'].startswith('scipy.stats.')]
        okc = (len(calls) == 1 and calls[0]['obj'] == expect_obj and calls[0]['fn'] == deleg.get('sample') and not calls[0]['args']
               and calls[0]['kwargs'] == {'size': 3, **k._params} and calls[0]['ret'] is out)
        if not okc:
            bad.append(f"sample: scipy calls {[(e['obj'], e['fn'], sorted(e['kwargs'])) for e in calls]}")
    if spec['cls'] == 'Univariate':
        for alias, meth in wrap.items():
            if alias in ('sample',) or alias not in ('pdf', 'cdf', 'ppf'):
                continue
            a = np.asarray(getattr(m, alias)(args[meth]), dtype=float)
            b = np.asarray(getattr(k, meth)(args[meth]), dtype=float)
            if not np.array_equal(a, b):
                bad.append(f'wrapper.{alias} differs from instance.{meth}')
    ctx.obligation(f'corr:delegation:{label}', not bad, 'correspondence', '; '.join(bad)[:600])
    if bad:
        viol_corr(ctx, f'corr:delegation:{fam}', f'{label}: queries are not the generated delegation to one scipy distribution with the stored parameters: ' + '; '.join(bad)[:400],
                  spec, {'problems': bad},
                  'k = univ.inner(m)\nx = np.array([0.1, 0.5, 0.9])\n'
                  f'import scipy.stats as st\nd = getattr(st, {str(expect_obj).split(".")[-1]!r})\n'
                  'assert np.array_equal(k.cumulative_distribution(x), d.cdf(x, **k._params)) and np.array_equal(k.probability_density(x), d.pdf(x, **k._params)) '
                  'and np.array_equal(k.percent_point(x), d.ppf(x, **k._params)) and np.array_equal(k.log_probability_density(x), d.logpdf(x, **k._params), equal_nan=True)\n')


def check_wrapper(ctx, label, spec, m, wrap):
    """pdf/cdf/ppf are the long-named methods; every Univariate-wrapper query returns what the same method of the selected instance returns"""
    X = np.asarray(spec['X'], dtype=float)
    xs = np.linspace(X.min(), X.max(), 5)
    us = np.array([0.1, 0.5, 0.9])
    arg = {'probability_density': xs, 'cumulative_distribution': xs, 'percent_point': us, 'log_probability_density': xs}
    bad = []

    def same(a, b):
        if isinstance(a, str) or isinstance(b, str):
            return isinstance(a, str) and isinstance(b, str) and a.split(':')[0] == b.split(':')[0]
        return a.shape == b.shape and np.array_equal(a, b, equal_nan=True)
    for alias in ('pdf', 'cdf', 'ppf'):
        target = wrap.get(alias)
        if target not in arg:
            bad.append(f'generated table maps {alias} to {target}')
            continue
        if not same(safe(lambda: getattr(m, alias)(arg[target])), safe(lambda: getattr(m, target)(arg[target]))):
            bad.append(f'{alias}(x) differs from {target}(x)')
    if spec['cls'] == 'Univariate':
        for meth in arg:
            target = wrap.get(meth)
            if target not in arg:
                bad.append(f'generated table maps {meth} to {target}')
                continue
            if not same(safe(lambda: getattr(m, meth)(arg[meth])), safe(lambda: getattr(m._instance, target)(arg[meth]))):
                bad.append(f'wrapper.{meth}(x) differs from instance.{target}(x)')
    ctx.obligation(f'corr:wrapper-delegation:{label}', not bad, 'correspondence', '; '.join(bad))
    if bad:
        viol_corr(ctx, f'corr:wrapper-delegation:{univ.fam_of(m)}', f'{label}: ' + '; '.join(bad), spec, {'problems': bad},
                  'x = np.linspace(min(spec_X), max(spec_X), 5)\nu = np.array([0.1, 0.5, 0.9])\nk = univ.inner(m)\n'
                  'assert np.array_equal(m.cdf(x), k.cumulative_distribution(x)) and np.array_equal(m.pdf(x), k.probability_density(x)) and np.array_equal(m.ppf(u), k.percent_point(u))\n'
                  'assert np.array_equal(m.cumulative_distribution(x), k.cumulative_distribution(x)) and np.array_equal(m.probability_density(x), k.probability_density(x)) '
                  'and np.array_equal(m.percent_point(u), k.percent_point(u))\n'.replace('spec_X', repr(spec['X'])))


def check_kde(ctx, label, spec, m, vm, goals, wrap, solvers):
    k = univ.inner(m)
    D = np.ravel(np.asarray(k._model.dataset, dtype=float))
    P = np.ravel(np.asarray(k._params['dataset'], dtype=float))
    W = np.ravel(np.asarray(k._model.weights, dtype=float))
    same = D.shape == P.shape and np.array_equal(D, P) and W.shape == D.shape
    ctx.obligation(f'corr:kde-dataset:{label}', same, 'correspondence', 'model.dataset vs _params["dataset"]')
    if not same:
        viol_corr(ctx, 'corr:kde-dataset', f'{label}: the scipy object is not built on the stored dataset', spec, {},
                  "k = univ.inner(m)\nassert np.array_equal(np.ravel(k._model.dataset), np.ravel(k._params['dataset']))\n")
        return
    lo, hi = (float(v) for v in k._get_bounds())
    cov = float(k._model.covariance[0, 0])
    sd = float(np.std(D))
    # ---- routing (Q mirror)
    for us in ([0.0, 2.0 ** -24, EPS32, float(np.nextafter(EPS32, 1)), 0.5, float(np.nextafter(1 - EPS32, 0)), 1 - EPS32, 1.0],
               [0.25, 0.75, 1.0000001], [-1e-9, 0.5], [0.3, 0.6, 0.01]):
        upper = float(np.asarray(k.cumulative_distribution(np.array([hi])))[0])
        if any(EPS32 < u < 1 - EPS32 and u > upper for u in us):
            continue
        try:
            with np.errstate(all='ignore'):
                r = np.asarray(m.percent_point(np.array(us)), dtype=float)
            impl = [(-1 if v == -np.inf else 1 if v == np.inf else 0) for v in r]
        except ValueError:
            impl = 'error'
        except Exception as ex:
            impl = type(ex).__name__
        vm(f'showroutes (q_ppf_route {q(lo)} {q(hi)} {qlist(us)})', ('kde-route', label, spec, m, us, impl))
    # ---- 1-d check and solver selection, per the generated facts
    r1 = safe(lambda: m.percent_point(np.array([0.5, 0.25])))
    r2 = safe(lambda: m.percent_point(np.array([[0.5, 0.25]])))
    impl_shape = ('true' if isinstance(r1, str) and r1.startswith('raises ValueError') else 'false',
                  'true' if isinstance(r2, str) and r2.startswith('raises ValueError') else 'false')
    ok = impl_shape == solvers.get('shape-error')
    ctx.obligation(f'corr:kde-ppf-shape-check:{label}', ok, 'correspondence', f'1-d / 2-d input raises ValueError: {impl_shape}, generated {solvers.get("shape-error")}')
    if not ok:
        viol_corr(ctx, 'corr:kde-ppf-shape-check', f'{label}: percent_point on a 1-d / 2-d array raises ValueError: {impl_shape}; generated check says {solvers.get("shape-error")}',
                  spec, {}, 'try:\n    m.percent_point(np.array([[0.5, 0.25]]))\n    raise SystemExit(1)\nexcept ValueError:\n    pass\nm.percent_point(np.array([0.5, 0.25]))\n')
    import copulas.optimize as opt
    import copulas.univariate.gaussian_kde as gk
    used = {}
    orig = (gk.bisect, gk.chandrupatla)
    try:
        gk.bisect = lambda f, a, b, **kw: (used.__setitem__('last', 'copulas.optimize.bisect'), orig[0](f, a, b, **kw))[1]
        gk.chandrupatla = lambda f, a, b, **kw: (used.__setitem__('last', 'copulas.optimize.chandrupatla'), orig[1](f, a, b, **kw))[1]
        got = {}
        for meth in ('bisect', 'chandrupatla', 'anything-else'):
            used.clear()
            rr = safe(lambda: k.percent_point(np.array([0.3, 0.6]), method=meth))
            got[meth] = used.get('last') if not isinstance(rr, str) else rr
    finally:
        gk.bisect, gk.chandrupatla = orig
    exp = {'bisect': solvers.get('bisect'), 'chandrupatla': solvers.get('*'), 'anything-else': solvers.get('*')}
    ok = got == exp and orig == (opt.bisect, opt.chandrupatla)
    ctx.obligation(f'corr:kde-ppf-solver:{label}', ok, 'correspondence', f'solver used per method: {got}, generated {exp}')
    if not ok:
        viol_corr(ctx, 'corr:kde-ppf-solver', f'{label}: solver used per `method` argument {got}, generated selection {exp}', spec, {}, 'raise SystemExit(1)\n')
    if len(D) > 16:
        return
    base = {'model': label, 'spec': spec}
    rb = ('import numpy as np, warnings\nwarnings.filterwarnings("ignore")\nfrom vf import univ\n' f'm = univ.build({spec!r})\nk = univ.inner(m)\n')
    # ---- bounds (Interval, with sqrt)
    for proj, val, nm in (('fst', lo, 'lower'), ('snd', hi, 'upper')):
        goals.append({'term': f'{proj} (gen_kde_get_bounds {rlist(D)})', 'y': val, 'tol': 1e-9 * (1 + abs(val)), 'unfolds': ['gen_kde_get_bounds'], 'tactic': bounds_tactic(D),
                      'meta': {**base, 'what': f'get-bounds-{nm}', 'detail': 'min/max -/+ 5 np.std',
                               'repro': rb + f"D = np.ravel(k._params['dataset'])\nexp = (D.min() - 5 * D.std(), D.max() + 5 * D.std())\nprint(k._get_bounds(), exp)\n"
                                             'assert np.allclose(k._get_bounds(), exp, rtol=1e-9, atol=0)\n'}})
    # ---- CDF: captured ndtr arguments / values, exact weighted sum
    xs = np.array([float(lo - 2.0 * sd), float(np.quantile(D, 0.3)), float(D.max() + 0.5 * sd)])
    with univ.Capture() as cap:
        F = np.asarray(m.cumulative_distribution(xs), dtype=float)
        nd = cap.calls('ndtr')
    shapes_ok = len(nd) == 2 and nd[0]['args'][0].shape == (1, len(D)) and nd[1]['args'][0].shape == (len(xs), len(D))
    ctx.obligation(f'corr:kde-ndtr-calls:{label}', shapes_ok, 'correspondence', f'ndtr calls {[e["args"][0].shape for e in nd]}')
    if not shapes_ok:
        viol_corr(ctx, 'corr:kde-cdf-structure', f'{label}: cumulative_distribution does not evaluate ndtr once on (lower - data)/h and once on (x - data)/h: '
                  f'{[e["args"][0].shape for e in nd]}', spec, {}, 'raise SystemExit(1)\n')
        return
    low_args, low_vals = nd[0]['args'][0][0], nd[0]['ret'][0]
    up_args, up_vals = nd[1]['args'][0], nd[1]['ret']
    rcdf = rb + f'x = np.array({xs.tolist()!r})\nF = k.cumulative_distribution(x)\nfrom scipy.special import ndtr\nh = np.sqrt(k._model.covariance[0, 0])\n' \
                "D = np.ravel(k._model.dataset); L = D.min() - 5 * D.std()\nexp = (ndtr((x[:, None] - D) / h) - ndtr((L - D) / h)).dot(k._model.weights)\nprint(F, exp)\n" \
                'assert np.allclose(F, exp, rtol=0, atol=1e-12)\n'
    js = sorted({0, len(D) // 2, len(D) - 1})
    for j in js:        # lower: the certified float bound `lo` stands for the model's bound (goal above)
        a = float(low_args[j])
        goals.append({'term': f'({frac(lo)} - {frac(D[j])}) / np_sqrt {frac(cov)}', 'y': a, 'tol': 1e-9 * (1 + abs(a)), 'unfolds': ['np_sqrt'],
                      'tactic': 'interval with (i_prec 90)',
                      'meta': {**base, 'what': 'cdf-ndtr-argument-lower', 'detail': f'datum {j}', 'repro': rcdf}})
    for i in range(len(xs)):
        for j in js[:2]:
            a = float(up_args[i, j])
            goals.append({'term': f'({frac(xs[i])} - {frac(D[j])}) / np_sqrt {frac(cov)}', 'y': a, 'tol': 1e-9 * (1 + abs(a)), 'unfolds': ['np_sqrt'],
                          'tactic': 'interval with (i_prec 90)',
                          'meta': {**base, 'what': 'cdf-ndtr-argument', 'detail': f'x={xs[i]!r} datum {j}', 'repro': rcdf}})
        goals.append({'term': f'kde_tab {rlist(up_vals[i])} {rlist(low_vals)} {rlist(W)}', 'y': float(F[i]), 'tol': 1e-12, 'unfolds': ['kde_tab'],
                      'tactic': 'cbv [kde_tab]; interval with (i_prec 120)',
                      'meta': {**base, 'what': 'cdf-weighted-sum', 'detail': f'x={xs[i]!r}', 'repro': rcdf}})


def run(ctx):
    """the check proper, then the history / edge-value oracle added after a missed seeded change (always)"""
    from .. import extra_oracles
    try:
        _run(ctx)
    finally:
        try:
            extra_oracles.univariate_refit_queries(ctx)
            extra_oracles.univariate_constant_history(ctx)
            from .. import extra_oracles2
            extra_oracles2.retention(ctx)
            extra_oracles2.uni_alias(ctx)
            extra_oracles2.kde_long(ctx)
            from .. import extra_oracles3
            extra_oracles3.uni_results_owned(ctx)
            extra_oracles3.uni_containers(ctx)
        except Exception as ex:
            ctx.obligation('oracle:extra:raised', False, 'correspondence', repr(ex))
            ctx.violation('oracle:extra:raised:' + type(ex).__name__, 'extra oracle raised ' + repr(ex), {'repro': '# see tools/vf/extra_oracles.py'})
