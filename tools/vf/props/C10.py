"""C10 — bivariate fit calibrates theta to the data's Kendall tau or refuses."""
import re
from fractions import Fraction
import numpy as np
from .. import biv, bivctlgen, cases, implbiv
from ..core import frac

FAMS = ['clayton', 'frank', 'gumbel']


def q(x):
    f = Fraction(float(x))
    return f'({f.numerator} # {f.denominator})' if f >= 0 else f'(-({-f.numerator} # {f.denominator}))'


def qlist(a):
    return '[' + '; '.join(q(x) for x in a) + ']'


def datasets(rng, n_random):
    out = []
    out.append(('tau0-design', np.array([[.1, .2], [.2, .4], [.3, .1], [.4, .3]])))
    out.append(('monotone', np.column_stack([np.linspace(.1, .9, 7), np.linspace(.05, .95, 7) ** 2])))
    out.append(('antimonotone', np.column_stack([np.linspace(.1, .9, 7), 1 - np.linspace(.05, .95, 7)])))
    out.append(('constant-col', np.column_stack([np.linspace(.1, .9, 6), np.full(6, .5)])))
    out.append(('both-constant', np.full((5, 2), .25)))
    out.append(('below-zero', np.array([[.1, .2], [-.1, .4], [.3, .1], [.4, .3]])))
    out.append(('above-one', np.array([[.1, .2], [.2, .4], [.3, 1.5], [.4, .3]])))
    out.append(('barely-above-one', np.array([[.1, .2], [.2, .4], [.3, 1.0 + 5e-8], [.4, .3]])))
    out.append(('barely-below-zero', np.array([[.1, .2], [-5e-8, .4], [.3, .1], [.4, .3]])))
    out.append(('ulp-above-one', np.array([[.1, .2], [.2, .4], [.3, .1], [np.nextafter(1.0, 2.0), .3]])))
    out.append(('denormal-below-zero', np.array([[.1, .2], [.2, -5e-324], [.3, .1], [.4, .3]])))
    out.append(('two-rows', np.array([[.2, .3], [.6, .8]])))
    out.append(('two-rows-disc', np.array([[.2, .8], [.6, .3]])))
    out.append(('edge-values', np.array([[0., 0.], [1., 1.], [.5, .25], [.25, .5]])))
    # legal values within EPSILON (1.19e-7) of 0 and 1, all distinct: no tie may be created before Kendall's tau is taken
    out.append(('distinct-near-zero', np.column_stack([np.array([0.0, 1e-9, 3e-9, 5e-8, 9e-8, 0.2, 0.5, 0.9]),
                                                      np.array([2e-9, 0.0, 7e-8, 1e-9, 0.3, 4e-8, 0.8, 0.6])])))
    out.append(('distinct-near-one', np.column_stack([1.0 - np.array([0.0, 1e-12, 3e-10, 5e-8, 9e-8, 0.2, 0.5, 0.9]),
                                                     1.0 - np.array([2e-10, 0.0, 7e-8, 1e-12, 0.3, 4e-8, 0.8, 0.6])])))
    out.append(('denormal-scale', np.column_stack([np.arange(1, 9) * 5e-324, np.array([3, 1, 2, 5, 4, 7, 8, 6]) * 1e-310])))
    # a tau = 0 table leaves a long-lived Frank instance at theta ~ 0.016; the NEXT table has clearly negative dependence (round 5: a solver
    # warm-started from the instance's own theta cannot cross 0)
    rw = np.random.RandomState(55)
    from scipy.stats import norm as _n3
    t0 = np.array([[.1, .2], [.2, .4], [.3, .1], [.4, .3]])
    for k, sign in enumerate((-1, -1, 1, 1, -1, 1)):
        # whichever side of 0 the tau = 0 fit leaves theta on (that depends on the history), one of the following tables is on the other side
        out.append((f'tau0-design-{k + 2}', t0 + 0.05 * k))
        out.append((f'{"negative" if sign < 0 else "positive"}-after-tau0-{k + 2}',
                    _n3.cdf(rw.multivariate_normal([0, 0], [[1, sign * .75], [sign * .75, 1]], 60))))
    # a long table (20 000 rows) with ONE value outside [0, 1], at an odd row index, and its clean twin: the refusal may not depend on n
    rl = np.random.RandomState(77)
    zl = rl.multivariate_normal([0, 0], [[1, .6], [.6, 1]], 20000)
    from scipy.stats import norm as _n2
    XL = _n2.cdf(zl)
    out.append(('long-clean-n20000', XL))
    XB = XL.copy()
    XB[12345, 1] = 1.5
    out.append(('long-above-one-n20000', XB))
    XC = XL.copy()
    XC[1, 0] = -0.25
    out.append(('long-below-zero-n20000', XC))
    # nearly (anti-)monotone tables: |tau| in (0.97, 0.995), Frank theta in the hundreds but well inside the solver's box
    for n in (16, 26):
        u = (np.arange(n) + 0.5) / n
        v = u.copy()
        v[[n // 2, n // 2 + 1]] = v[[n // 2 + 1, n // 2]]
        out.append((f'nearly-monotone-n{n}', np.column_stack([u, v])))
        out.append((f'nearly-antimonotone-n{n}', np.column_stack([u, 1 - v])))
    # two tables whose Kendall taus agree to 4 decimals but are not equal (one neighbouring exchange), fitted one after the other
    from scipy.stats import norm as _norm
    rs = np.random.RandomState(1234)
    z = rs.multivariate_normal([0, 0], [[1, .7], [.7, 1]], 400)
    X1 = _norm.cdf(z)
    o = np.argsort(X1[:, 1])
    out.append(('close-tau-0', X1))
    ks = [k for k in range(60, 340, 3) if X1[o[k], 0] < X1[o[k + 1], 0]][:4]      # concordant neighbours: each exchange lowers tau by 2.5e-5
    for j, k in enumerate(ks):
        Xn = out[-1][1].copy()
        Xn[[o[k], o[k + 1]], 1] = Xn[[o[k + 1], o[k]], 1]
        out.append((f'close-tau-{j + 1}', Xn))
    for i in range(n_random):
        n = int(rng.integers(2, 40))
        rho = float(rng.uniform(-0.95, 0.95))
        z = rng.multivariate_normal([0, 0], [[1, rho], [rho, 1]], n)
        from scipy.stats import norm
        X = norm.cdf(z)
        kind = 'gauss'
        if i % 3 == 0:
            X = np.round(X, 1)          # heavy ties
            kind = 'ties'
        out.append((f'{kind}-rho{rho:.2f}-n{n}', X))
    return out


PERSISTENT = {}


def run_impl(fam, X, persistent=False):
    import copulas.bivariate.base as base
    from copulas.bivariate import Bivariate
    rec = {}
    orig = base.stats.kendalltau

    def kt(a, b, *args, **kw):
        r = orig(a, b, *args, **kw)
        rec['tau'] = float(r[0])
        return r
    base.stats.kendalltau = kt
    if persistent:
        c = PERSISTENT.setdefault(fam, Bivariate(copula_type=fam))     # one instance re-fitted on every table (history)
    else:
        c = Bivariate(copula_type=fam)
    try:
        with np.errstate(all='ignore'):
            c.fit(X.copy())
        res = ('ok', float(c.tau), float(c.theta))
    except Exception as ex:
        res = ('err', type(ex).__name__, str(ex)[:80])
    finally:
        base.stats.kendalltau = orig
    if 'tau' not in rec:
        # fit raised before reaching kendalltau: hand the model the oracle value anyway (a model that would have gone on
        # must not be fed NaN, which makes it refuse with the same error class whatever the reason of the refusal)
        try:
            with np.errstate(all='ignore'):
                rec['tau'] = float(orig(X[:, 0], X[:, 1])[0])
        except Exception:
            pass
    return c, rec.get('tau'), res


def parse_fit_out(s):
    """parse the vm_compute result of show_fit (fit_ctl ...)"""
    if s is None:
        return None
    m = re.match(r'ShowOk \(?(-?\d+)\)? (\d+) (.*)$', s)
    if m:
        th = m.group(3).strip('() ')
        if th == 'SPInf':
            thv = float('inf')
        elif th == 'SMInf':
            thv = float('-inf')
        else:
            mm = re.match(r'SFin \(?(-?\d+)\)? (\d+)', th)
            thv = float(Fraction(int(mm.group(1)), int(mm.group(2))))
        return ('ok', float(Fraction(int(m.group(1)), int(m.group(2)))), thv)
    m = re.match(r'ShowErr (\w+)', s)
    if m:
        return ('err', m.group(1))
    return ('unparsed', s)


def debye_tau(theta):
    """Kendall tau of the Frank copula with parameter theta, computed independently of the library (Debye function D1 by
    quadrature from 0): tau = 1 - 4/theta * (1 - D1(theta)), D1(x) = (1/x) int_0^x t/(e^t - 1) dt, D1(-x) = D1(x) + x/2"""
    from scipy import integrate
    a = abs(float(theta))
    d1 = integrate.quad(lambda t: t / np.expm1(t) if t > 0 else 1.0, 0.0, a, epsabs=1e-13, epsrel=1e-13, limit=400)[0] / a
    if theta < 0:
        d1 = d1 + a / 2
    return 1.0 - 4.0 / theta * (1.0 - d1)


def calibration_why(fam, X, instance=None):
    """the property's statement on the real class, with an INDEPENDENT calibration (replay entry point): after fit(X) tau is
    Kendall's tau-b and theta the family's calibration of it.  Returns None or a description.  Regions of the known findings
    (Frank |theta| at the solver bound, F14c/d; -0.0034 < tau < 0, F33; Clayton tau in {0, 1}, F14a/b) are left to their own oracles."""
    from copulas.bivariate import Bivariate
    from scipy import stats
    X = np.asarray(X, dtype=float)
    c = Bivariate(copula_type=fam) if instance is None else instance
    outside = bool(len(X)) and bool(np.nanmin(X) < 0.0 or np.nanmax(X) > 1.0)
    try:
        with np.errstate(all='ignore'):
            c.fit(X.copy())
    except ValueError:
        return None
    except Exception as ex:
        return f'fit raised {type(ex).__name__} ({str(ex)[:60]}) instead of ValueError' if outside else None
    if outside:
        k = int(np.argmax((X < 0) | (X > 1)))
        return (f'fit accepted a table of {len(X)} rows although the value {X.ravel()[k]!r} (row {k // 2}) lies outside [0, 1]: '
                f'tau = {c.tau!r}, theta = {c.theta!r}')
    tau = float(stats.kendalltau(X[:, 0], X[:, 1])[0])
    if not (c.tau == tau or abs(c.tau - tau) <= 1e-12):
        return f'tau = {c.tau!r} but Kendall tau-b of the data is {tau!r}'
    th = float(c.theta)
    if fam == 'clayton' and 0 < tau < 1:
        want = 2 * tau / (1 - tau)
        if abs(th - want) > 1e-9 * (1 + abs(want)):
            return f'Clayton theta = {th!r}, calibration 2 tau/(1 - tau) of tau = {tau!r} is {want!r}'
    if fam == 'gumbel' and 0 <= tau < 1:
        want = 1 / (1 - tau)
        if abs(th - want) > 1e-9 * (1 + abs(want)):
            return f'Gumbel theta = {th!r}, calibration 1/(1 - tau) of tau = {tau!r} is {want!r}'
    if fam == 'frank' and 0.01 < abs(tau) < 0.9944 and 0 < abs(th) < 600:
        t = debye_tau(th)
        # the library's own tau equation integrates the Debye integrand from EPSILON = 2^-23 instead of 0 (the integrand tends to 1
        # there), which shifts the calibrated tau by 4*EPSILON/theta^2 (1e-5 at theta = 0.2; the extreme case, no root at all for
        # -0.0034 < tau < 0, is finding F33 of C11).  That systematic term is allowed for; everything beyond it is a miscalibration.
        # The allowance is taken at the theta the calibration SHOULD give (tau(theta) <= |theta|/9, so |theta| >= 9 |tau|; 8.5 leaves a
        # margin), never at the stored theta: a solver stalled next to 0 (round 5: warm start from the instance's own theta) would
        # otherwise buy itself an unbounded allowance.
        if abs(t - tau) > 1e-6 + 1.05 * 4 * 1.1920929e-07 / (8.5 * tau) ** 2:
            return (f'Frank theta = {th!r} has theoretical Kendall tau {t!r} (Debye function, independent quadrature), but the data tau is '
                    f'{tau!r} (difference {abs(t - tau):.3g})')
    return None


def consistent_pair(c):
    """a copula object that passes its own check_fit must hold a (theta, tau) pair related by the family's calibration; after a refused
    re-fit this is where a half-updated object (old theta, new tau) shows.  None or a description."""
    try:
        c.check_fit()
    except Exception:
        return None                       # the object declares itself unusable: nothing is claimed
    th, tau = c.theta, c.tau
    if th is None or tau is None:
        return None
    th, tau = float(th), float(tau)
    name = type(c).__name__
    if not np.isfinite(th) or not np.isfinite(tau):
        return None                       # F14b (theta = inf) has its own oracle
    if name == 'Clayton':
        want = th / (th + 2.0)
    elif name == 'Gumbel':
        want = 1.0 - 1.0 / th
    else:
        if abs(th) > 600 or abs(tau) < 0.01:
            return None                   # F14c/d, F33
        want = debye_tau(th)
    if abs(want - tau) > 1e-6 + (1.05 * 4 * 1.1920929e-07 / (8.5 * tau) ** 2 if name == 'Frank' else 0.0):
        return (f'{name} passes check_fit with theta = {th!r} and tau = {tau!r}, but the Kendall tau of that theta is {want!r}: the object pairs '
                f'the parameter of one fit with the tau of another')
    return None


def consistency_replay(seed, n_random, fam, name):
    """replay entry point: ONE instance per family fitted on the run's tables in order (failures swallowed) up to `name`"""
    from copulas.bivariate import Bivariate
    ds = datasets(np.random.default_rng(seed + 10), n_random)
    c = Bivariate(copula_type=fam)
    for nm, X in ds:
        try:
            with np.errstate(all='ignore'):
                c.fit(X.copy())
        except Exception:
            pass
        if nm == name:
            return consistent_pair(c)
    return 'table not found'


def calibration_replay(seed, n_random, fam, name):
    """replay entry point: regenerate the run's tables and fit them in the run's order up to (name, fam); returns that table's verdict"""
    from copulas.bivariate import Bivariate
    ds = datasets(np.random.default_rng(seed + 10), n_random)
    keep = {f: Bivariate(copula_type=f) for f in FAMS}
    for nm, X in ds:
        for f in FAMS:
            why = calibration_why(f, X)
            why_p = calibration_why(f, X, keep[f])          # the same table on ONE long-lived instance per family
            if (nm, f) == (name, fam):
                return why or (why_p and 'on an instance fitted on the earlier tables: ' + why_p)
    return 'table not found'


def calibration_search(ctx, ds, n_random=0):
    """always runs (also after a broken translation): independent calibration oracle on every table, fitted in sequence in
    this process (so a process-wide cache keyed on a rounded tau is exposed by the close-tau pair)"""
    from copulas.bivariate import Bivariate
    worst = 0.0
    keep = {f: Bivariate(copula_type=f) for f in FAMS}
    for name, X in ds:
        for fam in FAMS:
            try:
                why = calibration_why(fam, X)
                why_p = calibration_why(fam, X, keep[fam])      # one long-lived instance per family, fitted on every table in turn
                why = why or (why_p and 'on an instance fitted on the earlier tables: ' + why_p)
            except Exception as ex:
                why = f'oracle raised {type(ex).__name__}: {str(ex)[:100]}'
            ctx.obligation(f'oracle:calibration:{fam}:{name}', why is None, 'correspondence', why or '')
            ctx.case(('calibration', fam, name), None)
            if why:
                ctx.violation(f'search:calibration:{fam}:{name.split("-rho")[0]}', f'{fam}.fit on dataset {name}: {why}',
                              {'family': fam, 'dataset': name, 'X': np.asarray(X).tolist(),
                               'repro': ('from vf.props import C10\n'
                                         f'why = C10.calibration_replay({int(ctx.seed)}, {n_random}, {fam!r}, {name!r})   # the run\'s tables, in order\n'
                                         'print(why)\nassert why is None\n')})
    return worst


def repro(fam, X):
    return (f"import numpy as np\nfrom copulas.bivariate import Bivariate\nc=Bivariate(copula_type='{fam}')\n"
            f"c.fit(np.array({X.tolist()!r}))\nprint('tau',c.tau,'theta',c.theta)\nc.check_fit()\n"
            f"v=c.cumulative_distribution(np.array([[.5,.5]]))\nprint(v)\nassert 0 <= v[0] <= 0.5+1e-9\n")


def run(ctx):
    PERSISTENT.clear()
    quick = ctx.tier == 'quick'
    status = biv.generate(ctx)
    statusq = biv.generate_q(ctx)
    needed = ['clayton_compute_theta', 'gumbel_compute_theta', 'frank_compute_theta',
              'clayton_theta_domain', 'frank_theta_domain', 'gumbel_theta_domain']
    bad = {k: v for k, v in {**status, **statusq}.items() if (k in needed or k in statusq) and v}
    for k in needed + list(statusq):
        ctx.obligation(f'translate:{k}', k not in bad, 'translation', bad.get(k, ''))
    # second tie of the control skeleton: check_theta / check_fit / check_marginal / _compute_theta / fit translated statement by
    # statement (Gen_bivctl.v); Props/C10.v proves them equal to Model.BivCtl (C10_bridge_*).  A failure here does not stop the
    # correspondence below.
    statusc = bivctlgen.generate(ctx)
    for k in bivctlgen.PARTS:
        ctx.obligation(f'translate:{k}', statusc.get(k, 'not attempted') is None, 'translation', statusc.get(k) or '')
    ctx.rule('translation: Bivariate.check_theta / check_fit / check_marginal / _compute_theta / fit are translated from the AST on every '
             'run into Gen_bivctl.v (strict shape check, fail-closed; operators, operand order, constants, error classes and statement '
             'order from the source text); C10_bridge_check_theta / _check_fit / _check_marginal / _fit prove them equal to Model.BivCtl')
    if not bad:
        ctx.copy_src('Props/C10.v')
        ctx.compile(['Gen_biv.v', 'Gen_bivq.v', 'Gen_bivctl.v', 'C10.v'])
    ctx.rule('correspondence: (n,2) pseudo-observation tables (designed tau=0 / monotone / anti-monotone / constant / out-of-range / two-row / '
             'edge tables plus random Gaussian-copula tables, a third rounded to one decimal for heavy ties) x 3 families; the implementation '
             'fit outcome (tau, theta | error class) is compared with vm_compute of Model.BivCtl.fit_ctl on the exact rational data and the '
             'captured kendalltau value; Frank theta (least_squares oracle) is captured and its tau equation certified by Interval')
    rng = np.random.default_rng(ctx.seed + 10)
    n_random = 12 if quick else 150
    ds = datasets(rng, n_random)
    ctx.rule('witness search (always, also after a broken translation): tau recomputed with scipy, theta compared with the closed-form '
             'calibration (Clayton, Gumbel) or, for Frank, its theoretical tau by an independent Debye quadrature (|difference| <= 1e-6); '
             'tables are fitted in sequence in one process and include nearly (anti-)monotone tables (|tau| 0.98..0.994) and a pair of '
             'tables whose taus agree to 4 decimals')
    calibration_search(ctx, ds, n_random)
    try:      # round 6 (always, also after a broken translation): refusals are repeatable and leave a consistent object; ambient conditions
        from .. import extra_oracles3
        extra_oracles3.biv_refused_refit(ctx)
        extra_oracles3.biv_fit_ambient(ctx)
    except Exception as ex:
        ctx.obligation('oracle:extra:raised', False, 'correspondence', repr(ex))
        ctx.violation('oracle:extra:raised:' + type(ex).__name__, 'round-6 oracle raised ' + repr(ex), {'repro': '# see tools/vf/extra_oracles3.py'})
    if bad:
        return
    exprs, meta = [], []
    frank_goals = []
    for name, X in ds:
        if len(X) > 2000:
            continue          # the long tables are for the witness search only (exact rational lists of that length are not fed to Coq)
        for fam in FAMS:
            c, tau, res = run_impl(fam, X)
            # history: the same table fitted on an instance that was fitted on all the previous tables
            _, tau_h, res_h = run_impl(fam, X, persistent=True)
            same = (res_h[0] == res[0]) and (res_h[0] == 'err' and res_h[1] == res[1] or
                                             res_h[0] == 'ok' and res_h[1] == res[1] and (res_h[2] == res[2] or abs(res_h[2] - res[2]) <= 1e-9 * (1 + abs(res[2]))))
            ctx.obligation(f'corr:refit-equals-fresh:{fam}:{name}', same, 'correspondence', f'fresh {res} vs re-fitted instance {res_h}')
            # whatever the history (this fit may have been REFUSED): a model that passes check_fit must pair theta with its own tau
            why_c = consistent_pair(PERSISTENT[fam])
            # Gumbel.compute_theta raises for tau = 1 BEFORE theta is assigned, while fit has already stored self.tau = 1: the earlier
            # theta stays next to the new tau (finding F22 of C19, seen from C10: listed as F22g); any other refusal assigns the rejected theta first
            tau1 = bool(why_c) and fam == 'gumbel' and res_h[0] == 'err' and "Tau value can't be 1" in str(res_h[2])
            if not tau1:         # the listed finding is reported through ctx.violation below, it is not an obligation of this run
                ctx.obligation(f'oracle:theta-tau-consistent-after:{fam}:{name}', why_c is None, 'correspondence', why_c or '')
            if why_c:
                ckey = 'F22:gumbel-tau1-refused-keeps-old-theta' if tau1 else f'search:theta-tau-inconsistent-after-fit-history:{fam}'
                ctx.violation(ckey, f'{fam}: after the fits up to dataset {name} (last outcome {res_h[:2]}): {why_c}',
                              {'family': fam, 'dataset': name, 'last_outcome': list(res_h),
                               'explains': f'oracle:theta-tau-consistent-after:{fam}:{name}',
                               'repro': ('from vf.props import C10\n'
                                         f'why = C10.consistency_replay({int(ctx.seed)}, {n_random}, {fam!r}, {name!r})   # the run\'s tables, in order, on ONE instance\n'
                                         'print(why)\nassert why is None\n')})
            if not same:
                ctx.violation(f'corr:refit-differs-from-fresh:{fam}', f'{fam}: fitting dataset {name} on an instance fitted before gives {res_h}, a fresh instance gives {res}',
                              {'family': fam, 'dataset': name, 'X': X.tolist(), 'fresh': res, 'refit': res_h,
                               'repro': f"import numpy as np\nfrom copulas.bivariate import Bivariate\nA=np.array([[.1,.2],[.2,.4],[.3,.1],[.4,.3],[.5,.9]])\nX=np.array({X.tolist()!r})\n"
                                        f"c=Bivariate(copula_type='{fam}'); c.fit(A); c.fit(X)\nf=Bivariate(copula_type='{fam}'); f.fit(X)\nprint(c.theta, f.theta)\nassert c.theta == f.theta\n"})
            U, V = X[:, 0], X[:, 1]
            tau_coq = 'None' if (tau is None or tau != tau) else f'(Some {q(tau)})'
            if fam == 'frank':
                if res[0] == 'ok':
                    comp = f'(fun _ => TVal {q(res[2])})'
                else:
                    comp = '(fun _ => TVal (1 # 1))'      # solver oracle value irrelevant when fit does not reach it
            else:
                comp = f'{fam}_compute_theta_q'
            exprs.append(f'show_fit (fit_ctl {fam}_dom {comp} {qlist(U)} {qlist(V)} {tau_coq})')
            meta.append((name, fam, X, tau, res, c))
            ctx.case((name, fam), {'dataset': name, 'family': fam, 'n': len(X), 'tau': tau, 'impl': res[:2]},
                     nontrivial=True)
    outs = cases.run_vm_cases(ctx, 'Cases_C10', 'From Cop Require Import Model.BivCtl.\nFrom CopRun Require Import Gen_bivq.', exprs,
                              scope_open='Open Scope Q_scope.')
    n_ok = 0
    for (name, fam, X, tau, res, c), o in zip(meta, outs):
        mo = parse_fit_out(o)
        agree = False
        if mo is None:
            continue
        if mo[0] == 'ok' and res[0] == 'ok':
            th_m, th_i = mo[2], res[2]
            agree = (th_m == th_i) or abs(th_m - th_i) <= 1e-9 * (1 + abs(th_i))
            agree = agree and abs(mo[1] - res[1]) <= 1e-15
        elif mo[0] == 'err' and res[0] == 'err':
            agree = (mo[1] == res[1])
        ctx.obligation(f'corr:fit:{fam}:{name}', agree, 'correspondence', f'model {mo} vs implementation {res}')
        if not agree:
            if fam == 'frank' and res[0] == 'err' and res[1] == 'TypeError':
                key = 'corr:frank-fit-raises-TypeError'
            else:
                key = f'corr:fit-disagree:{fam}:{name.split("-rho")[0]}'
            ctx.violation(key, f'{fam}.fit on dataset {name}: implementation {res}, model {mo}',
                          {'family': fam, 'dataset': name, 'X': X.tolist(), 'tau': tau, 'impl': res, 'model': mo, 'repro': repro(fam, X)})
            continue
        n_ok += 1
        # full-strength statement: a fit that returned normally must leave a usable model
        if res[0] == 'ok':
            # the CDF probe applies where a CDF value is promised: inside the parameter range of C06 (|tau| <= 0.8), and where the
            # stored theta is no calibration at all (non-finite, or Frank's theta at the least_squares box ln(DBL_MAX)).  A correctly
            # calibrated Frank theta in the hundreds (|tau| > 0.95) overflows in cumulative_distribution; that is outside C10 and
            # outside the stated range of C06-C09, and was a false alarm of this check when the nearly-monotone tables were added.
            th_ = res[2]
            in_c06 = (fam == 'frank' and abs(th_) <= 18.2) or (fam == 'clayton' and th_ <= 8) or (fam == 'gumbel' and th_ <= 5)
            probe = in_c06 or not np.isfinite(th_) or (fam == 'frank' and abs(th_) > 700)
            try:
                c.check_fit()
                v = 0.25
                if probe:
                    with np.errstate(all='ignore'):
                        v = float(np.asarray(c.cumulative_distribution(np.array([[.5, .5]])))[0])
                usable = (-1e-9 <= v <= 0.5 + 1e-9)
                why = f'cdf(.5,.5)={v}'
            except Exception as ex:
                usable, why = False, f'{type(ex).__name__}: {ex}'
            if not usable:
                key = f'F14:{fam}-tau{res[1]:.6g}-theta{res[2]:.6g}'
                ctx.violation(key, f'{fam}.fit({name}) returned normally with tau={res[1]}, theta={res[2]} but the model is not usable: {why}',
                              {'family': fam, 'dataset': name, 'X': X.tolist(), 'impl': res, 'why': why, 'repro': repro(fam, X)})
            if fam == 'frank' and 0.3 < res[2] < 30 and len(frank_goals) < (6 if quick else 40):
                frank_goals.append({'term': f'frank__tau_to_theta (fun f a b => RInt f a b) {frac(res[1])} {frac(res[2])}', 'y': 0.0,
                                    'tol': 1e-6, 'unfolds': ['frank__tau_to_theta', 'frank_debye_integrand'],
                                    'tactic': 'corr_prep; integral with (i_prec 60, i_relwidth 40)',
                                    'meta': {'family': 'frank', 'dataset': name, 'tau': res[1], 'theta': res[2]}})
    if frank_goals:
        hdr_imports = 'From Coquelicot Require Import Coquelicot.\nFrom CopRun Require Import Gen_biv.'
        for g, err in cases.run_interval_cases(ctx, 'Cases_C10_frank', hdr_imports, frank_goals, per_file=3):
            m = g['meta']
            ctx.violation('corr:frank-tau-equation', f"Frank theta={m['theta']} does not satisfy the generated tau equation for tau={m['tau']} (dataset {m['dataset']})",
                          {'meta': m, 'coq_error': err[-300:], 'repro': f"# Frank fit on dataset {m['dataset']}"})
    ctx.extra['fits_agreeing'] = n_ok
    ctx.trusted += ['scipy.stats.kendalltau, scipy.optimize.least_squares and scipy.integrate.quad are oracles (captured values); '
                    'quad is denoted by the Riemann integral RInt']
    ctx.assumptions += ['Model.BivCtl (control skeleton of fit/check_theta/check_fit/check_marginal) is hand-written; tied by this correspondence and by the '
                        'translation of the current source (tools/vf/bivctlgen.py -> Gen_bivctl.v) proved equal to it in Props/C10.v (non-empty columns)']
    ctx.trusted += ['tools/vf/bivctlgen.py: the py_* / f_* vocabulary (fixed header of Gen_bivctl.v) and the shape-checking translator; '
                    'stats.kendalltau and the family compute_theta are parameters of the generated fit']
