"""C11 — select_copula returns a calibrated candidate (Frank for tau <= 0) and is a function of X.

Tie to the source
  (a) tools/vf/selcop.py regenerates Gen_selcop.v (shape translators, fail closed) and Props/C11.v proves every
      generated definition equal to Model.SelectCopula's (bridges), then states the property on the generated
      function; Clayton/Gumbel calibrations are the generated compute_theta/theta domains of C10 (Gen_bivq.v).
  (b) correspondence, the model being evaluated inside Coq by vm_compute on exact rationals:
      L1  real select_copula(X) on real data: kendalltau, Frank theta, _compute_empirical, the candidates and
          their diagonal cdf values, _compute_candidates, the returned family are captured; Coq evaluates
          compute_empirical / candidates / cand_left / cand_right / rank_desc+add3+np_argmax / the shortcut
          and error paths of select_copula on the same data.  (The 100-term sums of squares of 53-bit
          quotients are too large for vm_compute on binary positives, so on real grids the sum itself is only
          re-checked against exact fractions in the harness; L2 closes that gap.)
      L2  the SAME code with two oracles substituted: np.linspace -> a coarse dyadic grid (the call's
          arguments are checked), cumulative_distribution -> values rounded to 2^-8 (or synthetic values with
          ties / nan).  The whole Model.select_copula is evaluated in Coq and must return the same
          family, tau, theta.
  (c) witness search: the property's own statement on the implementation (type, tau = Kendall tau, theta =
      family calibration, tau <= 0 -> Frank, determinism, global RNG untouched).
"""
import math
import re
import time
import warnings
from fractions import Fraction

import numpy as np

from .. import biv, cases, selcop
from ..core import frac

warnings.filterwarnings('ignore')
FAMS = ['Frank', 'Clayton', 'Gumbel']
BIG = 2 ** 2000           # stands for +inf in rank comparisons (only when a list has a single inf)
REL = 1e-9


# ----------------------------------------------------------------------------- rationals <-> Coq
def q(x):
    f = Fraction(x) if not isinstance(x, Fraction) else x
    return f'({f.numerator} # {f.denominator})' if f >= 0 else f'(-({-f.numerator} # {f.denominator}))'


def qlist(a):
    return '[' + '; '.join(q(x) for x in a) + ']'


def oq(x):
    """option Q of a float: nan -> None, +inf -> BIG"""
    if x != x:
        return 'None'
    if x == float('inf'):
        return f'(Some ({BIG} # 1))'
    return f'(Some {q(x)})'


def uvlist(X):
    return '[' + '; '.join(f'({q(a)}, {q(b)})' for a, b in X) + ']'


def groups(s):
    """the Z lists printed by Coq (each integer as [number of limbs; sign; limbs base 2^28...]): '([..], [..])' -> lists of ints"""
    if s is None:
        return None
    out = []
    for g in re.findall(r'\[([^\]]*)\]', s):
        raw = [int(t) for t in re.findall(r'-?\d+', re.sub(r'%[A-Za-z_]+', '', g))]
        vals, i = [], 0
        while i < len(raw):
            cnt, sign = raw[i], raw[i + 1]
            v = sum(l << (28 * k) for k, l in enumerate(raw[i + 2:i + 2 + cnt]))
            vals.append(-v if sign else v)
            i += 2 + cnt
        out.append(vals)
    return out


def pairs(l):
    """[n1, d1, n2, d2, ...] -> list of Fraction | nan (0/0) | inf (1/0)"""
    out = []
    for i in range(0, len(l), 2):
        n, d = l[i], l[i + 1]
        out.append(Fraction(n, d) if d else (float('nan') if n == 0 else float('inf')))
    return out


def close(model, impl, rel=1e-12):
    """model: Fraction | nan | inf ; impl: float"""
    if isinstance(model, float):
        return (model != model and impl != impl) or model == impl
    if impl != impl or impl in (float('inf'), float('-inf')):
        return False
    return abs(model - Fraction(impl)) <= Fraction(rel) * (1 + abs(model))


COQ_SHOW = '''
(* integers are printed as [number of limbs; sign; limbs base 2^28 ...]: printing large Z numerals is slow *)
Definition LB : Z := 268435456%Z.
Fixpoint limbs (fuel : nat) (p : Z) : list Z :=
  match fuel with O => [] | S f => if (p =? 0)%Z then [] else (p mod LB)%Z :: limbs f (p / LB)%Z end.
Definition zint (x : Z) : list Z :=
  let l := limbs 400 (Z.abs x) in Z.of_nat (List.length l) :: (if (x <? 0)%Z then 1%Z else 0%Z) :: l.
Definition zq (x : Q) : list Z := zint (Qnum x) ++ zint (Zpos (Qden x)).
Definition zoq (o : option Q) : list Z := match o with Some x => zq x | None => zint 0 ++ zint 0 end.
Definition zfam (f : family) : Z := match f with Frank => 0 | Clayton => 1 | Gumbel => 2 end%Z.
Definition zth (t : theta) : list Z := match t with Finite x => zq x | PosInf => zint 1 ++ zint 0 end.
Definition zcop (c : copula) : list Z := zint (zfam (fam c)) ++ zq (c_tau c) ++ zth (c_theta c).
Definition zerr (e : error) : Z :=
  match e with FrankFitRaised => 1 | IndexError => 2 | ZeroDivisionError => 3 | ValueError_empty => 4 end%Z.
Definition zres (r : result copula) : list Z := match r with Ok c => zint 0 ++ zcop c | Err e => zint (- zerr e) end.
Definition zlist (l : list Q) : list Z := flat_map zq l.
Definition zolist (l : list (option Q)) : list Z := flat_map zoq l.
Definition zemp (r : result emp) :=
  match r with
  | Ok e => (zint 0, zlist (z_left e), zlist (L e), zlist (z_right e), zlist (R e))
  | Err e => (zint (zerr e), [], [], [], [])
  end.
(* outcome of Frank().fit(X) through C10's control model of Bivariate.fit on the generated Frank theta domain *)
Definition ff_of (o : fit_out) : option (Q * theta) :=
  match o with FitOk t (Fin x) => Some (t, Finite x) | _ => None end.
Definition frank_fit (th : Q) (UV : list (Q * Q)) (tau : option Q) : option (Q * theta) :=
  ff_of (fit_ctl frank_dom (fun _ => TVal th) (map fst UV) (map snd UV) tau).
Definition zff (o : option (Q * theta)) : list Z := match o with Some (t, th) => zq t ++ zth th | None => [] end.
Definition lookup (t : list (Q * option Q)) (z : Q) : option Q :=
  match find (fun p => Qeq_bool (fst p) z) t with Some p => snd p | None => None end.
Definition tabcdf (tf tc tg : list (Q * option Q)) (c : copula) (z : Q) : option Q :=
  match fam c with Frank => lookup tf z | Clayton => lookup tc z | Gumbel => lookup tg z end.
Definition zidx (o : option nat) : list Z := match o with Some i => zint (Z.of_nat i) | None => zint (-1) end.
'''
IMPORTS = ('From Coq Require Import Qabs.\nFrom Cop Require Import Model.BivCtl Model.SelectCopula.\nFrom CopRun Require Import Gen_bivq.\n'
           'Import ListNotations.\nOpen Scope Q_scope.\n' + COQ_SHOW)


# ----------------------------------------------------------------------------- running the implementation
class _NPProxy:
    """stands for the module `np` inside copulas.bivariate: linspace is the substituted oracle"""

    def __init__(self, real, grid, rec):
        self.__dict__['_real'], self.__dict__['_grid'], self.__dict__['_rec'] = real, grid, rec

    def __getattr__(self, k):
        return getattr(self._real, k)

    def linspace(self, *a, **kw):
        # arguments bound to np.linspace's signature (start, stop, num): positional and keyword spellings of one call are one call
        names = ['start', 'stop', 'num', 'endpoint', 'retstep', 'dtype', 'axis']
        bound = dict(zip(names, a))
        bound.update(kw)
        core = tuple(float(bound[k]) for k in ('start', 'stop', 'num') if k in bound)
        rest = {k: v for k, v in bound.items() if k not in ('start', 'stop', 'num')}
        self._rec.setdefault('linspace_calls', []).append((core, rest))
        return self._real.array(self._grid, dtype=float)


def cdf_transform(mode, famname, z, true_fn):
    """values of the substituted cdf oracle at the diagonal points z (L2); true_fn() evaluates the real method"""
    r8 = lambda v: np.round(np.asarray(v, dtype=float) * 256) / 256
    synth = {'Frank': lambda t: t * t, 'Clayton': lambda t: t ** 1.5, 'Gumbel': lambda t: t * t * (1.5 - 0.5 * t)}
    if mode == 'round8':
        return r8(true_fn())
    if mode == 'synth':
        return r8(synth[famname](z))
    if mode == 'same':
        return r8(z * z)
    if mode == 'two-same':
        return r8(z ** 1.5) if famname != 'Frank' else r8(z * z)
    if mode == 'two-same-fc':
        return r8(z ** 1.5) if famname != 'Gumbel' else r8(z * z)
    if mode.startswith('nan-'):
        if famname in mode[4:].split('+'):
            return np.full(len(z), np.nan)
        return r8(synth[famname](z))
    if mode.startswith('nan1-'):
        v = r8(synth[famname](z))
        if famname == mode[5:] and len(v):
            v[len(v) // 2] = np.nan
        return v
    raise ValueError(mode)


def capture_run(X, mode=None, grid=None, alias=False):
    """Run the real select_copula(X) with the oracles captured (mode None) or substituted (L2)."""
    import copulas.bivariate as B
    import copulas.bivariate.base as base
    rec = {'cdf': {f: {} for f in FAMS}, 'offdiag': False, 'cands': [], 'kt': []}
    orig_kt = base.stats.kendalltau
    orig_emp, orig_cand, orig_np = B._compute_empirical, B._compute_candidates, B.np
    classes = {'Frank': B.Frank, 'Clayton': B.Clayton, 'Gumbel': B.Gumbel}
    orig_cdf = {k: c.__dict__.get('cumulative_distribution') for k, c in classes.items()}

    def kt(a, b, *args, **kw):
        r = orig_kt(a, b, *args, **kw)
        rec['kt'].append(float(r[0]))
        return r

    def emp(Xa):
        r = orig_emp(Xa)
        rec['emp'] = tuple([float(x) for x in part] for part in r)
        return r

    def cand(cops, lt, rt):
        rec['cands'] = [(type(c).__name__, float(c.theta), float(c.tau)) for c in cops]
        r = orig_cand(cops, lt, rt)
        rec['tails'] = ([[float(x) for x in np.asarray(a, dtype=float)] for a in r[0]],
                        [[float(x) for x in np.asarray(a, dtype=float)] for a in r[1]])
        return r

    def mk(famname, orig):
        def cd(self, Xa):
            Xa = np.asarray(Xa, dtype=float)
            z = Xa[:, 0] if Xa.ndim == 2 and Xa.shape[1] == 2 else np.ravel(Xa)
            if not (Xa.ndim == 2 and Xa.shape[1] == 2 and np.array_equal(Xa[:, 0], Xa[:, 1])):
                rec['offdiag'] = True
            if mode is None:
                v = orig(self, Xa)
            else:
                v = cdf_transform(mode, famname, z, lambda: orig(self, Xa))
            for zi, vi in zip(z, np.asarray(v, dtype=float)):
                rec['cdf'][famname][float(zi)] = float(vi)
            return v
        return cd
    try:
        base.stats.kendalltau = kt
        B._compute_empirical, B._compute_candidates = emp, cand
        for k, c in classes.items():
            if orig_cdf[k] is not None:
                c.cumulative_distribution = mk(k, orig_cdf[k])
        if grid is not None:
            B.np = _NPProxy(orig_np, grid, rec)
        with np.errstate(all='ignore'), warnings.catch_warnings():
            warnings.simplefilter('ignore')
            try:
                r = B.Bivariate.select_copula(X.copy()) if alias else B.select_copula(X.copy())
                rec['result'] = ('ok', type(r).__name__, float(r.tau), float(r.theta))
            except Exception as ex:     # the error class is part of the observable behaviour
                rec['result'] = ('err', type(ex).__name__, str(ex)[:100])
    finally:
        base.stats.kendalltau = orig_kt
        B._compute_empirical, B._compute_candidates, B.np = orig_emp, orig_cand, orig_np
        for k, c in classes.items():
            if orig_cdf[k] is not None:
                c.cumulative_distribution = orig_cdf[k]
    return rec


def true_kendall(X):
    from scipy import stats
    with np.errstate(all='ignore'), warnings.catch_warnings():
        warnings.simplefilter('ignore')
        if len(X) == 0:
            return float('nan')
        return float(stats.kendalltau(X[:, 0], X[:, 1])[0])


# ----------------------------------------------------------------------------- generators
def lib_sample(fam, tau, n, seed):
    """pseudo-observations drawn with the library's own sampler"""
    from copulas.bivariate import Bivariate
    c = Bivariate(copula_type=fam.lower(), random_state=int(seed))
    c.tau = tau
    with np.errstate(all='ignore'), warnings.catch_warnings():
        warnings.simplefilter('ignore')
        c.theta = c.compute_theta()
        return np.asarray(c.sample(int(n)), dtype=float)


def perm_with_inversions(n, k):
    """a permutation of range(n) with exactly k inversions (Lehmer code, greedy)"""
    code = []
    for i in range(n):
        m = min(k, n - 1 - i)
        code.append(m)
        k -= m
    items = list(range(n))
    return [items.pop(c) for c in code]


def l1_datasets(rng, quick):
    out = []
    seeds = rng.integers(1, 2 ** 31 - 1, size=400)
    si = iter(int(s) for s in seeds)
    reps = 1 if quick else 6
    for fam in FAMS:
        for tau in (0.3, 0.5, 0.7):
            for _ in range(reps):
                n = int(rng.integers(60, 260))
                out.append((f'{fam.lower()}-tau{tau}-n{n}', lib_sample(fam, tau, n, next(si)), 'family'))
    for _ in range(2 * reps):
        n = int(rng.integers(30, 200))
        out.append((f'independent-n{n}', rng.uniform(0.001, 0.999, size=(n, 2)), 'independent'))
    for _ in range(2 * reps):
        n = int(rng.integers(30, 150))
        X = lib_sample('Clayton', float(rng.uniform(0.2, 0.7)), n, next(si))
        X[:, 1] = 1 - X[:, 1]
        out.append((f'negative-n{n}', X, 'negative'))
    for _ in range(reps):
        n = int(rng.integers(30, 150))
        out.append((f'frank-negative-n{n}', lib_sample('Frank', -0.4, n, next(si)), 'negative'))
    for dec in (1, 2):
        for _ in range(reps):
            n = int(rng.integers(20, 120))
            X = np.round(lib_sample(FAMS[int(rng.integers(0, 3))], 0.5, n, next(si)), dec)
            out.append((f'ties-{dec}dec-n{n}', X, 'ties'))
    out.append(('ties-with-0-and-1', np.array([[0., 0.], [1., 1.], [.5, .25], [.25, .5], [.75, 1.], [0., .25]]), 'ties'))
    for n in (2, 3, 4, 5, 6):
        X = rng.uniform(0.05, 0.95, size=(n, 2))
        X = X[np.argsort(X[:, 0])]
        if n <= 4:
            X[:, 1] = np.sort(X[:, 1])
            if n >= 3:
                X[[0, 1], 1] = X[[1, 0], 1]
        out.append((f'small-n{n}', X, 'small'))
    out.append(('two-rows-discordant', np.array([[.2, .8], [.6, .3]]), 'small'))
    # boundary tables
    out.append(('tau0-design', np.array([[.1, .2], [.2, .4], [.3, .1], [.4, .3]]), 'boundary'))
    # Kendall tau EXACTLY 0 (a sample stacked with its reflection v -> 1 - v; tie-free 8-row designs): "non-positive tau returns Frank"
    for j in range(6):
        Z = lib_sample(FAMS[j % 3], 0.4, 40 + 10 * j, next(si))
        out.append((f'tau-exactly-0-reflected-{j}', np.vstack([Z, np.column_stack([Z[:, 0], 1.0 - Z[:, 1]])]), 'boundary'))
    g8 = (np.arange(8) + 0.5) / 8
    for j, perm in enumerate(([4, 2, 7, 1, 0, 6, 3, 5], [5, 1, 3, 6, 0, 7, 4, 2], [4, 6, 3, 2, 0, 1, 5, 7], [1, 4, 7, 5, 2, 3, 0, 6], [5, 3, 0, 7, 1, 6, 2, 4])):
        out.append((f'tau-exactly-0-design8-{j}', np.column_stack([g8, g8[np.array(perm)]]), 'boundary'))
    m = 7
    out.append(('comonotone', np.column_stack([np.linspace(.1, .9, m), np.linspace(.05, .95, m) ** 2]), 'boundary'))
    out.append(('antimonotone', np.column_stack([np.linspace(.1, .9, m), 1 - np.linspace(.05, .95, m)]), 'boundary'))
    u = np.sort(rng.uniform(0.01, 0.99, size=120))
    v = u.copy()
    for i in range(0, 120, 15):
        v[[i, i + 1]] = v[[i + 1, i]]
    out.append(('near-comonotone', np.column_stack([u, v]), 'boundary'))
    n = 40                       # Kendall tau = -2/780: slightly negative
    p = perm_with_inversions(n, n * (n - 1) // 4 + 1)
    g = (np.arange(n) + 0.5) / n
    out.append(('tau-slightly-negative', np.column_stack([g, g[np.array(p)]]), 'boundary'))
    p = perm_with_inversions(n, n * (n - 1) // 4 - 1)
    out.append(('tau-slightly-positive', np.column_stack([g, g[np.array(p)]]), 'boundary'))
    from copulas.utils import EPSILON
    gg = [float(x) for x in np.linspace(EPSILON, 1.0 - EPSILON, 50)]      # data exactly on grid points: `<=` vs `<` matters
    out.append(('points-on-grid', np.array([[gg[10], gg[10]], [gg[10], gg[20]], [gg[30], gg[20]], [gg[30], gg[40]], [gg[45], gg[45]],
                                            [gg[0], gg[3]], [gg[48], gg[49]]]), 'boundary'))
    # refused inputs
    out.append(('constant-column', np.column_stack([np.full(6, .2), np.linspace(.1, .9, 6)]), 'refused'))
    out.append(('out-of-range', np.array([[0., 0.], [1.5, 1.], [.5, .25], [.25, .5]]), 'refused'))
    out.append(('below-zero', np.array([[.1, .2], [.2, -.4], [.3, .1], [.4, .3]]), 'refused'))
    out.append(('one-row', np.array([[.2, .3]]), 'refused'))
    out.append(('empty', np.zeros((0, 2)), 'refused'))
    return out


def l2_cases(rng, quick):
    """(name, X on the lattice k/256, mode, grid)"""
    out = []
    grids = {'g7': [k / 64 for k in range(7, 57)], 'g3': [k / 64 for k in range(3, 53)], 'g12': [k / 64 for k in range(12, 62)]}
    seeds = iter(int(s) for s in rng.integers(1, 2 ** 31 - 1, size=200))

    def lattice(X, lo=0.0, hi=1.0):
        Y = lo + (hi - lo) * X
        return np.clip(np.round(Y * 256), 1, 255) / 256

    def data(fam, tau, n, lo, hi):
        for _ in range(50):
            X = lattice(lib_sample(fam, tau, n, next(seeds)), lo, hi)
            t = true_kendall(X)
            if t == t and 0.05 < t < 0.97:
                return X
        raise RuntimeError('no positive-tau lattice sample')
    reps = 1 if quick else 3
    for _ in range(reps):
        for fam in FAMS:
            for tau in ((float(rng.choice([0.3, 0.6])),) if quick else (0.3, 0.6)):
                n = int(rng.choice([8, 16, 16, 32]))
                lo, hi = [(0.2, 0.8), (0.3, 0.7), (0.35, 0.65)][int(rng.integers(0, 3))]
                gname = ['g7', 'g3', 'g12'][int(rng.integers(0, 3))]
                out.append((f'round8-{fam.lower()}-tau{tau}-n{n}-{gname}', data(fam, tau, n, lo, hi), 'round8', grids[gname], gname))
        modes = ('same', 'two-same', 'two-same-fc', 'nan-Gumbel', 'nan-Clayton', 'nan-Frank', 'nan-Clayton+Gumbel',
                 'nan-Frank+Clayton+Gumbel', 'nan1-Gumbel', 'nan1-Frank', 'synth')
        if quick:
            modes = ('same', 'two-same', 'nan-Gumbel', 'nan-Frank', 'nan-Clayton+Gumbel', 'nan1-Gumbel', 'synth',
                     ('two-same-fc', 'nan-Clayton', 'nan-Frank+Clayton+Gumbel', 'nan1-Frank')[int(rng.integers(0, 4))])
        for mode in modes:
            n = int(rng.choice([8, 16]))
            out.append((f'{mode}-n{n}', data(FAMS[int(rng.integers(0, 3))], 0.5, n, 0.3, 0.7), mode, grids['g7'], 'g7'))
    # tau = 1 (quirk D6: Clayton keeps theta = inf, Gumbel is dropped): two candidates only
    g = np.array([40, 72, 100, 128, 150, 180, 200, 230]) / 256
    out.append(('synth-tau1-n8', np.column_stack([g, g]), 'synth', grids['g7'], 'g7'))
    out.append(('nan-Clayton-tau1-n8', np.column_stack([g, g]), 'nan-Clayton', grids['g7'], 'g7'))
    out.append(('synth-n2', np.array([[64, 96], [160, 200]]) / 256, 'synth', grids['g7'], 'g7'))
    out.append(('synth-n4-on-grid', np.array([[28, 28], [112, 160], [160, 128], [224, 224]]) / 256, 'synth', grids['g7'], 'g7'))
    return out


# ----------------------------------------------------------------------------- repro snippets
def repro_property(X):
    return ("import numpy as np, warnings\nwarnings.filterwarnings('ignore')\nfrom vf.props import C11 as H\n"
            f"X = np.array({np.asarray(X).tolist()!r}, dtype=float).reshape(-1, 2)\n"
            "bad = H.property_failures(X)\nprint(bad)\nraise SystemExit(1 if bad else 0)\n")


def repro_expect(X, expect, mode=None, gname=None):
    return ("import numpy as np, warnings\nwarnings.filterwarnings('ignore')\nfrom vf.props import C11 as H\n"
            f"X = np.array({np.asarray(X).tolist()!r}, dtype=float).reshape(-1, 2)\n"
            f"bad = H.check_expected(X, {expect!r}, mode={mode!r}, gname={gname!r})\nprint(bad)\nraise SystemExit(1 if bad else 0)\n")


GRIDS = {'g7': [k / 64 for k in range(7, 57)], 'g3': [k / 64 for k in range(3, 53)], 'g12': [k / 64 for k in range(12, 62)]}


def check_expected(X, expect, mode=None, gname=None):
    """used by replays: run the implementation again and compare with what the Coq model computed"""
    rec = capture_run(X, mode=mode, grid=GRIDS.get(gname))
    bad = []
    res = rec['result']
    if 'result' in expect:
        e = expect['result']
        ok = res[0] == e[0] and res[1] == e[1] and (res[0] == 'err' or (close_f(res[2], e[2]) and close_f(res[3], e[3])))
        if not ok:
            bad.append(f'select_copula: implementation {res}, model {e}')
    rel = expect.get('rel', 1e-9)
    if 'emp' in expect:
        got = rec.get('emp')
        for nm, a, b in zip(('z_left', 'L', 'z_right', 'R'), got or ([], [], [], []), expect['emp']):
            if len(a) != len(b) or any(not close_f(x, y, rel) for x, y in zip(a, b)):
                bad.append(f'_compute_empirical {nm}: implementation {list(a)[:4]}.. (len {len(a)}), model {list(b)[:4]}.. (len {len(b)})')
    if 'cands' in expect:
        got = [(f, th) for f, th, _ in rec['cands']]
        e = expect['cands']
        if len(got) != len(e) or any(g[0] != m[0] or not close_f(g[1], m[1]) for g, m in zip(got, e)):
            bad.append(f'candidates: implementation {got}, model {e}')
    if 'tails' in expect and 'tails' in rec:
        zs = (rec['emp'][0], rec['emp'][2])
        for side in (0, 1):
            for j, (a, b) in enumerate(zip(rec['tails'][side], expect['tails'][side])):
                if b is None:
                    continue
                okt = len(a) == len(b) and len(a) == len(zs[side]) and all(
                    (x != x and y != y) or abs(x - y) <= rel * (1 + abs(y)) + (2 * rel / (1 - z) ** 2 if side == 1 and z < 1 else 0)
                    for x, y, z in zip(a, b, zs[side]))
                if not okt:
                    bad.append(f'candidate {j} {"left" if side == 0 else "right"} tail differs from the model')
    if 'linspace' in expect:
        if rec.get('linspace_calls') != expect['linspace']:
            bad.append(f"np.linspace calls {rec.get('linspace_calls')}, expected {expect['linspace']}")
    return bad


def close_f(a, b, rel=1e-9):
    a, b = float(a), float(b)
    if a != a or b != b:
        return a != a and b != b
    if a == b:
        return True
    if math.isinf(a) or math.isinf(b):
        return False
    return abs(a - b) <= rel * (1 + abs(b))


# ----------------------------------------------------------------------------- the property as an oracle
def frank_residual(tau, theta, lo=None):
    """the residual the library hands to least_squares (Debye integral from EPSILON), evaluated independently"""
    from scipy import integrate
    from copulas.utils import EPSILON
    lo = EPSILON if lo is None else lo
    with np.errstate(all='ignore'), warnings.catch_warnings():
        warnings.simplefilter('ignore')
        d = integrate.quad(lambda t: t / math.expm1(t) if t != 0 else 1.0, lo, theta, epsabs=1e-13, epsrel=1e-13, limit=400)[0] / theta
    return 4 * (d - 1) / theta + 1 - tau


FRANK_TOL = 1e-6
SOLVER_BOUNDS = (math.log(2.2250738585072014e-308), math.log(1.7976931348623157e308))


def property_failures(X, info=None):
    """C11's statement, executable.  Returns a list of (key, what)."""
    import copulas.bivariate as B
    info = {} if info is None else info
    bad = []
    X0 = np.array(X, dtype=float, copy=True)
    st0 = np.random.get_state()

    def call(A):
        with np.errstate(all='ignore'), warnings.catch_warnings():
            warnings.simplefilter('ignore')
            try:
                r = B.select_copula(A)
                return ('ok', type(r).__name__, float(r.tau), float(r.theta), r)
            except Exception as ex:
                return ('err', type(ex).__name__, str(ex)[:80], None, None)
    r1 = call(X)
    r2 = call(X)
    r3 = call(np.array(X0, copy=True, order='F'))
    st1 = np.random.get_state()
    same_state = st0[0] == st1[0] and np.array_equal(st0[1], st1[1]) and st0[2:] == st1[2:]
    if not same_state:
        bad.append(('oracle:global-rng-consumed', 'select_copula changed the global numpy RNG state'))
    if not np.array_equal(X0, np.asarray(X, dtype=float)):
        bad.append(('oracle:input-mutated', 'select_copula modified X, so the result is not a function of the caller\'s X'))
    for other, how in ((r2, 'second call'), (r3, 'call on a copy')):
        if r1[0] != other[0] or r1[1] != other[1] or (r1[0] == 'ok' and not (close_f(r1[2], other[2], 0) and close_f(r1[3], other[3], 0))):
            bad.append(('oracle:not-deterministic', f'{how} gives {other[:4]} instead of {r1[:4]}'))
    info['result'] = r1[:4]
    if r1[0] != 'ok':
        return bad
    fam, tau, theta, obj = r1[1], r1[2], r1[3], r1[4]
    if fam not in FAMS or type(obj) not in (B.Frank, B.Clayton, B.Gumbel):
        bad.append(('oracle:not-a-candidate-family', f'returned a {fam}'))
        return bad
    kt = true_kendall(X0)
    info['tau'] = kt
    if not (tau == kt or abs(tau - kt) <= 1e-12):
        bad.append(('oracle:tau-not-kendall', f'returned tau {tau!r} but Kendall tau of X is {kt!r}'))
    if kt <= 0 and fam != 'Frank':
        bad.append(('oracle:nonpositive-tau-not-frank', f'Kendall tau {kt!r} <= 0 but a {fam} was returned'))
    if fam == 'Clayton':
        want = float('inf') if tau == 1 else 2 * tau / (1 - tau)
        if not close_f(theta, want):
            bad.append(('oracle:clayton-theta-not-calibrated', f'theta {theta!r}, 2 tau/(1-tau) = {want!r}'))
        if tau == 1:
            info['quirk'] = 'D6: tau = 1 returns Clayton with theta = inf (Gumbel dropped)'
    elif fam == 'Gumbel':
        want = 1 / (1 - tau) if tau != 1 else float('nan')
        if not close_f(theta, want):
            bad.append(('oracle:gumbel-theta-not-calibrated', f'theta {theta!r}, 1/(1-tau) = {want!r}'))
    else:
        if theta == 0 or theta != theta or math.isinf(theta):
            bad.append(('oracle:frank-theta-invalid', f'theta {theta!r}'))
        else:
            res = frank_residual(tau, theta)
            info['frank_residual'] = res
            info['frank_true_equation_residual'] = frank_residual(tau, theta, 0.0)
            if abs(res) > FRANK_TOL:
                at_bound = min(abs(theta - SOLVER_BOUNDS[0]), abs(theta - SOLVER_BOUNDS[1])) < 1e-2
                if at_bound:
                    bad.append(('F14c:select_copula-frank-theta-at-solver-bound',
                                f'Frank returned with tau={tau!r}, theta={theta!r} (least_squares bound): the tau equation '
                                f'residual is {res:.3e}, not 0'))
                elif -0.0035 < tau < 0:
                    bad.append(('F21:frank-theta-not-a-root-for-small-negative-tau',
                                f'Frank returned with tau={tau!r}, theta={theta!r}: residual of the library\'s own tau equation '
                                f'is {res:.3e} (no root on the negative branch because the Debye integral starts at EPSILON; '
                                f'least_squares stops at a local minimum)'))
                else:
                    bad.append(('oracle:frank-theta-not-calibrated', f'tau={tau!r}, theta={theta!r}, residual {res:.3e}'))
    return bad


def close_tau_history():
    """HISTORY oracle (replay entry point): select_copula(X1); select_copula(X2) in ONE process, where the Kendall taus of X1
    and X2 agree to 4 decimals but differ (one exchange of neighbouring values).  The second result must be calibrated to X2's own tau
    (the choice is a function of X: no process-wide state keyed on a rounded statistic)."""
    import copulas.bivariate as B
    X1 = lib_sample('Frank', 0.5, 400, 20260930)
    o = np.argsort(X1[:, 1])
    chain = [X1]
    ks = [k for k in range(60, 340, 3) if X1[o[k], 0] < X1[o[k + 1], 0]][:4]      # concordant neighbours: each exchange lowers tau
    for k in ks:                 # taus step by 4/(n(n-1)) = 2.5e-5: at least two consecutive tables share every rounding to <= 4 decimals
        Xn = chain[-1].copy()
        a, b = o[k], o[k + 1]
        Xn[[a, b], 1] = Xn[[b, a], 1]
        chain.append(Xn)
    out = []
    for X in chain:
        with np.errstate(all='ignore'), warnings.catch_warnings():
            warnings.simplefilter('ignore')
            r = B.select_copula(X.copy())
        kt = true_kendall(X)
        if not (r.tau == kt or abs(r.tau - kt) <= 1e-12):
            return f'tau {r.tau!r} is not the Kendall tau {kt!r} of the table'
        out.append((type(r).__name__, float(r.tau), float(r.theta)))
        if type(r).__name__ == 'Frank':
            res = frank_residual(float(r.tau), float(r.theta))
            if abs(res) > FRANK_TOL:
                return (f'after select_copula on tables with taus {[t for _, t, _ in out[:-1]]!r}, select_copula on a table with tau {r.tau!r} '
                        f'returns Frank theta {r.theta!r}: residual of the tau equation {res:.3e} (theta belongs to another table)')
        elif type(r).__name__ == 'Clayton' and not close_f(float(r.theta), 2 * r.tau / (1 - r.tau)):
            return f'Clayton theta {r.theta!r} is not 2 tau/(1-tau) for tau {r.tau!r}'
        elif type(r).__name__ == 'Gumbel' and not close_f(float(r.theta), 1 / (1 - r.tau)):
            return f'Gumbel theta {r.theta!r} is not 1/(1-tau) for tau {r.tau!r}'
    if len({t for _, t, _ in out}) != len(out):
        return 'oracle design error: two tables of the chain have the same tau'
    return None


# ----------------------------------------------------------------------------- the check
def run(ctx):
    quick = ctx.tier == 'quick'
    # ---- (a) generation + proofs
    st_biv = biv.generate(ctx)
    st_q = biv.generate_q(ctx)
    st_sel, info = selcop.generate(ctx)
    need_biv = ['clayton_compute_theta', 'gumbel_compute_theta', 'frank_compute_theta']
    trans_ok = True
    for k in need_biv:
        ctx.obligation(f'translate:{k}', st_biv.get(k, 'missing') is None, 'translation', st_biv.get(k) or '')
        trans_ok &= st_biv.get(k, 'missing') is None
    for k, v in st_q.items():
        ctx.obligation(f'translate:{k}', v is None, 'translation', v or '')
        trans_ok &= v is None
    for k, v in st_sel.items():
        ctx.obligation(f'translate:{k}', v is None, 'translation', v or '')
        trans_ok &= v is None
    ctx.extra['generated_from_source'] = info
    proofs_ok = False
    if all(v is None for v in st_q.values()):
        ctx.compile(['Gen_bivq.v'])
    if trans_ok:
        ctx.copy_src('Props/C11.v')
        proofs_ok = ctx.compile(['Gen_biv.v', 'Gen_selcop.v', 'C11.v'])
    q_ok = all(v is None for v in st_q.values())
    for o in [o for o in ctx.obligations if not o['ok'] and o['kind'] in ('proof', 'translation')]:
        ctx.violation('tie-broken:' + o['name'], f"{o['kind']} obligation no longer checks against the current source: {o['name']}",
                      {'failed_obligation': o['name'], 'kind': o['kind'], 'detail': str(o.get('detail', ''))[-1500:], 'explains': o['name']}, found=False)
    ctx.rule('L1: real select_copula on (n,2) tables: library-sampled Clayton/Gumbel/Frank data at tau 0.3/0.5/0.7 (n 60-260), independent, '
             'negative dependence, ties (rounded to 1-2 decimals, exact 0 and 1), n = 2..6, tau = 0 / 1 / -1 / +-2/780, near-comonotone, '
             'refused inputs (constant column, out of range, one row, empty); captured kendalltau, Frank theta, _compute_empirical, candidate '
             'cdf values at (z,z), _compute_candidates; Coq (vm_compute, exact rationals) evaluates compute_empirical, candidates, cand_left/right, '
             'rank_desc+add3+np_argmax, and select_copula itself on the shortcut/error paths')
    ctx.rule('L2: the same code with np.linspace -> coarse dyadic grid (call arguments checked) and cumulative_distribution -> values rounded to '
             '2^-8 or synthetic (all equal, two equal, nan for one/two/all candidates, nan at one point), data on the lattice k/256 (n 2..32, '
             'including points on the grid and tau = 1): full Model.select_copula evaluated in Coq, same family/tau/theta required')
    ctx.rule('witness search on every table: result type, tau = scipy kendalltau, Clayton 2tau/(1-tau), Gumbel 1/(1-tau), Frank residual of the '
             'library tau equation <= 1e-6, tau <= 0 -> Frank, three calls (same array, again, Fortran-ordered copy) agree, global RNG state unchanged')
    ctx.log(f'generation + proofs done at {time.time() - ctx.t0:.1f}s')
    if not q_ok:
        ctx.log('Gen_bivq.v not available: correspondence in Coq skipped, witness search only')
    rng = np.random.default_rng(ctx.seed + 1100)
    ds = l1_datasets(rng, quick)
    l2 = l2_cases(rng, quick)

    # ---- (c) witness search (always)
    quirks = {}
    frank_true_dev = 0.0
    frank_goals = []
    for name, X, kind in ds:
        pinfo = {}
        bad = property_failures(X, pinfo)
        n_or = sum(1 for s_ in ctx.samples if s_.get('level') == 'oracle')
        ctx.case(('oracle', name), {'level': 'oracle', 'dataset': name, 'n': len(X), 'tau': pinfo.get('tau'), 'result': pinfo.get('result')} if n_or < 3 else None,
                 nontrivial=pinfo.get('result', ('err',))[0] == 'ok')
        ctx.obligation(f'oracle:{name}', not [b for b in bad if not b[0].startswith('F')], 'witness-search', '; '.join(w for _, w in bad))
        if 'quirk' in pinfo:
            quirks[name] = pinfo['quirk']
        if 'frank_true_equation_residual' in pinfo and abs(pinfo.get('frank_residual', 1)) <= FRANK_TOL:
            frank_true_dev = max(frank_true_dev, abs(pinfo['frank_true_equation_residual']))
        for key, what in bad:
            stable = key if key.startswith('F') else f'{key}:{name.split("-n")[0]}'
            ctx.violation(stable, f'select_copula on dataset {name}: {what}',
                          {'dataset': name, 'X': np.asarray(X).tolist(), 'what': what, 'repro': repro_property(X)})
        if name == ds[-1][0]:
            try:
                why = close_tau_history()
            except Exception as ex:
                why = f'oracle raised {type(ex).__name__}: {str(ex)[:120]}'
            from .. import extra_oracles2
            extra_oracles2.select_entry_points(ctx)
            from .. import extra_oracles3
            extra_oracles3.select_round6(ctx)
            extra_oracles3.select_float32(ctx)
            ctx.obligation('oracle:close-tau-history', why is None, 'witness-search', why or '')
            ctx.case(('oracle', 'close-tau-history'), None)
            if why:
                ctx.violation('oracle:history:close-tau', why,
                              {'history': 'select_copula(X1); select_copula(X2), taus equal to 4 decimals',
                               'repro': 'from vf.props import C11\nwhy = C11.close_tau_history()\nprint(why)\nassert why is None\n'})
        r = pinfo.get('result')
        if r and r[0] == 'ok' and r[1] == 'Frank' and 0.3 < r[3] < 30 and len(frank_goals) < (3 if quick else 20):
            frank_goals.append({'term': f'frank__tau_to_theta (fun f a b => RInt f a b) {frac(r[2])} {frac(r[3])}', 'y': 0.0,
                                'tol': FRANK_TOL, 'unfolds': ['frank__tau_to_theta', 'frank_debye_integrand'],
                                'tactic': 'corr_prep; integral with (i_prec 60, i_relwidth 40)',
                                'meta': {'dataset': name, 'tau': r[2], 'theta': r[3], 'X': np.asarray(X).tolist()}})
    ctx.extra['quirks_observed'] = quirks
    ctx.log(f'witness search done at {time.time() - ctx.t0:.1f}s')
    ctx.extra['frank_true_tau_equation_max_abs_residual_report_only'] = frank_true_dev

    if q_ok:
        run_streams(ctx, [corr_l1(ctx, ds, quick), corr_l2(ctx, l2)])
        if frank_goals and st_biv.get('frank_compute_theta') is None:
            hdr = 'From Coquelicot Require Import Coquelicot.\nFrom CopRun Require Import Gen_biv.'
            if not proofs_ok:
                ctx.compile(['Gen_biv.v'], count_statements=False)
            for g, err in cases.run_interval_cases(ctx, 'Cases_C11_frank', hdr, frank_goals, per_file=1):
                m = g['meta']
                ctx.violation(f"corr:frank-tau-equation:{m['dataset'].split('-n')[0]}",
                              f"Frank returned by select_copula (dataset {m['dataset']}) has theta={m['theta']} which does not satisfy the "
                              f"generated tau equation for tau={m['tau']} within {FRANK_TOL}",
                              {'meta': {k: v for k, v in m.items() if k != 'X'}, 'X': m['X'], 'coq_error': err[-300:], 'repro': repro_property(np.array(m['X']))})
    if not quick:
        recovery_table(ctx)
    ctx.trusted += ['scipy.stats.kendalltau, scipy.optimize.least_squares / integrate.quad (Frank theta) and the three cumulative_distribution '
                    'methods are oracles of the model (captured values; the cdf kernels themselves are the subject of C06)',
                    'numpy.linspace(EPSILON, 1-EPSILON, 50) is denoted by the exact rational grid (each float point is checked to be within 4 units in the last place (of the grid dtype) of it)',
                    'float rounding inside the distance sums is not modelled: cases whose distances are closer than 1e-9 relative without being '
                    'equal are skipped (counted in ill_conditioned_skipped)']
    ctx.assumptions += ['Model.SelectCopula is hand-written; tied to the source by the generated Gen_selcop.v + bridge lemmas and by the L1/L2 correspondence',
                        'family recovery (>= 70% of seeds for tau in [0.3,0.7], n >= 3000) is statistical and NOT decided here (report-only table in the thorough tier)',
                        'Frank calibration is relative to the solver hypothesis (least_squares returns a root of the generated residual), checked per run']


def run_streams(ctx, gens):
    """each stream: prepare (runs the implementation with patched oracles; sequential, the patches are process-global),
    yield its Coq cases, judge the results.  The Coq evaluations of the streams run concurrently."""
    from concurrent.futures import ThreadPoolExecutor
    reqs = [next(g) for g in gens]
    ctx.log(f'implementation runs captured at {time.time() - ctx.t0:.1f}s; {[len(r[0][2]) for r in reqs]} Coq cases')
    with ThreadPoolExecutor(len(gens)) as ex:
        outs = list(ex.map(lambda r: cases.run_vm_cases(ctx, *r[0], **r[1]), reqs))
    ctx.log(f'Coq evaluation done at {time.time() - ctx.t0:.1f}s')
    for g, o in zip(gens, outs):
        try:
            g.send(o)
        except StopIteration:
            pass


def capped(ctx, sample, cap=4):
    """at most `cap` evidence samples per level (the evidence keeps 12 samples in all)"""
    return sample if sum(1 for s_ in ctx.samples if isinstance(s_, dict) and s_.get('level') == sample.get('level')) < cap else None


def fail_corr(ctx, key, name, what, X, expect, mode=None, gname=None, found=True):
    ctx.violation(key, f'dataset {name}: {what}',
                  {'dataset': name, 'X': np.asarray(X).tolist(), 'what': what, 'mode': mode, 'grid': gname,
                   'repro': repro_expect(X, expect, mode, gname)}, found=found)


def slug(name):
    return re.sub(r'-n\d+.*$', '', name)


def corr_l1(ctx, ds, quick):
    from copulas.utils import EPSILON
    # the grid exactly as the library builds it (EPSILON is a numpy float32 scalar: under numpy >= 2 the whole grid, hence
    # base[k] ** 2, (1 - z) ** 2, the cdf arguments and the candidate tails are float32)
    garr = np.linspace(EPSILON, 1.0 - EPSILON, 50)
    eps_m = 2.0 ** -24 if garr.dtype == np.float32 else 2.0 ** -53
    ctx.extra['grid_dtype'] = str(garr.dtype)
    fgrid = [float(x) for x in garr]
    hdr = IMPORTS + f'Definition fbase : list Q := {qlist(fgrid)}.\n'
    exprs, meta = [], []
    gtol = q(Fraction(4 * eps_m))
    exprs.append('(Nat.eqb (List.length fbase) (List.length library_base) && forallb (fun p => Qle_bool (Qabs (fst p - snd p)) ' + gtol + ') '
                 '(combine fbase library_base))%bool')
    meta.append(('grid', None, None, None))
    runs = {}
    for name, X, kind in ds:
        rec = capture_run(X)
        runs[name] = rec
        res = rec['result']
        tau = rec['kt'][0] if rec['kt'] else None
        tau_coq = 'None' if (tau is None or tau != tau) else f'(Some {q(tau)})'
        if res[0] == 'ok':
            thF = rec['cands'][0][1] if rec['cands'] else res[3]
        else:
            thF = 1.0
        rec['thF'] = thF
        if not (thF == thF) or math.isinf(thF):
            ctx.obligation(f'corr:L1:{name}:frank-theta-finite', False, 'correspondence', f'Frank theta {thF}')
            continue
        staged = res[0] == 'ok' and tau is not None and tau > 0 and 'emp' in rec
        rec['staged'] = staged
        if not staged:
            # shortcut / refusal: the whole model function is cheap
            exprs.append(f'zres (let UV := {uvlist(X)} in select_copula (fun _ _ => None) (frank_fit {q(thF)} UV {tau_coq}) UV fbase)')
            meta.append(('whole', name, X, rec))
            continue
        exprs.append(f'let UV := {uvlist(X)} in (zemp (compute_empirical UV fbase), zff (frank_fit {q(thF)} UV {tau_coq}), '
                     f'flat_map zcop (candidates {q(tau)} (Finite {q(thF)})))')
        meta.append(('emp', name, X, rec))
        zl, _, zr, _ = rec['emp']
        for j, (f, th, _) in enumerate(rec['cands']):
            tab = rec['cdf'][f]
            if any(math.isinf(v) for v in tab.values()):
                continue
            t = '[' + '; '.join(f'({q(z)}, {oq(v)})' for z, v in sorted(tab.items())) + ']'
            cop = f'{{| fam := {f}; c_tau := {q(tau)}; c_theta := Finite 1 |}}'
            exprs.append(f'let t := {t} in (zolist (cand_left (fun _ => lookup t) {cop} {qlist(zl)}), '
                         f'zolist (cand_right (fun _ => lookup t) {cop} {qlist(zr)}))')
            meta.append(('tails', name, X, (rec, j)))
        if 'tails' in rec:
            with np.errstate(all='ignore'):
                L, R = np.array(rec['emp'][1]), np.array(rec['emp'][3])
                dl = [float(np.sum((L - np.array(a)) ** 2)) for a in rec['tails'][0]]
                dr = [float(np.sum((R - np.array(a)) ** 2)) for a in rec['tails'][1]]
                db = [float(np.sum((np.concatenate((L, R)) - np.concatenate((np.array(a), np.array(b)))) ** 2))
                      for a, b in zip(*rec['tails'])]
            rec['diffs'] = (dl, dr, db)
            if all(sum(1 for x in d if math.isinf(x)) <= 1 and not any(x == float('-inf') for x in d) for d in (dl, dr, db)):
                ol = lambda d: '[' + '; '.join(oq(x) for x in d) + ']'
                exprs.append(f'zidx (np_argmax (add3 (rank_desc {ol(dl)}) (rank_desc {ol(dr)}) (rank_desc {ol(db)})))')
                meta.append(('argmax', name, X, rec))
    outs = yield (('Cases_C11_L1', hdr, exprs), {'per_file': 3})
    n_ok = 0
    for (stage, name, X, rec), o in zip(meta, outs):
        g = groups(o)
        if stage == 'grid':
            ctx.obligation('corr:L1:float-grid-is-library_base', o == 'true', 'correspondence', f'vm_compute gave {o}')
            continue
        if o is None:
            ctx.obligation(f'corr:L1:{stage}:{name}', False, 'correspondence', 'the model did not evaluate')
            continue
        if stage == 'whole':
            res = rec['result']
            r = g[0]
            if r[0] < 0:
                mo = ('err', {1: 'FrankFitRaised', 2: 'IndexError', 3: 'ZeroDivisionError', 4: 'ValueError_empty'}[-r[0]])
                agree = res[0] == 'err' and res[1] == 'ValueError' and mo[1] == 'FrankFitRaised'
                expect = {'result': ('err', 'ValueError')}
            else:
                th = pairs(r[4:6])[0]
                mo = ('ok', FAMS[r[1]], float(Fraction(r[2], r[3])), float(th))
                agree = res[0] == 'ok' and res[1] == mo[1] and res[2] == mo[2] and close_f(res[3], mo[3])
                expect = {'result': mo}
            ctx.obligation(f'corr:L1:select_copula:{name}', agree, 'correspondence', f'model {mo} vs implementation {res}')
            ctx.case(('L1', name), capped(ctx, {'level': 'L1', 'dataset': name, 'n': len(X), 'tau': (rec['kt'] or [None])[0], 'impl': res[:4], 'model': mo}),
                     nontrivial=True)
            n_ok += agree
            if not agree:
                fail_corr(ctx, f'corr:L1:select_copula-disagrees:{slug(name)}', name, f'implementation {res[:4]}, model {mo}', X, expect)
            continue
        if stage == 'emp':
            tau = rec['kt'][0]
            if g[0] != [0]:
                ctx.obligation(f'corr:L1:compute_empirical:{name}', False, 'correspondence', f'model raises error {g[0]}')
                fail_corr(ctx, f'corr:L1:compute_empirical-disagrees:{slug(name)}', name, f'model _compute_empirical raises {g[0]}', X, {})
                continue
            mz = [pairs(x) for x in g[1:5]]
            iz = rec['emp']
            ok_z = all(len(a) == len(b) and all(x == Fraction(y) for x, y in zip(a, b)) for a, b in ((mz[0], iz[0]), (mz[2], iz[2])))
            ok_v = all(len(a) == len(b) and all(close(x, y, 8 * eps_m) for x, y in zip(a, b)) for a, b in ((mz[1], iz[1]), (mz[3], iz[3])))
            expect = {'emp': [[float(x) for x in part] for part in mz], 'rel': 8 * eps_m}
            ctx.obligation(f'corr:L1:compute_empirical:{name}', ok_z and ok_v, 'correspondence',
                           f'lengths model {[len(x) for x in mz]} implementation {[len(x) for x in iz]}; grid points exact: {ok_z}; L/R within {8 * eps_m:.1e} relative: {ok_v}')
            if not (ok_z and ok_v):
                fail_corr(ctx, f'corr:L1:compute_empirical-disagrees:{slug(name)}', name,
                          f'_compute_empirical differs from the model (lengths model {[len(x) for x in mz]}, implementation {[len(x) for x in iz]})', X, expect)
            ff = g[5]
            ok_ff = len(ff) == 4 and Fraction(ff[0], ff[1]) == Fraction(tau)
            ctx.obligation(f'corr:L1:frank-fit-accepted:{name}', ok_ff, 'correspondence', f'C10 fit model gives {ff}')
            mc = []
            c = g[6]
            for i in range(0, len(c), 5):
                mc.append((FAMS[c[i]], float(Fraction(c[i + 1], c[i + 2])), float(pairs(c[i + 3:i + 5])[0])))
            ic = [(f, th, t) for f, th, t in rec['cands']]
            ok_c = len(mc) == len(ic) and all(m[0] == i[0] and m[1] == i[2] and close_f(i[1], m[2]) for m, i in zip(mc, ic))
            ctx.obligation(f'corr:L1:candidates:{name}', ok_c, 'correspondence', f'model {mc} vs implementation {ic}')
            if not ok_c:
                fail_corr(ctx, f'corr:L1:candidates-disagree:{slug(name)}', name, f'candidate list: implementation {ic}, model {mc}', X,
                          {'cands': [(m[0], m[2]) for m in mc]})
            ctx.case(('L1', name), capped(ctx, {'level': 'L1', 'dataset': name, 'n': len(X), 'tau': tau, 'impl': rec['result'][:4],
                                                'candidates': [(m[0], m[2]) for m in mc], 'len_z_left': len(iz[0]), 'len_z_right': len(iz[2])}), nontrivial=True)
            n_ok += ok_z and ok_v and ok_c
            continue
        if stage == 'tails':
            rec, j = rec
            if 'tails' not in rec:
                continue
            ml, mr = pairs(g[0]), pairs(g[1])
            il, ir = rec['tails'][0][j], rec['tails'][1][j]
            # float rounding of the implementation (precision eps_m): v / z^2 relative; 1 - 2z + c absolute, then / (1-z)^2
            zr_ = rec['emp'][2]
            ok = len(ml) == len(il) and len(mr) == len(ir) and all(close(x, y, 8 * eps_m) for x, y in zip(ml, il)) \
                and all(isinstance(x, Fraction) and y == y and not math.isinf(y)
                        and abs(x - Fraction(y)) <= Fraction(16 * eps_m) / (1 - Fraction(z)) ** 2 + Fraction(8 * eps_m) * abs(x)
                        if isinstance(x, Fraction) else close(x, y) for x, y, z in zip(mr, ir, zr_))
            ctx.obligation(f'corr:L1:candidate-tails:{name}:{rec["cands"][j][0]}', ok, 'correspondence',
                           f'lengths model {len(ml)},{len(mr)} implementation {len(il)},{len(ir)}')
            if not ok:
                exp_t = ([None] * len(rec['cands']), [None] * len(rec['cands']))
                exp_t[0][j] = [float(x) for x in ml]
                exp_t[1][j] = [float(x) for x in mr]
                fail_corr(ctx, f'corr:L1:candidate-tails-disagree:{slug(name)}', name,
                          f'_compute_candidates for {rec["cands"][j][0]} differs from cand_left/cand_right of the model', X, {'tails': exp_t, 'rel': 8 * eps_m})
            # the sums of squares against exact fractions (the step vm_compute cannot afford on the real grid)
            for side, emp_l, imp in ((0, rec['emp'][1], il), (1, rec['emp'][3], ir)):
                d = rec['diffs'][side][j]
                if d == d and not math.isinf(d) and all(x == x and not math.isinf(x) for x in imp):
                    ex = sum((Fraction(a) - Fraction(b)) ** 2 for a, b in zip(emp_l, imp))
                    okd = abs(ex - Fraction(d)) <= Fraction(REL) * ex
                    ctx.obligation(f'corr:L1:distance-is-sum-of-squares:{name}:{rec["cands"][j][0]}:{side}', okd, 'correspondence',
                                   f'numpy {d!r} vs exact {float(ex)!r}')
            continue
        if stage == 'argmax':
            idx = g[0][0]
            res = rec['result']
            mfam = rec['cands'][idx][0] if 0 <= idx < len(rec['cands']) else None
            ok = res[0] == 'ok' and mfam == res[1]
            ctx.obligation(f'corr:L1:rank-argmax:{name}', ok, 'correspondence', f'model index {idx} ({mfam}) vs implementation {res[:2]}; distances {rec["diffs"]}')
            if not ok:
                fail_corr(ctx, f'corr:L1:selected-family-disagrees:{slug(name)}', name,
                          f'implementation returned {res[1]}, the model (ranks of the same distances, first maximum) selects {mfam}', X,
                          {'result': ('ok', mfam, res[2], rec['cands'][idx][1] if mfam else float('nan'))})
            n_ok += ok
    ctx.extra['L1_agreeing_stages'] = int(n_ok)
    # deprecated alias Bivariate.select_copula
    for name, X, kind in ds[:3] + [d for d in ds if d[0] in ('tau0-design', 'constant-column')]:
        a = capture_run(X, alias=True)['result']
        b = runs[name]['result']
        ok = a[:2] == b[:2] and (a[0] == 'err' or (a[2] == b[2] and a[3] == b[3]))
        ctx.obligation(f'corr:alias:{name}', ok, 'correspondence', f'Bivariate.select_copula {a} vs select_copula {b}')
        if not ok:
            ctx.violation(f'corr:alias-disagrees:{slug(name)}', f'Bivariate.select_copula(X) gives {a}, copulas.bivariate.select_copula(X) gives {b}',
                          {'dataset': name, 'X': np.asarray(X).tolist(),
                           'repro': ("import numpy as np, warnings\nwarnings.filterwarnings('ignore')\nfrom copulas.bivariate import Bivariate, select_copula\n"
                                     f"X = np.array({np.asarray(X).tolist()!r})\n"
                                     "def r(f):\n    try:\n        c = f(X.copy()); return (type(c).__name__, c.tau, c.theta)\n    except Exception as e:\n        return type(e).__name__\n"
                                     "a, b = r(Bivariate.select_copula), r(select_copula)\nprint(a, b)\nassert a == b\n")})


def corr_l2(ctx, l2):
    from copulas.utils import EPSILON
    exprs, meta = [], []
    skipped = 0
    want_ls = [((float(EPSILON), 1.0 - float(EPSILON), 50.0), {})]
    for name, X, mode, grid, gname in l2:
        rec = capture_run(X, mode=mode, grid=grid)
        res = rec['result']
        tau = rec['kt'][0] if rec['kt'] else None
        ok_ls = rec.get('linspace_calls') == want_ls or (tau is not None and tau <= 0)
        ctx.obligation(f'corr:L2:linspace-arguments:{name}', ok_ls, 'correspondence', f"np.linspace called with {rec.get('linspace_calls')}")
        if not ok_ls:
            fail_corr(ctx, f'corr:L2:linspace-arguments:{slug(name)}', name,
                      f"np.linspace called with {rec.get('linspace_calls')}, expected (EPSILON, 1-EPSILON, 50)", X, {'linspace': want_ls}, mode, gname,
                      found=False)       # the SHAPE of the internal calls differs from the model's: the tie is broken, no outcome is shown wrong
        if rec['offdiag']:
            ctx.obligation(f'corr:L2:cdf-on-diagonal:{name}', False, 'correspondence', 'cumulative_distribution evaluated off the diagonal')
            fail_corr(ctx, f'corr:L2:cdf-off-diagonal:{slug(name)}', name, 'cumulative_distribution evaluated at points that are not (z, z)', X, {}, mode, gname, found=False)
            continue
        if tau is None or tau != tau:
            continue
        thF = rec['cands'][0][1] if rec['cands'] else (res[3] if res[0] == 'ok' else 1.0)
        allv = [v for f in FAMS for v in rec['cdf'][f].values()]
        if any(math.isinf(v) for v in allv):
            skipped += 1
            ctx.case(('L2', name), {'level': 'L2', 'dataset': name, 'skipped': 'infinite cdf value'}, nontrivial=False)
            continue
        # conditioning of the float distances (exact ties are fine, near-ties are not decidable in floats)
        cond = True
        if 'tails' in rec and 'emp' in rec:
            with np.errstate(all='ignore'):
                L, R = np.array(rec['emp'][1]), np.array(rec['emp'][3])
                ds_ = [[float(np.sum((L - np.array(a)) ** 2)) for a in rec['tails'][0]],
                       [float(np.sum((R - np.array(a)) ** 2)) for a in rec['tails'][1]],
                       [float(np.sum((np.concatenate((L, R)) - np.concatenate((np.array(a), np.array(b)))) ** 2)) for a, b in zip(*rec['tails'])]]
            for d in ds_:
                for i in range(len(d)):
                    for j in range(i):
                        a, b = d[i], d[j]
                        if a == a and b == b and a != b and abs(a - b) <= REL * max(abs(a), abs(b)):
                            cond = False
            rec['diffs'] = ds_
        if not cond:
            skipped += 1
            ctx.case(('L2', name), {'level': 'L2', 'dataset': name, 'skipped': 'near-tie of distances'}, nontrivial=False)
            continue
        tabs = ' '.join('[' + '; '.join(f'({q(z)}, {oq(v)})' for z, v in sorted(rec['cdf'][f].items())) + ']' for f in FAMS)
        exprs.append(f'let UV := {uvlist(X)} in let g := {qlist(grid)} in '
                     f'(zres (select_copula (tabcdf {tabs}) (Some ({q(tau)}, Finite {q(thF)})) UV g), zemp (compute_empirical UV g))')
        meta.append((name, X, mode, gname, rec))
    outs = yield (('Cases_C11_L2', IMPORTS, exprs), {'per_file': 1, 'timeout': 600})
    n_ok = 0
    for (name, X, mode, gname, rec), o in zip(meta, outs):
        res = rec['result']
        g = groups(o)
        if g is None:
            ctx.obligation(f'corr:L2:select_copula:{name}', False, 'correspondence', 'the model did not evaluate')
            continue
        if 'emp' in rec and len(g) >= 6:
            mz = [pairs(x) for x in g[2:6]]
            iz = rec['emp']
            ok_e = g[1] == [0] and all(len(a) == len(b) and all(close(x, y) for x, y in zip(a, b)) for a, b in zip(mz, iz))
            ctx.obligation(f'corr:L2:compute_empirical:{name}', ok_e, 'correspondence',
                           f'lengths model {[len(x) for x in mz]} implementation {[len(x) for x in iz]}')
            if not ok_e:
                fail_corr(ctx, f'corr:L2:compute_empirical-disagrees:{slug(name)}', name,
                          f'with np.linspace -> grid {gname}: _compute_empirical differs from the model (lengths model {[len(x) for x in mz]}, '
                          f'implementation {[len(x) for x in iz]})', X, {'emp': [[float(x) for x in part] for part in mz]}, mode, gname)
        r = g[0]
        if r[0] < 0:
            mo = ('err', r[0])
            agree = False
        else:
            th = pairs(r[4:6])[0]
            mo = ('ok', FAMS[r[1]], float(Fraction(r[2], r[3])), float(th))
            agree = res[0] == 'ok' and res[1] == mo[1] and res[2] == mo[2] and close_f(res[3], mo[3])
        ctx.obligation(f'corr:L2:select_copula:{name}', agree, 'correspondence', f'model {mo} vs implementation {res}; distances {rec.get("diffs")}')
        nan_scores = any(x != x for d in rec.get('diffs', []) for x in d)
        ctx.case(('L2', name), capped(ctx, {'level': 'L2', 'dataset': name, 'n': len(X), 'mode': mode, 'grid': gname, 'tau': rec['kt'][0],
                                            'candidates': [c[0] for c in rec['cands']], 'impl': res[:4], 'model': mo, 'nan_score': nan_scores}), nontrivial=True)
        if nan_scores and agree and res[0] == 'ok':
            ctx.extra.setdefault('quirks_observed', {})[name] = f'D5 (under oracle substitution {mode}): a candidate with a nan score is selected: {res[1]}'
        n_ok += agree
        if not agree:
            fail_corr(ctx, f'corr:L2:select_copula-disagrees:{slug(name)}', name,
                      f'with np.linspace -> grid {gname} and cdf oracle {mode}: implementation {res[:4]}, model {mo}', X, {'result': mo}, mode, gname)
    ctx.extra['L2_agreeing'] = int(n_ok)
    ctx.extra['ill_conditioned_skipped'] = skipped


def recovery_table(ctx):
    """report-only (statistical residue of C11): how often the generating family is returned"""
    import copulas.bivariate as B
    rng = np.random.default_rng(ctx.seed + 1177)
    table = {}
    for fam in FAMS:
        for tau in (0.3, 0.5, 0.7):
            hits, tot = 0, 8
            for _ in range(tot):
                X = lib_sample(fam, tau, 3000, int(rng.integers(1, 2 ** 31 - 1)))
                with np.errstate(all='ignore'), warnings.catch_warnings():
                    warnings.simplefilter('ignore')
                    try:
                        hits += type(B.select_copula(X)).__name__ == fam
                    except Exception:
                        pass
            table[f'{fam}@tau={tau}'] = f'{hits}/{tot}'
    ctx.extra['family_recovery_report_only_n3000'] = table
