"""C17 — vine pair-copula data flow, likelihood and sampling are coherent.

(1) Props/C17.v: the theorems of coq/Spec/VineData*.v, VineLik*.v, VineDfs.v, VineSample*.v, VineClip.v restated and re-checked
    (full statements where they hold, the strongest partial ones, every refutation with its vm_compute witness), plus
    Gen_vineclip.v generated (py2coq fragment E) from the four "correction of 0 or 1" lines of Tree.prepare_next_tree and the
    sampler's `min(max(tmp, EPSILON), 0.99)`, bridged to Model.VineData.clip_h / Spec.VineSampleR.clip_s.
(2) correspondence, evaluated by vm_compute inside Coq: real vines are fitted with every array tagged by content
    (tools/vf/vinedata.Tracer); the recorded STRUCTURE and level-1 input pairs drive Model.VineData.vine_data_of and, edge by
    edge, the two arrays handed to select_copula, the two handed to partial_derivative, the stored edge.U and the columns
    correlated by get_tau_matrix are compared as provenance terms; get_likelihood(u): every uni_matrix cell read
    (row, column, written-by / garbage) vs likelihood_reads, the arguments of every density vs vine_lik, the value vs the
    independent sum of log densities at the model's arguments; _sample_row for EVERY first_ind vs sample_trace; sample(n).
(3) witness search on the real library (the property's own statement): edge (family, theta) = select_copula on the recorded
    inputs (called again); stored U strictly inside (0,1) and equal to the h-functions of the edge's copula; the columns of
    every edge = the textbook conditional CDFs F(L|D), F(R|D) (numeric recursion, independent of the tags); get_likelihood
    deterministic (twice, after another call, NaN / 0.123 / 0.77 fills of np.empty) and equal to the vine density; two-column
    tables: KS of the sample against the fitted KDE CDF and Kendall tau of the sample against the selected copula's tau
    (false-alarm level 1e-9, search only).
The refutation theorems of Props/C17.v are replayed on tables whose fitted structure IS the Coq witness (F10, F10b).
"""
COQCHK = ['C17_data', 'C17_sample']   # cones without Coquelicot / Interval: coqchk -o re-checks them in about a minute each (thorough tier)
import hashlib
import math
import warnings

import numpy as np

from .. import cases, vinegen
from .. import vinedatagen
from .. import vinestruct as VS
from .. import vinedata as VD

VTS = ('center', 'direct', 'regular')
KINDS = ('gauss', 'strong', 'heavy', 'mixed', 'indep', 'ties')
# tables (vinestruct.make_table(seed, 4, 80, kind)) whose fitted structure is the witness of a refutation theorem
WITNESSES = [
    {'name': 'provenance_refuted', 'vt': 'direct', 'tseed': 4, 'kind': 'gauss', 'coq': 'train_vine_opt Direct 4 3 (fun _ => tauA) id_order'},
    {'name': 'provenance_swap_refuted:direct', 'vt': 'direct', 'tseed': 35, 'kind': 'strong',
     'coq': 'train_vine_opt Direct 4 3 (fun _ => Spec.VineDataProofs.tauS) id_order'},
    {'name': 'provenance_swap_refuted:regular', 'vt': 'regular', 'tseed': 184, 'kind': 'strong',
     'coq': 'train_vine_opt Regular 4 3 (fun _ => Spec.VineDataProofs.tauS) id_order'},
]
VM_IMPORTS = VD.VM_IMPORTS + '\nFrom Cop Require Import Spec.VineDataProofs.'


def digest(obj):
    return hashlib.sha1(repr(obj).encode()).hexdigest()[:10]


def natlist(l):
    return '[' + '; '.join(str(int(x)) for x in l) + ']'


# ------------------------------------------------------------------------------------------------ plan
def make_plan(ctx, quick):
    rng = np.random.default_rng(ctx.seed + 1700)
    plan = []
    j = int(ctx.seed)
    reps = 1 if quick else 4
    for rep in range(reps):
        for vt in VTS:
            for d in range(2, 7):
                for t in sorted({1, 2, 3, d - 1}):
                    kind = KINDS[j % len(KINDS)]
                    j += 1
                    plan.append({'vt': vt, 'd': d, 't': int(t), 'kind': kind, 'n': int(rng.integers(60, 101)),
                                 'tseed': int(rng.integers(0, 2 ** 31)), 'src': 'random'})
    for w in WITNESSES:
        plan.append({'vt': w['vt'], 'd': 4, 't': 3, 'kind': w['kind'], 'n': 80, 'tseed': w['tseed'], 'src': 'witness', 'witness': w})
    return plan


def args_of(p):
    return f"{p['vt']!r}, {p['tseed']}, {p['d']}, {p['n']}, {p['kind']!r}, {p['t']}"


def repro(p, fn, extra=''):
    return ("from vf import vinedata as VD\n"
            f"r = VD.{fn}({args_of(p)}{extra})\n"
            "print('\\n'.join(map(str, r)))\nassert not r\n")


# ------------------------------------------------------------------------------------------------ real side
def prov_labels(t, struct):
    """F(i | S) reading of a term with the check that every h-function is the one of the edge LABELLED ({i, x} | S) (Model chk_labels)"""
    if t[0] == 'M':
        return (t[1], frozenset())
    if t[0] != 'H':
        return None
    a, b = prov_labels(t[3], struct), prov_labels(t[4], struct)
    if a is None or b is None or a[1] != b[1] or a[0] == b[0] or a[0] in b[1] or b[0] in a[1]:
        return None
    try:
        (idx, (L, R), D, par) = struct[t[1]][t[2]]
    except Exception:      # noqa
        return None
    if frozenset(D) != a[1] or {L, R} != {a[0], b[0]}:
        return None
    return (a[0], a[1] | {b[0]})


def trace_plan(p, seed):
    """everything the real classes do on one plan entry"""
    X = VS.make_table(p['tseed'], p['d'], p['n'], p['kind'])
    rec = {'p': p, 'X': X}
    with VD.Tracer() as tr:
        v, exc = tr.fit(p['vt'], X, p['t'])
        rec['v'], rec['exc'] = v, exc
        if exc is not None:
            return rec
        struct = VS.edges_of(v.trees)
        rec['struct'] = struct
        # --- fit flow
        flow, k = [], 0
        for ti, tree in enumerate(v.trees):
            row = []
            for e in tree.edges:
                sel = tr.selects[k] if k < len(tr.selects) else None
                k += 1
                U = None
                try:
                    U = (tr.lookup(e.U[0]), tr.lookup(e.U[1]))
                except Exception:      # noqa
                    pass
                pds = sorted([q for q in tr.pds if q['phase'] == 'prepare' and any(s[:2] == (ti, int(e.index)) for s in q.get('stored', []))],
                             key=lambda q: [s[2] for s in q['stored'] if s[:2] == (ti, int(e.index))][0])
                row.append({'e': e, 'sel': sel, 'U': U, 'pds': pds})
            flow.append(row)
        rec['flow'] = flow
        rec['n_selects'] = len(tr.selects)
        rec['n_prepare_pds'] = sum(1 for q in tr.pds if q['phase'] == 'prepare')
        rec['taus'] = tr.tau_records(v)
        # --- likelihood (traced, distinct garbage per unwritten cell)
        u = VD.fixed_u(p['d'], seed % 5)
        rec['u'] = u
        rec['lik'] = tr.likelihood(v, u)
    # --- untraced oracles
    rec['lik_report'] = VD.likelihood_report(v, u, struct)
    rec['numeric_flow'] = VD.numeric_flow(v, [(f['sel']['X'], None, None) if f['sel'] else (None, None, None) for row in flow for f in row], struct)
    rec['sampler'] = [VD.sample_trace_real(v, f) for f in range(p['d'])]
    from copulas.utils import validate_random_state
    v.random_state = validate_random_state(1000 + seed)
    rows = 3
    try:
        with warnings.catch_warnings():
            warnings.simplefilter('ignore')
            s = v.sample(rows)
        rec['sample'] = {'shape': tuple(s.shape), 'columns': list(s.columns), 'finite': bool(np.isfinite(s.to_numpy(dtype=float)).all()), 'rows': rows}
    except Exception as ex:      # noqa
        rec['sample'] = {'exc': ex, 'rows': rows}
    # --- edges: (family, theta) is what select_copula returns on the recorded inputs; U inside (0,1) and = h of the edge copula
    from copulas.bivariate import select_copula
    eps = VD.library_epsilon()
    probs = []
    for ti, row in enumerate(flow):
        for f in row:
            e, sel = f['e'], f['sel']
            tag = f"tree {ti + 1} edge {int(e.index)} ({int(e.L)},{int(e.R)}|{sorted(int(x) for x in e.D)})"
            if sel is None:
                probs.append(('edge-copula-not-select-result', tag + ': no select_copula call recorded'))
                continue
            if not (e.name is sel['name'] and e.theta is sel['theta']):
                probs.append(('edge-copula-not-select-result', tag + f": stores ({e.name}, {e.theta}) but select_copula returned ({sel['name']}, {sel['theta']})"))
            with warnings.catch_warnings():
                warnings.simplefilter('ignore')
                try:
                    again = select_copula(np.array(sel['X'], copy=True))
                    same = VD.tname(again.copula_type) == VD.tname(e.name) and VD.same_value(float(again.theta), float(e.theta))
                    if not same:
                        probs.append(('edge-copula-differs-on-reselect', tag + f": stores ({VD.tname(e.name)}, {e.theta}); select_copula on the same two "
                                      f"columns returns ({VD.tname(again.copula_type)}, {again.theta})"))
                except Exception as ex:      # noqa
                    probs.append(('edge-copula-differs-on-reselect', tag + f': select_copula on the recorded columns raised {type(ex).__name__}: {ex}'))
            Ue = np.asarray(e.U, dtype=float)
            if Ue.shape != (2, v.n_sample) or not np.all((Ue > 0) & (Ue < 1)):
                bad = Ue[~((Ue > 0) & (Ue < 1))] if Ue.ndim == 2 else Ue
                probs.append(('U-not-strictly-inside-unit-interval', tag + f': edge.U has shape {Ue.shape}, entries outside (0,1): {bad[:4].tolist()}'))
            if len(f['pds']) == 2:
                c = VD.copula_of(e)
                for s, q in enumerate(f['pds']):
                    if not (VD.tname(q['name']) == VD.tname(e.name) and VD.same_value(float(q['theta']), float(e.theta))):
                        probs.append(('U-not-h-of-edge-copula', tag + f": U[{s}] computed with ({VD.tname(q['name'])}, {q['theta']}), the edge stores ({VD.tname(e.name)}, {e.theta})"))
                    exp = np.array(c.partial_derivative(np.array(q['X'], copy=True)), dtype=float)
                    exp[exp == 0] = eps
                    exp[exp == 1] = 1 - eps
                    if Ue.shape == (2, v.n_sample) and not np.array_equal(exp, Ue[s]):
                        probs.append(('U-not-h-of-edge-copula', tag + f': U[{s}] differs from the corrected partial_derivative of the edge copula at its inputs '
                                      f'(max diff {float(np.max(np.abs(exp - Ue[s]))):.3g})'))
            else:
                probs.append(('U-not-h-of-edge-copula', tag + f": {len(f['pds'])} partial_derivative results stored in edge.U (expected 2)"))
    # marginals: ppfs[i] is the quantile function of the KDE fitted on column i, u_matrix[:, i] its CDF on that column
    for i, col in enumerate(X.columns):
        try:
            okm = getattr(v.ppfs[i], '__self__', None) is v.unis[i] and np.array_equal(np.asarray(v.unis[i].cumulative_distribution(X[col])), v.u_matrix[:, i])
        except Exception as ex:      # noqa
            okm = False
        if not okm:
            probs.append(('marginal-misaligned', f'column {i} ({col!r}): ppfs[{i}] / u_matrix[:, {i}] do not belong to the marginal fitted on that column'))
    rec['edge_problems'] = probs
    return rec


# ------------------------------------------------------------------------------------------------ Coq side
def coq_expr(rec):
    p, struct = rec['p'], rec['struct']
    ins = []
    for f in rec['flow'][0]:
        s = f['sel']
        a = s['x'][1] if s and s['x'][0] == 'M' else 99
        b = s['y'][1] if s and s['y'][0] == 'M' else 99
        ins.append((a, b))
    d, t = p['d'], p['t']
    return (f"let V := {VS.coq_edges(struct)} in let INS := {VS.coq_pairs(ins)} in let DV := vine_data_of V INS in\n"
            "  (show_vine_data DV,\n"
            "   (hgood V, option_map (map (map (fun x => (inputs_okb x, inputs_swappedb x, U_okb x)))) DV),\n"
            "   option_map (fun D => map (fun t => show_tau_cols (tau_matrix_cols t (nth t D []))) (seq 0 (List.length D))) DV,\n"
            f"   option_map (fun l => (show_reads (reads_of l), map (map (fun le => (show_col (fst (le_args le)), show_col (snd (le_args le))))) l)) (vine_lik {d} V),\n"
            f"   map (fun f => show_trace (sample_trace V {t} f)) (seq 0 {d}))")


def model_of(out):
    """parsed 5-tuple -> dict, or a string describing the failure"""
    m = VD.parse(out)
    if isinstance(m, str) or not isinstance(m, tuple) or len(m) != 5:
        return f'cannot read the model output: {str(m)[:200]}'
    data, (hgood, flags), taus, lik, samp = m
    try:
        res = {'hgood': hgood, 'flags': VD.unsome(flags), 'taus': VD.unsome(taus), 'data': None, 'reads': None, 'args': None, 'sample': []}
        if data is not None:
            res['data'] = [[{'idx': e[0], 'LR': e[1], 'D': e[2], 'par': VD.unsome(e[3]), 'in': e[4], 'U': e[5]} for e in row] for row in VD.unsome(data)]
        if lik is not None:
            reads, args = VD.unsome(lik)
            res['reads'] = [(r[0], r[1], r[2], VD.unsome(r[3])) for r in reads]
            res['args'] = args
        for s in samp:
            if s is None:
                res['sample'].append(None)
            else:
                a, vis = VD.unsome(s)
                res['sample'].append(([(x[0], x[1]) for x in a], vis))
        return res
    except Exception as ex:      # noqa
        return f'cannot read the model output ({type(ex).__name__}: {ex}): {str(m)[:200]}'


# ------------------------------------------------------------------------------------------------ judgement
def judge(ctx, rec, model, stats):
    p = rec['p']
    vt, d, t, kind = p['vt'], p['d'], p['t'], p['kind']
    tag = f"{vt}:d{d}:t{t}:{kind}:{p['tseed']}"
    v, struct = rec['v'], rec['struct']
    base = {'plan': {k: p[k] for k in ('vt', 'd', 't', 'kind', 'n', 'tseed')}, 'structure': struct}
    where = f"VineCopula({vt!r}).fit(make_table({p['tseed']}, {d}, {p['n']}, {kind!r}), truncated={t})"
    if isinstance(model, str):
        ctx.obligation(f'corr:model-output:{tag}', False, 'correspondence', model)
        return
    # ---------------- (a) fit flow: select_copula inputs, partial_derivative inputs, edge.U
    mdata = model['data']
    flow_ok_all = mdata is not None and len(mdata) == len(rec['flow'])
    bad_model_edges, f10_seen, crit_bad = [], [], []
    for ti, row in enumerate(rec['flow']):
        for ei, f in enumerate(row):
            e = f['e']
            L, R, D = int(e.L), int(e.R), sorted(int(x) for x in e.D)
            lab = f"tree {ti + 1} edge {int(e.index)} ({L},{R}|{D})"
            real_in = None if f['sel'] is None else (VD.enc(f['sel']['x']), VD.enc(f['sel']['y']))
            real_U = None if f['U'] is None else (VD.enc(f['U'][0]), VD.enc(f['U'][1]))
            real_pd = [(VD.enc(q['x']), VD.enc(q['y'])) for q in f['pds']]
            m = None
            try:
                m = mdata[ti][ei]
            except Exception:      # noqa
                pass
            if m is None:
                corr_ok = False
                detail = 'the model has no such edge (vine_data_of = None?)'
            else:
                mU0, mU1 = VD.dec_col(list(m['U'][0])), VD.dec_col(list(m['U'][1]))
                model_pd = [(VD.enc(mU0[3]), VD.enc(mU0[4])), (VD.enc(mU1[3]), VD.enc(mU1[4]))]
                corr_ok = (real_in == (list(m['in'][0]), list(m['in'][1])) and real_U == (list(m['U'][0]), list(m['U'][1]))
                           and real_pd == model_pd)
                detail = '' if corr_ok else (f"{lab}: select_copula got ({VD.show_term(f['sel']['x']) if f['sel'] else None}, {VD.show_term(f['sel']['y']) if f['sel'] else None}), "
                                             f"model ({VD.show_term(VD.dec_col(list(m['in'][0])))}, {VD.show_term(VD.dec_col(list(m['in'][1])))}); "
                                             f"U = ({VD.show_term(f['U'][0]) if f['U'] else None}, {VD.show_term(f['U'][1]) if f['U'] else None}), model ({VD.show_term(mU0)}, {VD.show_term(mU1)}); "
                                             f"partial_derivative inputs {[(VD.show_term(q['x']), VD.show_term(q['y'])) for q in f['pds']]}")
            flow_ok_all = flow_ok_all and corr_ok
            if not corr_ok:
                ctx.violation(f'corr:fit-flow:{vt}:tree{ti + 1}', f"{where}: the arrays that reach select_copula / partial_derivative / edge.U differ from Model.VineData.vine_data_of "
                              f"on the recorded structure: {detail}", dict(base, edge=lab, repro=repro(p, 'repro_columns')))
            # property-level reading of the REAL tags
            S = frozenset(D)
            want_in = ((L, S), (R, S))
            want_U = ((L, S | {R}), (R, S | {L}))
            got_in = None if f['sel'] is None else (prov_labels(f['sel']['x'], struct), prov_labels(f['sel']['y'], struct))
            got_U = None if f['U'] is None else (prov_labels(f['U'][0], struct), prov_labels(f['U'][1], struct))
            in_ok = got_in == want_in or (ti == 0 and got_in == (want_in[1], want_in[0]))
            U_ok = got_U == want_U
            stats['edges'] += 1
            if ti == 0 and got_in == (want_in[1], want_in[0]) and L != R:
                stats['level1_inputs_in_path_order'] += 1
            mflag = None
            try:
                mflag = {'hgood': model['hgood'][ti][ei], 'inputs_ok': model['flags'][ti][ei][0], 'swapped': model['flags'][ti][ei][1], 'U_ok': model['flags'][ti][ei][2]}
            except Exception:      # noqa
                pass
            if mflag is not None:
                # criterion_exact: from level 2 on, (inputs_okb && U_okb) = hgood
                if ti >= 1 and (mflag['inputs_ok'] and mflag['U_ok']) != mflag['hgood']:
                    crit_bad.append((lab, mflag))
                if not mflag['hgood']:
                    bad_model_edges.append((ti + 1, ei))
            if in_ok and U_ok:
                stats['edges_ok'] += 1
                continue
            kindw = 'swapped' if got_in == (want_in[1], want_in[0]) else 'wrong'
            stats['edges_' + kindw] += 1
            what = (f"{where}: {lab} -- select_copula received ({VD.show_prov(got_in[0]) if got_in else None}, {VD.show_prov(got_in[1]) if got_in else None}) "
                    f"instead of (F({L}|{','.join(map(str, D))}), F({R}|{','.join(map(str, D))})); edge.U = [{VD.show_prov(got_U[0]) if got_U else None}, "
                    f"{VD.show_prov(got_U[1]) if got_U else None}] instead of [F({L}|{','.join(map(str, sorted(S | {R})))}), F({R}|{','.join(map(str, sorted(S | {L})))})]"
                    f" (terms: {VD.show_term(f['sel']['x']) if f['sel'] else None} , {VD.show_term(f['sel']['y']) if f['sel'] else None})")
            predicted = corr_ok and mflag is not None and not mflag['hgood'] and vt in ('direct', 'regular') and ti >= 2
            if predicted:
                key = f'F10:wrong-conditional-columns:{vt}:tree{ti + 1}'
                f10_seen.append((ti + 1, ei))
                stats['F10'][f'{vt}:tree{ti + 1}'] = stats['F10'].get(f'{vt}:tree{ti + 1}', 0) + 1
            else:
                key = f'provenance:wrong-columns:{vt}:tree{ti + 1}'
            ctx.violation(key, what, dict(base, edge=lab, model_flags=mflag, repro=repro(p, 'repro_columns', f', only_tree={ti + 1}')))
    ctx.obligation(f'corr:fit-flow:{tag}', flow_ok_all, 'correspondence', '' if flow_ok_all else 'see violation corr:fit-flow')
    # the decidable criterion of the partial theorems is exact on this vine: from level 2 on (inputs_okb && U_okb) = hgood
    ctx.obligation(f'criterion-exact:{tag}', not crit_bad and model['flags'] is not None, 'correspondence', str(crit_bad[:3]))
    # call counts: one select_copula and two partial_derivative calls per edge, nothing else
    n_edges = sum(len(r) for r in struct)
    cnt_ok = rec['n_selects'] == n_edges and rec['n_prepare_pds'] == 2 * n_edges
    ctx.obligation(f'corr:call-counts:{tag}', cnt_ok, 'correspondence', f"{rec['n_selects']} select_copula / {rec['n_prepare_pds']} partial_derivative calls for {n_edges} edges")
    if not cnt_ok:
        ctx.violation(f'corr:call-counts:{vt}', f"{where}: {rec['n_selects']} select_copula and {rec['n_prepare_pds']} partial_derivative calls during fit for {n_edges} edges "
                      "(model: one and two per edge)", dict(base, repro=repro(p, 'repro_columns')))
    # the numeric oracle (independent of the tags) must single out the same edges
    num_bad = sorted({(b[0], b[1]) for b in rec['numeric_flow']})
    tag_bad = sorted(set(f10_seen) | {(ti + 1, ei) for ti, row in enumerate(rec['flow']) for ei, f in enumerate(row)
                                      if not _edge_ok(f, struct, ti)})
    cons = num_bad == tag_bad
    ctx.obligation(f'oracle:numeric-columns-agree-with-tags:{tag}', cons, 'correspondence', f'numeric {num_bad} tags {tag_bad}: {rec["numeric_flow"][:2]}')
    if not cons:
        extra_num = [b for b in rec['numeric_flow'] if (b[0], b[1]) not in tag_bad]
        if extra_num:
            b = extra_num[0]
            ctx.violation(f'columns-not-conditional-cdfs:{vt}:tree{b[0]}', f"{where}: tree {b[0]} edge {b[1]} ({b[2][0]},{b[2][1]}|{b[2][2]}): {b[3]}",
                          dict(base, problems=[str(x) for x in rec['numeric_flow'][:6]], repro=repro(p, 'repro_columns', f', only_tree={b[0]}')))
    # edge copulas / U
    for k, msg in rec['edge_problems']:
        ctx.violation(f'{k}:{vt}', f'{where}: {msg}', dict(base, repro=repro(p, 'repro_columns')))
    ctx.obligation(f'oracle:edge-copula-and-U:{tag}', not rec['edge_problems'], 'correspondence', str(rec['edge_problems'][:2]))
    # ---------------- (b) get_tau_matrix columns
    mt = model['taus']
    for lvl, M in sorted(rec['taus'].items()):
        real = [[None if c is None else ((VD.enc(c[0]), VD.enc(c[1])) if c[0] != 'ambiguous' else 'ambiguous') for c in row] for row in M]
        mod = None
        try:
            mod = [[None if c is None else (list(VD.unsome(c)[0]), list(VD.unsome(c)[1])) for c in row] for row in mt[lvl]]
        except Exception:      # noqa
            pass
        ok = real == mod
        ctx.obligation(f'corr:tau-columns:{tag}:tree{lvl + 1}', ok, 'correspondence', '' if ok else f'real {real} model {mod}')
        if not ok:
            ctx.violation(f'corr:tau-columns:{vt}:tree{lvl + 1}', f"{where}: Tree.get_tau_matrix of tree {lvl + 1} correlates / writes other cells than Model.VineData.tau_matrix_cols: "
                          f"real {[[None if c is None else (VD.show_term(c[0]), VD.show_term(c[1])) if c[0] != 'ambiguous' else c for c in row] for row in M]}",
                          dict(base, real=str(real), model=str(mod), repro=repro(p, 'repro_columns')))
    # ---------------- (c) likelihood
    lk, rep = rec['lik'], rec['lik_report']
    real_reads = [(r[0], r[2], r[3], VD.enc(r[4])) if isinstance(r[2], int) else tuple(r) for r in lk['reads']]
    mod_reads = None if model['reads'] is None else [(r[0], r[1], r[2], None if r[3] is None else list(r[3])) for r in model['reads']]
    if lk['exc'] is not None:
        ok = mod_reads is None
        ctx.obligation(f'corr:likelihood-reads:{tag}', ok, 'correspondence', f"raised {lk['exc']!r}, model reads {mod_reads}")
        ctx.violation(f'likelihood-raises:{vt}:{type(lk["exc"]).__name__}', f"{where}; get_likelihood({rec['u'].tolist()}) raised {type(lk['exc']).__name__}: {lk['exc']}",
                      dict(base, repro=repro(p, 'repro_likelihood')))
    else:
        ok = real_reads == mod_reads
        ctx.obligation(f'corr:likelihood-reads:{tag}', ok, 'correspondence', '' if ok else f'real {real_reads} model {mod_reads}')
        if not ok:
            ctx.violation(f'corr:likelihood-reads:{vt}', f"{where}; get_likelihood reads uni_matrix cells (tree, row, col, content) {real_reads}, Model.VineData.likelihood_reads_of gives {mod_reads}",
                          dict(base, repro=repro(p, 'repro_likelihood')))
        # arguments of the densities: first partial_derivative call of every edge has the same [left_u, right_u]
        real_args, seen = {}, set()
        for q in lk['pds']:
            if (q['tree'], q['edge']) not in seen:
                seen.add((q['tree'], q['edge']))
                real_args[(q['tree'], q['edge'])] = (VD.enc(q['x']), VD.enc(q['y']))
        margs = model['args'] or []
        mod_args = {(ti, ei): (list(a[0]), list(a[1])) for ti, row in enumerate(margs) for ei, a in enumerate(row)}
        aok = real_args == mod_args
        ctx.obligation(f'corr:likelihood-args:{tag}', aok, 'correspondence', '' if aok else f'real {real_args} model {mod_args}')
        if not aok:
            ctx.violation(f'corr:likelihood-args:{vt}', f"{where}; get_likelihood evaluates the pair copulas at other arguments than Model.VineData.vine_lik: real {real_args}, model {mod_args}",
                          dict(base, repro=repro(p, 'repro_likelihood')))
        # value = independent sum over the edges of log densities at the MODEL's arguments (garbage cells: the traced fill)
        garbage_reads = [r for r in real_reads if r[3] is None]
        try:
            terms = [[(VD.dec_col(list(a[0])), VD.dec_col(list(a[1]))) for a in row] for row in margs]
            indep = VD.sum_log_densities(terms, v.trees, rec['u'][0], lk['garbage'])
        except Exception as ex:      # noqa
            indep = f'{type(ex).__name__}: {ex}'
        vok = VD.close(lk['value'], indep) or (isinstance(indep, float) and indep != indep and lk['value'] != lk['value'])
        ctx.obligation(f'corr:likelihood-value:{tag}', vok, 'correspondence', f"get_likelihood = {lk['value']!r}, independent sum = {indep!r}")
        if not vok:
            ctx.violation(f'corr:likelihood-value:{vt}', f"{where}; get_likelihood({rec['u'].tolist()}) = {lk['value']!r} but the sum over the edges of the log pair-copula densities at the "
                          f"model's h-propagated arguments is {indep!r}", dict(base, repro=repro(p, 'repro_likelihood')))
        # property-level: determinism and equality with the vine density
        keys = ['nan', 'nan_again', '0.123', '0.123_after_other_call', '0.77', 'plain', 'plain_again']
        det = all(VD.same_value(rep[k], rep['nan']) for k in keys)
        model_garbage = mod_reads is not None and any(r[3] is None for r in mod_reads)
        stats['lik_runs'] += 1
        if garbage_reads:
            stats['lik_garbage'][vt] = stats['lik_garbage'].get(vt, 0) + 1
        if not det or garbage_reads:
            cells = [(r[0] + 1, r[1], r[2]) for r in real_reads if r[3] is None]
            what = (f"{where}; get_likelihood(u = {rec['u'][0].tolist()}) reads uni_matrix cells that no edge of the previous tree wrote (tree, row, col) = {cells}; "
                    f"its value is np.empty garbage: NaN fill -> {rep['nan']}, 0.123 fill -> {rep['0.123']}, 0.77 fill -> {rep['0.77']}, no fill -> {rep['plain']} "
                    f"(vine density at u: {rep['spec']})")
            if model_garbage and ok and garbage_reads and vt in ('direct', 'regular'):
                key = f'F10b:likelihood-reads-unwritten-cells:{vt}'
            else:
                key = f'likelihood-not-deterministic:{vt}'
                if not garbage_reads:
                    what = f"{where}; get_likelihood(u) is not a function of (model, u): " + ', '.join(f'{k}: {rep[k]}' for k in keys)
            ctx.violation(key, what, dict(base, values={k: rep[k] for k in rep}, unwritten_cells=cells, repro=repro(p, 'repro_likelihood')))
        all_good = not bad_model_edges
        if all_good or det:
            sok = VD.close(rep['0.123'], rep['spec'])
            if not sok and not (garbage_reads and not det):
                # wrong but garbage-free arguments
                wrong = [(ti + 1, ei) for (ti, ei), a in sorted(real_args.items()) if not _args_ok(a, struct, ti, ei)]
                if wrong and not all_good and vt in ('direct', 'regular') and all(w in bad_model_edges for w in wrong):
                    key = f'F10:likelihood-wrong-arguments:{vt}:tree{wrong[0][0]}'
                else:
                    key = f'likelihood-not-sum-of-edge-densities:{vt}'
                ctx.violation(key, f"{where}; get_likelihood(u = {rec['u'][0].tolist()}) = {rep['0.123']} but the vine density (sum over the edges of log c(F(L|D), F(R|D))) is {rep['spec']}"
                              f" (edges with wrong arguments: {wrong})", dict(base, values={k: rep[k] for k in rep}, repro=repro(p, 'repro_likelihood')))
            ctx.obligation(f'oracle:likelihood-is-vine-density:{tag}', sok or not all_good, 'correspondence', f"get_likelihood {rep['0.123']} spec {rep['spec']}")
    # ---------------- (d) the row sampler, every first_ind
    for f, s in enumerate(rec['sampler']):
        ms = model['sample'][f] if f < len(model['sample']) else 'missing'
        if s['err'] is not None:
            ok = ms is None
            real_desc = f"raised {type(s['err']).__name__}: {s['err']}"
        else:
            real_assign = [(i, tm) for i, tm in s['assign']]
            ok = ms not in (None, 'missing') and real_assign == [(a, list(b)) for a, b in ms[0]] and list(reversed([i for i, _ in real_assign])) == list(ms[1]) \
                and all(c['family_ok'] for c in s['pp']) and s['rnd'] == {'uniform': 1, 'randint': 1} \
                and s['row'] == [100.0 + i for i in range(d)]
            real_desc = f"ppfs arguments {real_assign}, percent_point calls {[(c['edge'], c['family_ok']) for c in s['pp']]}, rng calls {s['rnd']}, row {s['row']}"
        ctx.obligation(f'corr:sampler:{tag}:first{f}', ok, 'correspondence', '' if ok else f'real: {real_desc}; model: {ms}')
        if not ok:
            ctx.violation(f'corr:sampler-trace:{vt}', f"{where}; _sample_row with first_ind = {f}: {real_desc}; Model.VineData.sample_trace gives {ms}",
                          dict(base, first_ind=f, repro=repro(p, 'repro_sampler')))
    sm = rec['sample']
    if 'exc' in sm:
        sok = False
        ctx.violation(f'sample-raises:{vt}:{type(sm["exc"]).__name__}', f"{where}; sample({sm['rows']}) raised {type(sm['exc']).__name__}: {sm['exc']}", dict(base, repro=repro(p, 'repro_sampler')))
    else:
        sok = sm['shape'] == (sm['rows'], d) and sm['columns'] == list(rec['X'].columns) and sm['finite']
        if not sok:
            ctx.violation(f'sample-bad-output:{vt}', f"{where}; sample({sm['rows']}) returned shape {sm['shape']}, columns {sm['columns']}, all finite: {sm['finite']}",
                          dict(base, repro=repro(p, 'repro_sampler')))
    ctx.obligation(f'oracle:sample-shape:{tag}', sok, 'correspondence', str(sm))
    fams = [VD.tname(f['e'].name) for row in rec['flow'] for f in row]
    for a in fams:
        stats['families'][a] = stats['families'].get(a, 0) + 1
    ctx.case((vt, d, t, kind, digest(struct)),
             {'vine_type': vt, 'd': d, 'truncated': t, 'table': kind, 'rows': p['n'], 'table_seed': p['tseed'], 'source': p['src'], 'structure': struct,
              'model_bad_edges(tree,idx)': bad_model_edges, 'likelihood': {'traced': lk['value'], 'nan_fill': rep['nan'], 'fill_0.123': rep['0.123'], 'vine_density': rep['spec']},
              'unwritten_cells_read': [(r[0] + 1, r[1], r[2]) for r in real_reads if r[3] is None] if lk['exc'] is None else None,
              'families': fams[:8]}, nontrivial=d >= 3)


def _edge_ok(f, struct, ti):
    e = f['e']
    L, R, S = int(e.L), int(e.R), frozenset(int(x) for x in e.D)
    if f['sel'] is None or f['U'] is None:
        return False
    gi = (prov_labels(f['sel']['x'], struct), prov_labels(f['sel']['y'], struct))
    gu = (prov_labels(f['U'][0], struct), prov_labels(f['U'][1], struct))
    return (gi == ((L, S), (R, S)) or (ti == 0 and gi == ((R, S), (L, S)))) and gu == ((L, S | {R}), (R, S | {L}))


def _args_ok(a, struct, ti, ei):
    try:
        (idx, (L, R), D, par) = struct[ti][ei]
        x, y = VD.dec_col(a[0]), VD.dec_col(a[1])
        return prov_labels(x, struct) == (L, frozenset(D)) and prov_labels(y, struct) == (R, frozenset(D))
    except Exception:      # noqa
        return False


# ------------------------------------------------------------------------------------------------ refutation witnesses
def witnesses(ctx, recs, outs_w, stats):
    """the fitted structure of the witness tables must BE the Coq witness; then the refuted statements are read off the real run"""
    for w, out in zip(WITNESSES, outs_w):
        rec = next((r for r in recs if r['p'].get('witness') is w), None)
        mv = VS.parse_vine(out)
        if rec is None or rec.get('exc') is not None or isinstance(mv, str) or mv is None:
            ctx.log(f"witness {w['name']}: not evaluated ({out!r:.80})")
            stats['witnesses'][w['name']] = 'not evaluated'
            continue
        same = rec['struct'] == mv
        stats['witnesses'][w['name']] = 'structure reproduced on the real library' if same else f"real structure {rec['struct']} != witness {mv}"
        if not same:
            ctx.log(f"witness {w['name']}: the table no longer reproduces the witness structure (not a violation by itself)")
            continue
        f = rec['flow'][2][0]
        got = (VD.prov(f['sel']['x']), VD.prov(f['sel']['y']), VD.prov(f['U'][0]), VD.prov(f['U'][1]))
        if w['name'] == 'provenance_refuted':
            exp = ((3, frozenset({0, 2})), (2, frozenset({0, 1})), None, None)
        else:
            exp = ((3, frozenset({0, 1})), (2, frozenset({0, 1})), (3, frozenset({0, 1, 2})), (2, frozenset({0, 1, 3})))
        ok = got == exp
        ctx.obligation(f"witness:{w['name']}:replayed-on-real-classes", ok, 'correspondence',
                       f"tree 3 edge: select_copula inputs / U read as {[VD.show_prov(g) for g in got]}, theorem says {[VD.show_prov(g) for g in exp]}")
        if w['name'] == 'provenance_refuted':
            # C17_first_inputs_order_refuted / C17_likelihood_def_before_use_refuted on the same vine
            f0 = rec['flow'][0][0]
            ok1 = (f0['sel']['x'], f0['sel']['y']) == (('M', 3), ('M', 2)) and (int(f0['e'].L), int(f0['e'].R)) == (2, 3)
            ctx.obligation('witness:first_inputs_order_refuted:replayed-on-real-classes', ok1, 'correspondence', f"level-1 edge (2,3): select_copula got ({VD.show_term(f0['sel']['x'])}, {VD.show_term(f0['sel']['y'])})")
            r3 = [(r[0], r[2], r[3], r[4]) for r in rec['lik']['reads'] if r[0] == 2]
            ok2 = r3 == [(2, 1, 0, None), (2, 3, 2, None)]
            ctx.obligation('witness:likelihood_def_before_use_refuted:replayed-on-real-classes', ok2, 'correspondence', f'tree-3 reads {r3}')


# ------------------------------------------------------------------------------------------------ clips, truncated = 0, two columns
def clip_checks(ctx, quick):
    """unit level: the real prepare_next_tree / _sample_row with scripted h / percent_point values vs the GENERATED clips evaluated in Coq"""
    from copulas.bivariate.base import Bivariate
    eps = VD.library_epsilon()
    X = VS.make_table(11, 3, 40, 'gauss')
    v, _ = VD.plain_fit('center', X, 2)
    tree = v.trees[0]
    vals = [0.0, 1.0, 0.5, eps, 1 - eps, 5e-324, 1 - 2.0 ** -53, 2.0 ** -24, 0.25, 0.75, 1e-300, 0.999999, 1.0, 0.0]
    n = v.n_sample
    script = np.array([vals[i % len(vals)] for i in range(n)])
    saved = {}
    for c in [Bivariate] + list(Bivariate.subclasses()):
        if 'partial_derivative' in c.__dict__:
            saved[c] = c.__dict__['partial_derivative']
            c.partial_derivative = lambda self, X, _s=script: np.array(_s, copy=True)
    oldU = [np.array(e.U, copy=True) for e in tree.edges]
    try:
        tree.prepare_next_tree()
        got = [np.array(e.U, dtype=float, copy=True) for e in tree.edges]
    finally:
        for c, o in saved.items():
            c.partial_derivative = o
        for e, U in zip(tree.edges, oldU):
            e.U = U
    exprs, meta = [], []
    for s in (0, 1):
        for i, x in enumerate(vals):
            y = float(got[0][s][i])
            exprs.append(f'Qeq_bool (vc_clip_U{s}_q {VD.qfrac(x)}) {VD.qfrac(y)}')
            meta.append(('h', s, x, y))
    # sampler clip: scripted percent_point values, d = 2 (one inverse) and d = 3 (chains: the clip is applied after every level)
    sv = [0.0, 1e-9, eps, eps / 2, 0.5, 0.99, 0.995, 1.0, 0.98999, 2.0 ** -23 + 2.0 ** -40]
    X2 = VS.make_table(12, 2, 40, 'strong')
    v2, _ = VD.plain_fit('direct', X2, 1)
    for k, x in enumerate(sv):
        r = VD.sample_trace_real(v2, k % 2, script=[x])
        if r['err'] is not None or len(r['pp']) != 1 or len(r['ppf_args']) != 2:
            ctx.obligation(f'corr:clip:sampler:d2:{k}', False, 'correspondence', f"unexpected sampler behaviour: {r['err']!r} {r['pp']}")
            continue
        y = r['ppf_args'][1][1]
        exprs.append(f'qnear (vc_sample_clip_q {VD.qfrac(x)}) {VD.qfrac(y)}')
        meta.append(('s', 2, x, y))
    for f in range(3):
        r = VD.sample_trace_real(v, f, script=sv[f:] + sv[:f])
        if r['err'] is not None:
            ctx.obligation(f'corr:clip:sampler:d3:{f}', False, 'correspondence', f"unexpected sampler behaviour: {r['err']!r}")
            continue
        # every percent_point result is clipped before its next use (as y of the next call of the same variable, or as the ppfs argument)
        uses = [c['y_val'] for c in r['pp']] + [a[1] for a in r['ppf_args']]
        for c in r['pp']:
            exprs.append(f"existsb (fun y => qnear (vc_sample_clip_q {VD.qfrac(c['ret'])}) y) [{'; '.join(VD.qfrac(u) for u in uses)}]")
            meta.append(('s', 3, c['ret'], uses))
    outs = cases.run_vm_cases(ctx, 'Cases_C17_clip', VM_IMPORTS, exprs, per_file=200, scope_open='Open Scope Q_scope.\n' + QNEAR)
    # witness search for a broken bridge: the constants of the MODEL (clip_h at 2^-23; clip_s = min(max(., 2^-23), 0.99)) on the same scripted values
    def spec_h(x):
        x1 = 2.0 ** -23 if x == 0 else x
        return 1 - 2.0 ** -23 if x1 == 1 else x1

    def spec_s(x):
        return min(max(x, 2.0 ** -23), 0.99)
    for (kind, a, x, y) in meta:
        if kind == 'h' and y != spec_h(x):
            ctx.violation('clip:h-correction-differs-from-model', f"Tree.prepare_next_tree stores {y!r} in edge.U[{a}] for a partial_derivative value {x!r}; the proved correction "
                          f"(Model.VineData.clip_h at EPSILON = 2^-23, theorem C17_clipping) gives {spec_h(x)!r}", {'h': x, 'stored': y, 'row': a, 'repro': REPRO_HCLIP})
        if kind == 's' and a == 2 and y != spec_s(x):
            ctx.violation('clip:sampler-differs-from-model', f"VineCopula._sample_row passes a percent_point result {x!r} on as {y!r}; the model's clip "
                          f"(Spec.VineSampleR.clip_s = min(max(., 2^-23), 0.99), theorem C17_two_columns) gives {spec_s(x)!r}", {'percent_point': x, 'next_use': y, 'repro': REPRO_SCLIP})
    for (kind, a, x, y), o in zip(meta, outs):
        ok = o == 'true'
        if kind == 'h':
            ctx.obligation(f'corr:clip:h:U{a}:{x!r}', ok, 'correspondence', f'prepare_next_tree stored {y!r} for h = {x!r}; generated vc_clip_U{a}_q says {o}')
            if not ok:
                ctx.violation('clip:h-correction', f"Tree.prepare_next_tree stores {y!r} in edge.U[{a}] for a partial_derivative value {x!r}; the correction generated from the "
                              f"source (and bridged to clip_h at EPSILON = 2^-23) gives another value", {'h': x, 'stored': y, 'row': a, 'repro': REPRO_HCLIP})
            ctx.case(('clip-h', a, x), {'clip': 'prepare_next_tree', 'row': a, 'h': x, 'stored': y}, nontrivial=True)
        else:
            ctx.obligation(f'corr:clip:sampler:d{a}:{x!r}', ok, 'correspondence', f'percent_point returned {x!r}; next use {y!r}; generated vc_sample_clip_q says {o}')
            if not ok:
                ctx.violation('clip:sampler', f"VineCopula._sample_row: a percent_point result {x!r} is passed on as {y!r}; the clip generated from the source "
                              f"(bridged to clip_s = min(max(., 2^-23), 99/100)) gives another value", {'percent_point': x, 'next_use': y, 'repro': REPRO_SCLIP})
            ctx.case(('clip-s', a, x), {'clip': '_sample_row', 'd': a, 'percent_point': x, 'next_use': y}, nontrivial=True)
    # the real U of a fit is strictly inside (0,1) even when h returns exactly 0 / 1: covered by the scripted run above
    inside = all(np.all((g > 0) & (g < 1)) for g in got)
    ctx.obligation('oracle:scripted-h-stored-inside-unit-interval', inside, 'correspondence', '')
    if not inside:
        ctx.violation('U-not-strictly-inside-unit-interval:scripted', 'Tree.prepare_next_tree stores values outside (0,1) when partial_derivative returns exactly 0 or 1 '
                      f'(h values {vals}): {got[0].tolist()[0][:14]}', {'repro': REPRO_HCLIP})


# decimal literals of the source (0.99) are read as exact rationals in the model: compare within 1e-15
QNEAR = 'From Coq Require Import Qabs.\nDefinition qnear (a b : Q) : bool := Qle_bool (Qabs (a - b)) (1 # 1000000000000000).\n'

REPRO_HCLIP = '''import numpy as np, warnings
warnings.filterwarnings('ignore')
from vf import vinedata as VD, vinestruct as VS
from copulas.bivariate.base import Bivariate
from copulas.utils import EPSILON
v, _ = VD.plain_fit('center', VS.make_table(11, 3, 40, 'gauss'), 2)
vals = np.array([0.0, 1.0, 0.5, 0.25] * 10)
for c in [Bivariate] + list(Bivariate.subclasses()):
    if 'partial_derivative' in c.__dict__:
        c.partial_derivative = lambda self, X: vals.copy()
v.trees[0].prepare_next_tree()
U = np.array(v.trees[0].edges[0].U)
exp = np.array([2.0 ** -23, 1 - 2.0 ** -23, 0.5, 0.25] * 10)
print(U[:, :4])
assert np.array_equal(U[0], exp) and np.array_equal(U[1], exp) and np.all((U > 0) & (U < 1))
'''

REPRO_SCLIP = '''import numpy as np, warnings
warnings.filterwarnings('ignore')
from vf import vinedata as VD, vinestruct as VS
v, _ = VD.plain_fit('direct', VS.make_table(12, 2, 40, 'strong'), 1)
for x, want in ((0.0, 2.0 ** -23), (0.5, 0.5), (0.995, 0.99), (1.0, 0.99)):
    r = VD.sample_trace_real(v, 0, script=[x])
    print(x, r['ppf_args'])
    assert r['ppf_args'][1][1] == want
'''

REPRO_T0 = '''import numpy as np, pandas as pd, warnings
warnings.filterwarnings('ignore')
from copulas.multivariate import VineCopula
rng = np.random.default_rng(5)
X = pd.DataFrame(rng.multivariate_normal([0, 0], [[1, .7], [.7, 1]], 100), columns=['a', 'b'])
v = VineCopula('{vt}', random_state=1)
v.fit(X, truncated=0)          # accepted: one tree is built, get_likelihood works
print(v.get_likelihood(np.array([[0.3, 0.6]])))
s = v.sample(3)                # property: 3 rows, columns a, b, no missing values
assert s.shape == (3, 2) and not s.isna().any().any()
'''


def truncated_zero(ctx):
    """fit(X, truncated=0) is accepted (one tree; C16: max(1, min(d-1, t)) trees); the sampler then skips every level"""
    exprs, runs = [], []
    for vt in VTS:
        for d in (2, 3):
            X = VS.make_table(77 + d, d, 60, 'gauss')
            try:
                v, _ = VD.plain_fit(vt, X, 0, random_state=1)
            except Exception as ex:      # noqa
                ctx.violation(f'fit-raises:{vt}:{type(ex).__name__}', f'VineCopula({vt!r}).fit(table with {d} columns, truncated=0) raised {type(ex).__name__}: {ex}',
                              {'repro': REPRO_T0.format(vt=vt)})
                continue
            struct = VS.edges_of(v.trees)
            tr = [VD.sample_trace_real(v, f) for f in range(d)]
            try:
                with warnings.catch_warnings():
                    warnings.simplefilter('ignore')
                    s = v.sample(2)
                res = None if (s.shape == (2, d) and not s.isna().any().any()) else f'bad output {s.shape}'
            except Exception as ex:      # noqa
                res = ex
            runs.append((vt, d, struct, tr, res))
            exprs.append(f'map (fun f => show_trace (sample_trace {VS.coq_edges(struct)} 0 f)) (seq 0 {d})')
    outs = cases.run_vm_cases(ctx, 'Cases_C17_t0', VM_IMPORTS, exprs, per_file=50, scope_open=VD.VM_SCOPE)
    for (vt, d, struct, tr, res), o in zip(runs, outs):
        m = VD.parse(o)
        model_raises = isinstance(m, list) and all(x is None for x in m)
        real_raises = all(t['err'] is not None for t in tr)
        ok = (model_raises == real_raises) and not isinstance(m, str)
        ctx.obligation(f'corr:sampler:truncated0:{vt}:d{d}', ok, 'correspondence', f"model {m}; real errors {[repr(t['err']) for t in tr]}")
        ctx.case(('truncated0', vt, d), {'vine_type': vt, 'd': d, 'truncated': 0, 'sample': repr(res), 'model_sample_trace': str(m)}, nontrivial=True)
        if not ok:
            ctx.violation(f'corr:sampler-trace:{vt}', f'VineCopula({vt!r}) fitted with truncated=0 on {d} columns: _sample_row {[repr(t["err"]) for t in tr]}, model {m}',
                          {'structure': struct, 'repro': REPRO_T0.format(vt=vt)})
        if res is not None:
            name = type(res).__name__ if isinstance(res, Exception) else 'bad-output'
            ctx.violation(f'sample-raises:truncated0:{name}', f"VineCopula({vt!r}).fit(X, truncated=0) is accepted (one tree, get_likelihood works) but sample(n) "
                          f"{'raises ' + name + ': ' + str(res) if isinstance(res, Exception) else res}: every level is skipped by `if i >= self.truncated: continue`, the local `tmp` is never bound",
                          {'vine_type': vt, 'd': d, 'structure': struct, 'repro': REPRO_T0.format(vt=vt)})


def copula_tau(name, theta):
    """Kendall tau of an Archimedean family member (closed forms; Frank through the Debye function)"""
    name = VD.tname(name)
    th = float(theta)
    if name == 'clayton':
        return th / (th + 2)
    if name == 'gumbel':
        return 1 - 1 / th
    if name == 'frank':
        if abs(th) < 1e-9:
            return 0.0
        from scipy.integrate import quad
        d1 = quad(lambda x: x / math.expm1(x) if x != 0 else 1.0, 0, th)[0] / th
        return 1 - 4 / th * (1 - d1)
    if name == 'independence':
        return 0.0
    return float('nan')


REPRO_2COL = '''import numpy as np, warnings, scipy.stats
warnings.filterwarnings('ignore')
from vf import vinedata as VD, vinestruct as VS
from vf.props.C17 import copula_tau
X = VS.make_table({tseed}, 2, {n}, {kind!r})
v, _ = VD.plain_fit({vt!r}, X, 1, random_state={seed})
S = v.sample({N})
e = v.trees[0].edges[0]
for j, c in enumerate(X.columns):
    x = np.sort(S[c].to_numpy()); F = v.unis[j].cumulative_distribution(x); k = np.arange(1, len(x) + 1) / len(x)
    D = max(np.max(np.abs(F - k)), np.max(np.abs(F - k + 1 / len(x))))
    print(c, 'KS distance to the fitted marginal', D)
    assert D <= {ks_band}
tau = scipy.stats.kendalltau(S.iloc[:, 0], S.iloc[:, 1])[0]
print('sample tau', tau, 'copula tau', copula_tau(e.name, e.theta))
assert abs(tau - copula_tau(e.name, e.theta)) <= {tau_band}
'''


def two_columns(ctx, quick):
    """search only (statistical, false-alarm level <= 1e-9 per run): KS band from the DKW inequality + 0.01 for the documented collapse of the
    top 1 % to ppf(0.99); Kendall tau band from Hoeffding's inequality for U-statistics + 0.04 for the collapse"""
    import scipy.stats
    N = 1000 if quick else 3000
    ntests = 9 * 3
    alpha = 1e-9 / ntests
    ks_band = math.sqrt(math.log(2 / alpha) / (2 * N)) + 0.01 + 1e-3
    tau_band = math.sqrt(2 * math.log(2 / alpha) / (N // 2)) + 0.04
    ctx.extra['two_columns_bands'] = {'N': N, 'ks_band': ks_band, 'tau_band': tau_band, 'alpha_per_test': alpha}
    k = 0
    for vt in VTS:
        for kind in (('strong', 'gauss') if quick else ('strong', 'gauss', 'mixed')):
            k += 1
            tseed, n, seed = 500 + 31 * k + int(ctx.seed), 100, 40 + k + int(ctx.seed)
            X = VS.make_table(tseed, 2, n, kind)
            try:
                v, _ = VD.plain_fit(vt, X, 1, random_state=seed)
                with warnings.catch_warnings():
                    warnings.simplefilter('ignore')
                    S = v.sample(N)
            except Exception as ex:      # noqa
                ctx.violation(f'sample-raises:{vt}:{type(ex).__name__}', f'two-column table ({kind}, seed {tseed}): fit/sample raised {type(ex).__name__}: {ex}',
                              {'repro': REPRO_2COL.format(tseed=tseed, n=n, kind=kind, vt=vt, seed=seed, N=N, ks_band=ks_band, tau_band=tau_band)})
                continue
            e = v.trees[0].edges[0]
            rp = {'vine_type': vt, 'table': kind, 'table_seed': tseed, 'N': N,
                  'repro': REPRO_2COL.format(tseed=tseed, n=n, kind=kind, vt=vt, seed=seed, N=N, ks_band=ks_band, tau_band=tau_band)}
            shape_ok = S.shape == (N, 2) and list(S.columns) == list(X.columns) and bool(np.isfinite(S.to_numpy(dtype=float)).all())
            if not shape_ok:
                ctx.violation(f'sample-bad-output:{vt}', f'two-column table: sample({N}) has shape {S.shape}, columns {list(S.columns)}', rp)
                continue
            Ds = []
            for j, c in enumerate(X.columns):
                x = np.sort(S[c].to_numpy(dtype=float))
                F = np.asarray(v.unis[j].cumulative_distribution(x), dtype=float)
                kk = np.arange(1, N + 1) / N
                D = float(max(np.max(np.abs(F - kk)), np.max(np.abs(F - kk + 1.0 / N))))
                Ds.append(D)
                if D > ks_band:
                    ctx.violation(f'two-columns:marginal:{vt}', f"VineCopula({vt!r}) on a two-column {kind} table (seed {tseed}): column {c!r} of sample({N}) is at Kolmogorov "
                                  f"distance {D:.3f} > {ks_band:.3f} from the fitted marginal", rp)
            tau = float(scipy.stats.kendalltau(S.iloc[:, 0], S.iloc[:, 1])[0])
            ct = copula_tau(e.name, e.theta)
            if not abs(tau - ct) <= tau_band:
                ctx.violation(f'two-columns:tau:{vt}', f"VineCopula({vt!r}) on a two-column {kind} table (seed {tseed}): Kendall tau of sample({N}) is {tau:.3f}, the selected "
                              f"{VD.tname(e.name)} copula (theta = {float(e.theta):.4g}) has tau {ct:.3f} (band {tau_band:.3f})", rp)
            top = [float(np.mean(np.isclose(S[c].to_numpy(dtype=float), float(np.ravel(v.ppfs[j](np.array([0.99])))[0])))) for j, c in enumerate(X.columns)]
            ctx.case(('two-columns', vt, kind), {'vine_type': vt, 'table': kind, 'table_seed': tseed, 'N': N, 'ks': Ds, 'sample_tau': tau, 'copula': VD.tname(e.name),
                                                 'theta': float(e.theta), 'copula_tau': ct, 'share_of_rows_at_ppf(0.99)': top}, nontrivial=True)


# ------------------------------------------------------------------------------------------------ run
def _run(ctx):
    quick = ctx.tier == 'quick'
    status, info = VD.generate_clips(ctx)
    for k, err in status.items():
        ctx.obligation(f'translate:{k}', err is None, 'translation', err or '')
    ctx.extra['generated_from'] = info
    # Edge.get_conditional_uni (and _identify_eds_ing, which it calls) generated from the AST; [C17_bridge_get_conditional_uni]
    kstatus = vinegen.generate(ctx)
    vinegen.record(ctx, kstatus, ['gen_identify_eds_ing', 'gen_get_conditional_uni'])
    ctx.copy_src('Props/C17.v')
    compiled = ctx.compile(['Gen_vineclip.v', 'Gen_vinekernel.v', 'C17.v'])
    compiled = vinedatagen.hook(ctx, kstatus) and compiled      # data plane generated from the AST: Gen_vinedata.v, Props/C17_data.v
    from .. import vinesamplegen
    compiled = vinesamplegen.hook(ctx) and compiled             # outer loop of _sample_row, sample: Gen_vinesample.v, Props/C17_sample.v
    ctx.rule('fits: VineCopula(type).fit(vinestruct.make_table(seed, d, n, kind), truncated=t) for type in center/direct/regular, d = 2..6, t in {1,2,3,d-1}, '
             'n = 60..100 rows, table kinds Gaussian / strongly dependent / heavy-tailed / non-linear / independent / rounded (ties), plus three fixed tables whose '
             'fitted structure is the witness of a refutation theorem; arrays tagged by content; np.empty of copulas.multivariate.tree / vine replaced by logging '
             'arrays with distinct content per cell; structure + level-1 pairs -> Model.VineData.vine_data_of / tau_matrix_cols / vine_lik / sample_trace by vm_compute')
    ctx.rule('per fit: get_likelihood on one row u (0.11 + 0.13 i, shifted with the seed), every item read of every uni_matrix logged; every first_ind of _sample_row with '
             'np.random.uniform / randint, percent_point, ppfs replaced by recorders (thetas carry edge identities); sample(3)')
    ctx.rule('unit level: prepare_next_tree with scripted h values {0, 1, 0.5, EPSILON, 1-EPSILON, 5e-324, 1-2^-53, ...} and _sample_row with scripted percent_point '
             'values {0, 1e-9, EPSILON, 0.5, 0.99, 0.995, 1, ...} vs the generated clips evaluated in Coq; fit(X, truncated=0) for d = 2, 3')
    ctx.rule('two-column tables (3 types x 2..3 kinds): sample(N) vs fitted KDE marginals (DKW band) and the selected copula\'s Kendall tau (Hoeffding band), search only')
    stats = {'edges': 0, 'edges_ok': 0, 'edges_swapped': 0, 'edges_wrong': 0, 'level1_inputs_in_path_order': 0, 'F10': {}, 'lik_runs': 0, 'lik_garbage': {},
             'families': {}, 'witnesses': {}}
    plan = make_plan(ctx, quick)
    recs, exprs = [], []
    for p in plan:
        rec = trace_plan(p, int(ctx.seed))
        recs.append(rec)
        if rec.get('exc') is not None:
            ex = rec['exc']
            ctx.obligation(f"fit:{p['vt']}:d{p['d']}:t{p['t']}:{p['kind']}", False, 'correspondence', repr(ex))
            ctx.violation(f"fit-raises:{p['vt']}:{type(ex).__name__}", f"VineCopula({p['vt']!r}).fit on a {p['kind']} table with {p['d']} columns, truncated={p['t']} raised "
                          f"{type(ex).__name__}: {ex}", {'plan': {k: p[k] for k in ('vt', 'd', 't', 'kind', 'n', 'tseed')}, 'repro': repro(p, 'repro_columns')})
            continue
        rec['i'] = len(exprs)
        exprs.append(coq_expr(rec))
    iw = len(exprs)
    exprs += [f"show_vine ({w['coq']})" for w in WITNESSES]
    outs = cases.run_vm_cases(ctx, 'Cases_C17_flow', VM_IMPORTS, exprs, per_file=8 if quick else 20, scope_open=VD.VM_SCOPE)
    # judged in an order that puts the witnesses and the large vines of every type first (the evidence keeps the first 12 samples)
    order = sorted((r for r in recs if 'i' in r), key=lambda r: (r['p']['src'] != 'witness', -r['p']['d'], -r['p']['t'], VTS.index(r['p']['vt'])))
    for rec in order:
        judge(ctx, rec, model_of(outs[rec['i']]), stats)
    witnesses(ctx, recs, outs[iw:], stats)
    clip_checks(ctx, quick)
    truncated_zero(ctx)
    two_columns(ctx, quick)
    ctx.extra['data_flow'] = {k: stats[k] for k in ('edges', 'edges_ok', 'edges_swapped', 'edges_wrong', 'level1_inputs_in_path_order')}
    ctx.extra['F10_edges_by_type_and_tree'] = stats['F10']
    ctx.extra['likelihood'] = {'runs': stats['lik_runs'], 'runs_reading_unwritten_cells': stats['lik_garbage']}
    ctx.extra['families_selected'] = stats['families']
    ctx.extra['refutation_witnesses'] = stats['witnesses']
    ctx.extra['out_of_scope_observations'] = [
        'get_likelihood with a multi-row uni_matrix: tree 1 takes the log of the SUM of the row densities and the deeper trees only see row 0 of the h values '
        '(np.ravel(...)[0]); the property quantifies over one point u in (0,1)^d, the model is for one row',
        'for d >= 3 the row sampler conditions every inverse h-function on the raw uniform of the variable visited last (unis[visited[0]]) and examines only the first '
        'edge containing the current variable in trees >= 2 (Spec.VineSampleR.sample_three_columns): the property claims the sampling law only for two columns',
        'at level 1 D- and R-vines hand the two marginal columns to select_copula in path / Prim order, not (L, R) order (C17_first_inputs_order_refuted): harmless for '
        'exchangeable families, level 1 recomputes its h-functions from (L, R)']
    ctx.trusted += ['Model.VineData is a hand-written transcription of the data plane of copulas/multivariate/tree.py and vine.py; tied by the tagged-array correspondence on every run',
                    'arrays are identified by content (columns of pseudo-observations are pairwise distinct); thetas carry edge identities in the sampler trace',
                    'select_copula, the pair-copula kernels (C06-C08), GaussianKDE and scipy.stats.kendalltau are oracles: which arrays they receive is checked, not what they compute',
                    'numeric literals of the clips are read as the decimal rationals written in the source (0.99 = 99/100); IEEE rounding of the literal is not modelled',
                    'the harness instruments copulas.multivariate.tree / vine and copulas.bivariate by monkeypatching (np -> proxy with logging np.empty, select_copula, '
                    'partial_derivative, probability_density, percent_point, prepare_next_tree, get_tau_matrix, get_likelihood, np.random.uniform / randint), restored afterwards']
    ctx.assumptions += ['one-row uni_matrix in get_likelihood; u in (0,1)^d', 'truncated >= 1 for the sampler theorems (truncated = 0: finding)',
                        'h in [0,1] for the strict-interior theorem (a finite-difference h slightly outside [0,1] is stored as it is: Spec.VineClip.clip_negative)',
                        'statistical clauses (marginals / Kendall tau reproduced within sampling error) are residue: proved core = C17_two_columns + C09; the KS / tau bands are search only',
                        'F(i | S) provenance is exact for hereditarily good edges (all of levels 1-2, every C-vine); D-/R-vine edges from level 3 on may be bad: F10']
    return compiled


def run(ctx):
    """the check proper, then the re-fit history oracle on the real class (always, also after a broken translation)"""
    from .. import extra_oracles
    try:
        _run(ctx)
    finally:
        try:
            extra_oracles.vine_history(ctx, ('likelihood', 'sample'))
            from .. import extra_oracles2
            extra_oracles2.vine_likelihood_border(ctx)
            extra_oracles2.vine_api(ctx, ('short-table',))
            extra_oracles2.vine_copy_likelihood(ctx)
            from .. import extra_oracles3
            extra_oracles3.vine_round6(ctx, 'C17')
        except Exception as ex:       # the oracle itself must never hide the result of the check proper
            ctx.obligation('oracle:extra:raised', False, 'correspondence', repr(ex))
            ctx.violation('oracle:extra:raised:' + type(ex).__name__, 'history oracle raised ' + repr(ex), {'repro': '# see tools/vf/extra_oracles.py'})
