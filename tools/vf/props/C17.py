"""C17 — vine pair-copula data flow, likelihood and sampling are coherent (first version: end-to-end smoke of likelihood/sample)."""
import numpy as np
from .C16 import table


def run(ctx):
    from copulas.multivariate import VineCopula
    rng = np.random.default_rng(ctx.seed + 17)
    for vt in ('center', 'direct', 'regular'):
        for d in (2, 3, 4):
            X = table(rng, d)
            rep = (f"import numpy as np, pandas as pd\nfrom copulas.multivariate import VineCopula\nrng=np.random.default_rng(1)\n"
                   f"X=pd.DataFrame(rng.normal(size=(80,{d})), columns=list('abcdefg')[:{d}])\nv=VineCopula('{vt}', random_state=3); v.fit(X)\n"
                   f"print(v.get_likelihood(np.full((1,{d}),0.4)))\ns=v.sample(5)\nprint(s)\nassert s.shape==(5,{d}) and not s.isna().any().any()\n")
            try:
                v = VineCopula(vt, random_state=3)
                v.fit(X)
            except Exception as ex:
                ctx.obligation(f'fit:{vt}:{d}', False, 'correspondence', repr(ex))
                ctx.violation(f'fit-raises:{vt}:{type(ex).__name__}', f'VineCopula({vt!r}).fit raised {type(ex).__name__}: {ex}', {'repro': rep})
                continue
            for what, fn in (('get_likelihood', lambda: v.get_likelihood(np.full((1, d), 0.4))), ('sample', lambda: v.sample(5))):
                try:
                    r = fn()
                    ok = np.isfinite(r) if what == 'get_likelihood' else (r.shape == (5, d) and list(r.columns) == list(X.columns) and not r.isna().any().any())
                    ctx.obligation(f'{what}:{vt}:{d}', bool(ok), 'correspondence', str(r)[:200])
                    if not ok:
                        ctx.violation(f'{what}-bad-result:{vt}', f'VineCopula({vt!r}).{what} on {d} columns returned {str(r)[:120]}', {'repro': rep})
                except Exception as ex:
                    ctx.obligation(f'{what}:{vt}:{d}', False, 'correspondence', repr(ex))
                    ctx.violation(f'{what}-raises:{type(ex).__name__}', f'VineCopula({vt!r}).{what} on {d} columns raised {type(ex).__name__}: {ex}', {'vine_type': vt, 'd': d, 'repro': rep})
            ctx.case((vt, d), {'vine_type': vt, 'columns': d})
