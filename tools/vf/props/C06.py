"""C06 — Clayton, Frank and Gumbel CDFs are genuine Archimedean copulas."""
import numpy as np
from .. import biv, cases, implbiv
from ..core import frac

FAMS = ['clayton', 'frank', 'gumbel']
NEEDED = ['{f}_generator', '{f}_cumulative_distribution', '{f}_theta_domain']
IMPORTS = 'From CopRun Require Import Gen_biv.'


def repro_cdf(fam, th, pts):
    return (f"import numpy as np\nfrom copulas.bivariate import Bivariate\nc=Bivariate(copula_type='{fam}'); c.theta={th!r}\n"
            f"print(c.cumulative_distribution(np.array({[list(p) for p in pts]!r})))\n")


def search(ctx, n_theta=12, n_pts=400):
    """Witness search: the property's own statement as executable oracles on the implementation."""
    rng = np.random.default_rng(ctx.seed + 606)
    found = 0
    for fam in FAMS:
        for it in range(n_theta):
            th = implbiv.sample_theta(rng, fam, edge=(it < 2))
            try:
                c = implbiv.make(fam, th)
                g = np.concatenate([rng.uniform(1e-4, 1 - 1e-4, n_pts), 10.0 ** rng.uniform(-12, -4, 20),
                                    1 - 10.0 ** rng.uniform(-12, -4, 20)])
                u, v = rng.permutation(g), rng.permutation(g)
                X = np.column_stack([u, v])
                C = np.asarray(c.cumulative_distribution(X), dtype=float)
                Cs = np.asarray(c.cumulative_distribution(X[:, ::-1].copy()), dtype=float)
                tol = 1e-9

                def bad(mask, what, extra=None):
                    nonlocal found
                    idx = np.where(mask)[0]
                    if len(idx):
                        i = int(idx[0])
                        found += 1
                        ctx.violation(f'search:{what}:{fam}', f'{fam} theta={th}: {what} fails at (u,v)=({u[i]!r},{v[i]!r})',
                                      {'family': fam, 'theta': th, 'u': float(u[i]), 'v': float(v[i]), 'C': float(C[i]),
                                       'oracle': what, 'extra': extra,
                                       'repro': repro_cdf(fam, th, [(u[i], v[i]), (v[i], u[i])])}, found=True)
                bad(~np.isfinite(C), 'finite')
                bad(np.abs(C - Cs) > tol, 'symmetry')
                bad(C > np.minimum(u, v) + tol, 'frechet-upper')
                bad(C < np.maximum(u + v - 1, 0) - tol, 'frechet-lower')
                # boundary
                e = np.concatenate([rng.uniform(0, 1, 50), [1.0, 1e-300, 1.0 - 1e-16]] + ([[0.0]] if fam != 'gumbel' else []))
                one = np.ones_like(e)
                zero = np.zeros_like(e)
                b1 = np.asarray(c.cumulative_distribution(np.column_stack([e, one])), dtype=float)
                b2 = np.asarray(c.cumulative_distribution(np.column_stack([one, e])), dtype=float)
                if np.any(np.abs(b1 - e) > tol) or np.any(np.abs(b2 - e) > tol):
                    i = int(np.argmax(np.abs(b1 - e) + np.abs(b2 - e)))
                    found += 1
                    ctx.violation(f'search:boundary-one:{fam}', f'{fam} theta={th}: C(u,1)=u or C(1,u)=u fails at u={e[i]!r}',
                                  {'family': fam, 'theta': th, 'u': float(e[i]), 'C_u_1': float(b1[i]), 'C_1_u': float(b2[i]),
                                   'repro': repro_cdf(fam, th, [(e[i], 1.0), (1.0, e[i])])})
                e = np.concatenate([e, [0.0]])      # corner (0,0) included for every family
                zero = np.zeros_like(e)
                with np.errstate(all='ignore'):
                    z1 = np.asarray(c.cumulative_distribution(np.column_stack([e, zero])), dtype=float)
                    z2 = np.asarray(c.cumulative_distribution(np.column_stack([zero, e])), dtype=float)
                if np.any(np.abs(z1) > tol) or np.any(np.abs(z2) > tol) or not np.all(np.isfinite(z1 + z2)):
                    i = int(np.argmax(np.nan_to_num(np.abs(z1) + np.abs(z2), nan=9.0)))
                    found += 1
                    ctx.violation(f'search:boundary-zero:{fam}', f'{fam} theta={th}: C(u,0)=0 or C(0,u)=0 fails at u={e[i]!r}',
                                  {'family': fam, 'theta': th, 'u': float(e[i]), 'C_u_0': float(z1[i]), 'C_0_u': float(z2[i]),
                                   'repro': repro_cdf(fam, th, [(e[i], 0.0), (0.0, e[i])])})
                # rectangles
                a = np.sort(rng.uniform(0, 1, (200, 2)), axis=1)
                b = np.sort(rng.uniform(0, 1, (200, 2)), axis=1)
                if fam == 'gumbel':
                    a = np.clip(a, 1e-9, 1.0)
                    b = np.clip(b, 1e-9, 1.0)

                def Cf(x, y):
                    return np.asarray(c.cumulative_distribution(np.column_stack([x, y])), dtype=float)
                vol = Cf(a[:, 1], b[:, 1]) - Cf(a[:, 1], b[:, 0]) - Cf(a[:, 0], b[:, 1]) + Cf(a[:, 0], b[:, 0])
                if np.any(vol < -1e-9):
                    i = int(np.argmin(vol))
                    found += 1
                    ctx.violation(f'search:two-increasing:{fam}',
                                  f'{fam} theta={th}: negative C-volume {vol[i]!r} on [{a[i,0]!r},{a[i,1]!r}]x[{b[i,0]!r},{b[i,1]!r}]',
                                  {'family': fam, 'theta': th, 'rect': [float(a[i, 0]), float(a[i, 1]), float(b[i, 0]), float(b[i, 1])],
                                   'volume': float(vol[i]),
                                   'repro': repro_cdf(fam, th, [(a[i, 1], b[i, 1]), (a[i, 1], b[i, 0]), (a[i, 0], b[i, 1]), (a[i, 0], b[i, 0])])})
                # generator identity
                inner = (u > 1e-4) & (u < 1 - 1e-4) & (v > 1e-4) & (v < 1 - 1e-4)
                with np.errstate(all='ignore'):
                    gi = np.asarray(c.generator(C), dtype=float) - np.asarray(c.generator(u), dtype=float) \
                        - np.asarray(c.generator(v), dtype=float)
                    scale = 1 + np.abs(np.asarray(c.generator(u), dtype=float)) + np.abs(np.asarray(c.generator(v), dtype=float))
                    g1 = float(np.asarray(c.generator(np.array([1.0])))[0])
                okm = np.isfinite(gi) & inner
                if np.any(np.abs(gi[okm]) > 1e-6 * scale[okm]) or abs(g1) > 1e-12:
                    i = int(np.argmax(np.where(okm, np.abs(gi) / scale, 0)))
                    found += 1
                    ctx.violation(f'search:generator:{fam}', f'{fam} theta={th}: generator(C(u,v)) != generator(u)+generator(v) at ({u[i]!r},{v[i]!r}) or generator(1)={g1}',
                                  {'family': fam, 'theta': th, 'u': float(u[i]), 'v': float(v[i]), 'defect': float(gi[i]), 'generator_at_1': g1,
                                   'repro': repro_cdf(fam, th, [(u[i], v[i])])})
                # theta ordering
                th2 = implbiv.sample_theta(rng, fam)
                lo, hi = sorted([th, th2])
                Clo = np.asarray(implbiv.make(fam, lo).cumulative_distribution(X), dtype=float)
                Chi = np.asarray(implbiv.make(fam, hi).cumulative_distribution(X), dtype=float)
                if np.any(Clo > Chi + 1e-9):
                    i = int(np.argmax(Clo - Chi))
                    found += 1
                    ctx.violation(f'search:theta-order:{fam}', f'{fam}: C_theta not increasing in theta: theta {lo} vs {hi} at ({u[i]!r},{v[i]!r})',
                                  {'family': fam, 'theta_lo': lo, 'theta_hi': hi, 'u': float(u[i]), 'v': float(v[i]),
                                   'C_lo': float(Clo[i]), 'C_hi': float(Chi[i]), 'repro': repro_cdf(fam, lo, [(u[i], v[i])]) + repro_cdf(fam, hi, [(u[i], v[i])])})
                # batch rows independent: a row evaluated alone equals the row inside the batch
                k = rng.integers(0, len(u), 25)
                alone = np.array([float(np.asarray(c.cumulative_distribution(X[j:j + 1]))[0]) for j in k])
                mixed = np.vstack([X[k], np.array([[0.0, 0.5], [0.5, 0.0], [1.0, 1.0]])]) if fam != 'gumbel' else X[k]
                inb = np.asarray(c.cumulative_distribution(mixed), dtype=float)[:len(k)]
                if np.any(alone != inb):
                    i = int(np.where(alone != inb)[0][0])
                    found += 1
                    ctx.violation(f'search:rowwise:{fam}', f'{fam} theta={th}: row {X[k[i]].tolist()} evaluates differently alone and inside a batch',
                                  {'family': fam, 'theta': th, 'row': X[k[i]].tolist(), 'alone': float(alone[i]), 'in_batch': float(inb[i]),
                                   'repro': repro_cdf(fam, th, mixed.tolist())})
                ctx.case(f'search:{fam}:{round(th, 6)}', None)
            except Exception as ex:   # the implementation raised on a valid input
                found += 1
                ctx.violation(f'search:exception:{fam}:{type(ex).__name__}', f'{fam} theta={th}: cumulative_distribution raised {type(ex).__name__}: {ex}',
                              {'family': fam, 'theta': th, 'error': repr(ex), 'repro': repro_cdf(fam, th, [(0.3, 0.7)])})
    ctx.rule('search: per family 12 thetas x 440 points (400 interior + 40 within 1e-12..1e-4 of an edge): symmetry, Frechet bounds, '
             'boundary rows, 200 random rectangles, generator identity, theta ordering, row-vs-batch equality on the implementation')
    return found


def corr_goals(ctx, n):
    rng = np.random.default_rng(ctx.seed + 6)
    goals = []
    kinds = ['interior'] * 6 + ['near'] * 3 + ['edge']
    for i in range(n):
        fam = FAMS[i % 3]
        kind = kinds[(i // 3) % len(kinds)]
        th = implbiv.sample_theta(rng, fam, edge=(rng.random() < 0.15))
        u, v = implbiv.sample_point(rng, kind)
        if fam == 'gumbel' and (u == 0.0 or v == 0.0):
            u, v = max(u, 1e-12), max(v, 1e-12)       # exact 0 goes through log 0 = -inf: outside the R model (residue)
        c = implbiv.make(fam, th)
        with np.errstate(all='ignore'):
            y = float(np.asarray(c.cumulative_distribution(np.array([[u, v]])))[0])
        name = f'{fam}_cumulative_distribution'
        term = f'{name} {frac(th)} {frac(u)} {frac(v)}'
        meta = {'fn': name, 'theta': th, 'u': u, 'v': v, 'impl': y, 'kind': kind}
        goals.append({'term': term, 'y': y, 'tol': cases.tol_for(y), 'unfolds': [name], 'meta': meta})
        ctx.case(('cdf', fam, th, u, v), meta, nontrivial=(0 < u < 1 and 0 < v < 1))
        if i % 4 == 0:
            t = float(rng.uniform(1e-3, 1.0))
            with np.errstate(all='ignore'):
                yg = float(np.asarray(c.generator(np.array([t])))[0])
            gname = f'{fam}_generator'
            goals.append({'term': f'{gname} {frac(th)} {frac(t)}', 'y': yg, 'tol': cases.tol_for(yg), 'unfolds': [gname],
                          'meta': {'fn': gname, 'theta': th, 't': t, 'impl': yg}})
            ctx.case(('gen', fam, th, t), None)
    return goals


def theta_validation(ctx):
    """check_theta / check_fit accept-reject decisions: implementation vs Model.BivCtl with the GENERATED domains"""
    from fractions import Fraction
    statusq = biv.generate_q(ctx)
    badq = {k: v for k, v in statusq.items() if v}
    for k in statusq:
        ctx.obligation(f'translate:{k}', k not in badq, 'translation', badq.get(k, ''))
    if badq or not ctx.compile(['Gen_bivq.v']):
        return
    grid = [None, 0.0, -0.0, 1e-9, -1e-9, 0.5, 1.0, 1.0 - 1e-12, 1.0 + 1e-12, 2.0, 8.0, 18.2, -18.2, -1.0, -3.5, 1e6, -1e6,
            float('inf'), float('-inf')]

    def coq_th(t):
        if t is None:
            return 'None'
        if t == float('inf'):
            return '(Some PInf)'
        if t == float('-inf'):
            return '(Some MInf)'
        f = Fraction(t)
        return f'(Some (Fin ({f.numerator} # {f.denominator})))' if f >= 0 else f'(Some (Fin (-({-f.numerator} # {f.denominator}))))'
    exprs, meta = [], []
    for fam in FAMS:
        for t in grid:
            exprs.append(f'check_fit {fam}_dom {coq_th(t)}')
            c = implbiv.make(fam, t)
            try:
                c.check_fit()
                r = 'None'
            except Exception as ex:
                r = 'Some ' + type(ex).__name__
            meta.append((fam, t, r))
    outs = cases.run_vm_cases(ctx, 'Cases_C06_theta', 'From Cop Require Import Model.BivCtl.\nFrom CopRun Require Import Gen_bivq.', exprs,
                              scope_open='Open Scope Q_scope.')
    for (fam, t, r), o in zip(meta, outs):
        ok = (o == r)
        ctx.obligation(f'corr:check_fit:{fam}:{t}', ok, 'correspondence', f'model {o} vs implementation {r}')
        ctx.case(('check_fit', fam, str(t)), None)
        if not ok:
            ctx.violation(f'corr:check_fit:{fam}', f'{fam}.check_fit() with theta={t}: implementation {r}, model {o}',
                          {'family': fam, 'theta': t, 'repro': f"from copulas.bivariate import Bivariate\nc=Bivariate(copula_type='{fam}'); c.theta={t!r}\nc.check_fit()\n"})


def _run(ctx):
    quick = ctx.tier == 'quick'
    status = biv.generate(ctx)
    needed = [p.format(f=f) for f in FAMS for p in NEEDED]
    bad = {k: v for k, v in status.items() if k in needed and v}
    broken = False
    for k, v in bad.items():
        ctx.obligation(f'translate:{k}', False, 'translation', v)
        broken = True
    for k in needed:
        if k not in bad:
            ctx.obligation(f'translate:{k}', True, 'translation')
    if not broken:
        ctx.copy_src('Bridge/Bridge_biv.v')
        ctx.copy_src('Props/C06.v')
        broken = not ctx.compile(['Gen_biv.v', 'Bridge_biv.v', 'C06.v'])
    ctx.rule('correspondence: (family, theta, u, v) with theta over the whole |tau|<=0.8 range (15% at the range ends), points 60% interior / '
             '30% within 1e-12..1e-5 of an edge / 10% exact 0 or 1; Interval certifies |Gen.cdf(theta,u,v) - impl| <= 1e-7(1+|impl|); '
             'non-trivial = strictly inside the unit square; distinct = distinct (fn,theta,u,v)')
    if not bad:
        goals = corr_goals(ctx, 45 if quick else 600)
        failed = cases.run_interval_cases(ctx, 'Cases_C06', IMPORTS, goals)
        for g, err in failed:
            m = g['meta']
            ctx.violation(f"corr:{m['fn']}", f"model and implementation disagree on {m}",
                          {'meta': m, 'coq_error': err[-400:],
                           'repro': repro_cdf(m['fn'].split('_')[0], m['theta'], [(m.get('u', 0.5), m.get('v', 0.5))])
                           if 'u' in m else f"# generator at t={m.get('t')}"}, found=True)
    theta_validation(ctx)
    found = search(ctx, n_theta=6 if quick else 40, n_pts=300 if quick else 2000)
    ctx.extra['witness_search_hits'] = found
    ctx.assumptions += ['Gumbel at an exact 0 coordinate (IEEE log 0 = -inf) is outside the real-number model; covered only by the implementation-side boundary oracle',
                        'np.power(x, y) is modelled for x > 0 and for 0 ** (y > 0)']


def run(ctx):
    """the check proper, then the history / memory-layout oracles on the real classes (always, also after a broken translation)"""
    from .. import extra_oracles
    try:
        _run(ctx)
    finally:
        try:
            extra_oracles.biv_extra(ctx, 'C06')
        except Exception as ex:       # the oracle itself must never hide the result of the check proper
            ctx.obligation('oracle:extra:raised', False, 'correspondence', repr(ex))
            ctx.violation('oracle:extra:raised:' + type(ex).__name__, 'history/layout oracle raised ' + repr(ex), {'repro': '# see tools/vf/extra_oracles.py'})
