"""C09 — bivariate copula samples have uniform margins and the model's dependence."""
import math
import numpy as np
from .. import biv, cases, implbiv
from ..core import frac
from .C07 import unfolds_for

FAMS = ['clayton', 'frank', 'gumbel']
IMPORTS = 'From CopRun Require Import Gen_biv.'


def tau_of(fam, th):
    if fam == 'clayton':
        return th / (th + 2)
    if fam == 'gumbel':
        return 1 - 1 / th
    from scipy import integrate
    d = integrate.quad(lambda t: t / (math.exp(t) - 1), 1e-12, th)[0] / th
    return 1 + 4 * (d - 1) / th


def repro_sample(fam, th, tau, d1, d2):
    return ("import numpy as np\nfrom copulas.bivariate import Bivariate\nimport copulas.bivariate.base as base\n"
            f"c=Bivariate(copula_type='{fam}'); c.theta={th!r}; c.tau={tau!r}\n"
            f"draws=[np.array({list(map(float, d1))!r}), np.array({list(map(float, d2))!r})]\n"
            "orig=np.random.uniform\nnp.random.uniform=lambda a,b,n: draws.pop(0)\n"
            "try:\n    out=c.sample(len(draws[0]))\nfinally:\n    np.random.uniform=orig\n"
            f"v=np.array({list(map(float, d1))!r}); cc=np.array({list(map(float, d2))!r})\n"
            "print(out)\nassert out.shape==(len(v),2) and np.array_equal(out[:,1], v)\n"
            "h=c.partial_derivative(out)\nassert np.abs(h-cc).max() < 1e-8, (h, cc)\n")


def corr(ctx, n):
    rng = np.random.default_rng(ctx.seed + 9)
    goals = []
    for i in range(n):
        fam = FAMS[i % 3]
        th = implbiv.sample_theta(rng, fam, edge=(rng.random() < 0.15))
        if fam == 'gumbel' and i % 12 == 2:
            th = 1.0                              # independence member: percent_point shortcut
        tau = float(tau_of(fam, th))
        m = int(rng.integers(1, 7))
        d1 = rng.uniform(1e-4, 1 - 1e-4, m)
        d2 = rng.uniform(1e-4, 1 - 1e-4, m)
        if fam == 'gumbel':                      # stay out of the known F17 corner (C08): h(EPSILON, v) > c
            d1 = np.clip(d1, 0.01, 0.99)
            d2 = np.clip(d2, 0.01, 0.99)
        c = implbiv.make(fam, th, tau)
        calls = []
        draws = [d1.copy(), d2.copy()]
        orig = np.random.uniform

        def fake(a, b, size):
            calls.append((a, b, size))
            return draws.pop(0)
        np.random.uniform = fake
        try:
            with np.errstate(all='ignore'):
                out = np.asarray(c.sample(m), dtype=float)
            err = None
        except Exception as ex:
            out, err = None, ex
        finally:
            np.random.uniform = orig
        ok = err is None and out.shape == (m, 2) and calls == [(0, 1, m), (0, 1, m)] and np.array_equal(out[:, 1], d1)
        ctx.obligation(f'corr:sample-shape:{fam}:{i}', ok, 'correspondence',
                       f'err={err!r} calls={calls} out={None if out is None else out.tolist()} d1={d1.tolist()}')
        ctx.case(('sample', fam, th, tuple(d1), tuple(d2)), {'family': fam, 'theta': th, 'n': m, 'first_draw': d1[:3].tolist(), 'second_draw': d2[:3].tolist()})
        if not ok:
            ctx.violation(f'corr:sample-shape:{fam}', f'{fam} theta={th}: sample({m}) with patched uniform draws does not have the model shape '
                          f'(two uniform(0,1,n) draws, second column = first draw): err={err!r}',
                          {'family': fam, 'theta': th, 'tau': tau, 'd1': d1.tolist(), 'd2': d2.tolist(), 'calls': str(calls),
                           'repro': repro_sample(fam, th, tau, d1, d2)})
            continue
        for j in range(m):
            meta = {'family': fam, 'theta': th, 'tau': tau, 'c': float(d2[j]), 'v': float(d1[j]), 'u_impl': float(out[j, 0]), 'd1': d1.tolist(), 'd2': d2.tolist()}
            if fam == 'clayton':
                goals.append({'term': f'clayton_percent_point {frac(th)} {frac(d2[j])} {frac(d1[j])}', 'y': float(out[j, 0]),
                              'tol': cases.tol_for(out[j, 0]), 'unfolds': ['clayton_percent_point'], 'meta': meta})
            else:
                goals.append({'term': f'{fam}_partial_derivative {frac(th)} {frac(out[j, 0])} {frac(d1[j])}', 'y': float(d2[j]),
                              'tol': 1e-9, 'unfolds': unfolds_for(fam, 'partial_derivative'), 'meta': meta})
    # guard: |tau| > 1 raises ValueError before any draw
    for fam in FAMS:
        for tau in (1.5, -1.0000001, 7.0):
            c = implbiv.make(fam, 2.0, tau)
            calls = []
            orig = np.random.uniform
            np.random.uniform = lambda a, b, size: calls.append(1) or orig(a, b, size)
            try:
                c.sample(3)
                r = 'returned'
            except ValueError:
                r = 'ValueError'
            except Exception as ex:
                r = type(ex).__name__
            finally:
                np.random.uniform = orig
            ok = (r == 'ValueError' and not calls)
            ctx.obligation(f'corr:tau-guard:{fam}:{tau}', ok, 'correspondence', f'{r}, draws before raising: {len(calls)}')
            if not ok:
                ctx.violation(f'corr:tau-guard:{fam}', f'{fam}: sample with tau={tau} gave {r} after {len(calls)} draws (model: ValueError before any draw)',
                              {'family': fam, 'tau': tau, 'repro': f"from copulas.bivariate import Bivariate\nc=Bivariate(copula_type='{fam}'); c.theta=2.0; c.tau={tau}\ntry:\n    c.sample(3)\n    raise SystemExit(1)\nexcept ValueError:\n    pass\n"})
    return goals


def stat_search(ctx, n, n_theta):
    """Statistical oracles (witness search only): bands chosen so that the total false-alarm probability of a run is < 1e-9."""
    from scipy.stats import kendalltau
    rng = np.random.default_rng(ctx.seed + 909)
    hits = 0
    ntests = 3 * n_theta * (2 + 1 + 100) + 3
    alpha = 1e-9 / ntests
    ks_band = math.sqrt(math.log(2 / alpha) / (2 * n))
    tau_band = math.sqrt(2 * math.log(2 / alpha) / (n // 2))
    for fam in FAMS:
        for it in range(n_theta):
            th = implbiv.sample_theta(rng, fam)
            if fam == 'gumbel':
                th = 1.0 if it == 0 else max(th, 1.05)
            tau = float(tau_of(fam, th))
            seed = int(rng.integers(0, 2 ** 31 - 1))
            from copulas.bivariate import Bivariate
            c = Bivariate(copula_type=fam, random_state=seed)
            c.theta, c.tau = th, tau
            try:
                with np.errstate(all='ignore'):
                    S = np.asarray(c.sample(n), dtype=float)
            except Exception as ex:
                # only the known Gumbel corner (F17, property C08) may raise here
                key = 'F17:gumbel-bracket-no-sign-change' if (fam == 'gumbel' and 'different signs' in str(ex)) else f'search:sample-raises:{fam}:{type(ex).__name__}'
                if not key.startswith('F17'):
                    hits += 1
                    ctx.violation(key, f'{fam} theta={th}: sample({n}) raised {type(ex).__name__}: {ex}',
                                  {'family': fam, 'theta': th, 'seed': seed, 'repro': f"from copulas.bivariate import Bivariate\nc=Bivariate(copula_type='{fam}', random_state={seed}); c.theta={th!r}; c.tau={tau!r}\nc.sample({n})\n"})
                continue
            rep = (f"import numpy as np\nfrom copulas.bivariate import Bivariate\nc=Bivariate(copula_type='{fam}', random_state={seed}); c.theta={th!r}; c.tau={tau!r}\n"
                   f"S=c.sample({n})\nprint(S[:5])\n")
            bad = None
            if S.shape != (n, 2) or not np.all(np.isfinite(S)) or S.min() < 0 or S.max() > 1:
                bad = ('search:sample-range', f'sample shape {S.shape}, finite={np.all(np.isfinite(S))}, min={S.min()}, max={S.max()}')
            else:
                grid = (np.arange(1, n + 1)) / n
                for k in (0, 1):
                    xs = np.sort(S[:, k])
                    d = max(np.max(np.abs(xs - grid)), np.max(np.abs(xs - (grid - 1.0 / n))))
                    if d > ks_band:
                        bad = (f'search:margin-not-uniform:{fam}', f'column {k}: KS distance to U(0,1) {d:.4f} > band {ks_band:.4f} (n={n})')
                t_hat = float(kendalltau(S[:, 0], S[:, 1])[0])
                if abs(t_hat - tau) > tau_band:
                    bad = (f'search:tau-mismatch:{fam}', f'sample Kendall tau {t_hat:.4f} vs model tau {tau:.4f}, band {tau_band:.4f} (n={n})')
                g = np.linspace(0.1, 0.9, 10)
                A, B = np.meshgrid(g, g)
                pts = np.column_stack([A.ravel(), B.ravel()])
                emp = np.array([np.mean((S[:, 0] <= a) & (S[:, 1] <= b)) for a, b in pts])
                with np.errstate(all='ignore'):
                    C = np.asarray(c.cumulative_distribution(pts), dtype=float)
                dj = np.abs(emp - C)
                if dj.max() > ks_band:
                    j = int(np.argmax(dj))
                    bad = (f'search:joint-cdf-mismatch:{fam}', f'empirical joint CDF {emp[j]:.4f} vs copula {C[j]:.4f} at {pts[j].tolist()}, band {ks_band:.4f} (n={n})')
            ctx.case(('stat', fam, th), None)
            if bad:
                hits += 1
                ctx.violation(bad[0], f'{fam} theta={th} seed={seed}: {bad[1]}', {'family': fam, 'theta': th, 'tau': tau, 'seed': seed, 'n': n, 'repro': rep})
    # history: a copula fitted, re-fitted on data with different dependence, then sampled, must follow its CURRENT tau
    from copulas.bivariate import Bivariate
    for fam in FAMS:
        th1, th2 = {'clayton': (0.5, 4.0), 'frank': (2.0, 9.0), 'gumbel': (1.3, 3.0)}[fam]
        seed = int(rng.integers(0, 2 ** 31 - 1))
        g1 = Bivariate(copula_type=fam, random_state=seed)
        g1.theta, g1.tau = th1, float(tau_of(fam, th1))
        g2 = Bivariate(copula_type=fam, random_state=seed + 1)
        g2.theta, g2.tau = th2, float(tau_of(fam, th2))
        try:
            with np.errstate(all='ignore'):
                X1, X2 = g1.sample(600), g2.sample(600)
                c = Bivariate(copula_type=fam, random_state=seed + 2)
                c.fit(X1)
                c.fit(X2)
                S = np.asarray(c.sample(n), dtype=float)
            t_hat = float(kendalltau(S[:, 0], S[:, 1])[0])
            ctx.case(('stat-refit', fam), None)
            if abs(t_hat - float(c.tau)) > tau_band:
                hits += 1
                ctx.violation(f'search:refit-then-sample-tau-mismatch:{fam}',
                              f'{fam}: fit(X1, tau~{g1.tau:.2f}); fit(X2, tau~{g2.tau:.2f}); sample: Kendall tau {t_hat:.3f} vs model tau {float(c.tau):.3f} (band {tau_band:.3f})',
                              {'family': fam, 'seed': seed, 'theta1': th1, 'theta2': th2, 'sample_tau': t_hat, 'model_tau': float(c.tau), 'model_theta': float(c.theta),
                               'repro': (f"import numpy as np\nfrom scipy.stats import kendalltau\nfrom copulas.bivariate import Bivariate\n"
                                         f"g1=Bivariate(copula_type='{fam}', random_state={seed}); g1.theta={th1}; g1.tau={g1.tau!r}\n"
                                         f"g2=Bivariate(copula_type='{fam}', random_state={seed + 1}); g2.theta={th2}; g2.tau={g2.tau!r}\n"
                                         f"X1,X2=g1.sample(600),g2.sample(600)\nc=Bivariate(copula_type='{fam}', random_state={seed + 2}); c.fit(X1); c.fit(X2)\nS=c.sample({n})\n"
                                         f"t=kendalltau(S[:,0],S[:,1])[0]\nprint(t, c.tau, c.theta)\nassert abs(t-c.tau) < {tau_band!r}\n")})
            # ... and after a REFUSED re-fit (negative dependence for Clayton / Gumbel): sample either refuses or follows the model's tau
            if fam in ('clayton', 'gumbel'):
                Xneg = np.column_stack([X1[:, 0], 1.0 - X1[:, 1]])
                c2 = Bivariate(copula_type=fam, random_state=seed + 3)
                with np.errstate(all='ignore'):
                    c2.fit(X2)
                    try:
                        c2.fit(Xneg)
                        refused = False
                    except ValueError:
                        refused = True
                    try:
                        S2 = np.asarray(c2.sample(n), dtype=float)
                    except Exception:
                        S2 = None
                ctx.case(('stat-refused-refit', fam), None)
                if refused and S2 is not None:
                    t2 = float(kendalltau(S2[:, 0], S2[:, 1])[0])
                    if abs(t2 - float(c2.tau)) > tau_band:
                        hits += 1
                        ctx.violation(f'search:refused-refit-then-sample-tau-mismatch:{fam}',
                                      f'{fam}: fit(X2, tau~{g2.tau:.2f}); fit(negatively dependent data) -> ValueError; sample({n}) returns a sample with Kendall tau '
                                      f'{t2:.3f} while the model says tau = {float(c2.tau):.3f} (theta = {float(c2.theta):.3f})',
                                      {'family': fam, 'seed': seed, 'sample_tau': t2, 'model_tau': float(c2.tau), 'model_theta': float(c2.theta),
                                       'repro': (f"import numpy as np\nfrom scipy.stats import kendalltau\nfrom copulas.bivariate import Bivariate\n"
                                                 f"g=Bivariate(copula_type='{fam}', random_state={seed + 1}); g.theta={th2}; g.tau={g2.tau!r}\nX=g.sample(600)\n"
                                                 f"c=Bivariate(copula_type='{fam}', random_state={seed + 3}); c.fit(X)\n"
                                                 "try:\n    c.fit(np.column_stack([X[:,0], 1-X[:,1]]))\nexcept ValueError:\n    pass\n"
                                                 f"try:\n    S=c.sample({n})\nexcept Exception:\n    raise SystemExit(0)\n"
                                                 f"t=kendalltau(S[:,0],S[:,1])[0]\nprint(t, c.tau, c.theta)\nassert abs(t-c.tau) < {tau_band!r}\n")})
        except Exception as ex:
            if not (fam == 'gumbel' and 'different signs' in str(ex)):
                hits += 1
                ctx.violation(f'search:refit-then-sample-raises:{fam}:{type(ex).__name__}', f'{fam}: fit; fit; sample raised {type(ex).__name__}: {ex}', {'family': fam, 'seed': seed, 'repro': '# see what'})
    ctx.rule(f'search (statistical, witness search only): n={n} samples per (family, theta): DKW band {ks_band:.4f} on each margin and on a 10x10 grid of the joint CDF, '
             f'Hoeffding U-statistic band {tau_band:.4f} on Kendall tau; Bonferroni over {ntests} tests at total level 1e-9')
    return hits


def _run(ctx):
    quick = ctx.tier == 'quick'
    status = biv.generate(ctx)
    needed = ['bivariate_sample', 'bivariate_percent_point'] + [f'{f}_percent_point' for f in FAMS] + [f'{f}_partial_derivative' for f in FAMS] \
        + [f'{f}_cumulative_distribution' for f in FAMS]
    bad = {k: v for k, v in status.items() if k in needed and v}
    for k in needed:
        ctx.obligation(f'translate:{k}', k not in bad, 'translation', bad.get(k, ''))
    if not bad:
        for f in ('Bridge/Bridge_biv.v', 'Props/C08.v', 'Props/C09.v'):
            ctx.copy_src(f)
        ctx.compile(['Gen_biv.v', 'Bridge_biv.v', 'C08.v', 'C09.v'])
    ctx.rule('correspondence: sample(n) with numpy.random.uniform patched to return chosen vectors (1..6 lanes in [1e-4,1-1e-4]): exactly two uniform(0,1,n) draws, '
             'second column = first draw, first column = percent_point(second draw, first draw): Clayton certified against the generated closed form, Frank/Gumbel by the '
             'certified round trip |Gen.h(theta,u,v) - c| <= 1e-9; |tau| > 1 raises ValueError before any draw')
    if not bad:
        goals = corr(ctx, 30 if quick else 300)
        for g, err in cases.run_interval_cases(ctx, 'Cases_C09', IMPORTS, goals):
            m = g['meta']
            ctx.violation(f"corr:sample-first-column:{m['family']}", f"first column of sample is not percent_point(c, v): {m}",
                          {'meta': m, 'coq_error': err[-300:], 'repro': repro_sample(m['family'], m['theta'], m['tau'], m['d1'], m['d2'])})
    ctx.extra['witness_search_hits'] = stat_search(ctx, 3000 if quick else 20000, 2 if quick else 8)
    ctx.trusted += ['numpy.random.uniform draws are independent U(0,1) ("area = probability") - not a theorem; scipy brentq oracle as in C08']
    ctx.assumptions += ['statistical clauses (uniform margins, tau, joint CDF of the SAMPLE) are residue: proved is that the output law is the copula given ideal uniform draws',
                        'the statistical oracles of the witness search have total false-alarm probability < 1e-9 per run']


def run(ctx):
    """the check proper, then the history / memory-layout oracles on the real classes (always, also after a broken translation)"""
    from .. import extra_oracles
    try:
        _run(ctx)
    finally:
        try:
            extra_oracles.biv_extra(ctx, 'C09')
        except Exception as ex:       # the oracle itself must never hide the result of the check proper
            ctx.obligation('oracle:extra:raised', False, 'correspondence', repr(ex))
            ctx.violation('oracle:extra:raised:' + type(ex).__name__, 'history/layout oracle raised ' + repr(ex), {'repro': '# see tools/vf/extra_oracles.py'})
