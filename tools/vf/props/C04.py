"""C04 — marginal fitting recovers the generating law; KDE is the kernel estimate."""
import re
from fractions import Fraction

import numpy as np

from .. import cases, univ
from ..core import frac
from .C03 import q, qlist, rlist, ints, fracs, close, pairs, VM_HDR, VM_IMPORTS, TAB_HDR, tiny, safe, show

MLE = {'beta': ('BetaUnivariate', 4), 'gamma': ('GammaUnivariate', 3), 'student_t': ('StudentTUnivariate', 3), 'log_laplace': ('LogLaplace', 3)}
SCIPY_NAME = {'beta': 'beta', 'gamma': 'gamma', 'student_t': 't', 'log_laplace': 'loglaplace'}
STD_CBV = 'cbv [np_std np_var np_mean np_sqrt Rsum map List.length INR fst snd]; interval with (i_prec 90)'


def rb(spec):
    return ('import numpy as np, warnings\nwarnings.filterwarnings("ignore")\nfrom vf import univ\n'
            f'spec = {spec!r}\nm = univ.build(spec)\nX = np.array(spec["X"])\n')


def viol(ctx, key, what, spec, extra, body):
    rep = dict(extra)
    rep['spec'] = spec if len(spec['X']) <= 400 else {**spec, 'X': f'<{len(spec["X"])} values; see repro>'}
    rep['repro'] = rb(spec) + body
    ctx.violation(key, what, rep, found=True)


def mkspec(cls, X, kwargs=None, np_seed=None):
    return {'cls': cls, 'kwargs': kwargs or {}, 'X': [float(v) for v in X], 'np_seed': np_seed}


def fit_captured(spec):
    with univ.Capture() as cap:
        X = np.array(spec['X'], dtype=float)
        m = univ.build(spec, fit=False)
        if spec.get('np_seed') is not None:
            np.random.seed(spec['np_seed'])
        m.fit(X)
        return m, X, list(cap.log)


def try_fit(ctx, spec):
    """fit under capture; a fit that raises on a sample of its own family (closed-form / own-optimiser / KDE classes) is a violation"""
    try:
        return fit_captured(spec)
    except Exception as ex:
        ctx.obligation(f'corr:fit:{spec["cls"]}', False, 'correspondence', f'fit raised {type(ex).__name__}: {ex}')
        viol(ctx, f'corr:fit-raises-{type(ex).__name__}:{spec["cls"]}', f'{spec["cls"]}({spec["kwargs"]}).fit raised {type(ex).__name__}: {str(ex)[:200]}', spec, {}, '')
        return None


# ------------------------------------------------------------------------------------------------
#  tiny parser for the printed constructor terms  KdeCtor <ds> "bw" "w"  /  DsResample (<ctor>) "size"
# ------------------------------------------------------------------------------------------------
def parse_term(s):
    toks = re.findall(r'"[^"]*"|\(|\)|[A-Za-z_]\w*', s or '')
    pos = 0

    def atom():
        nonlocal pos
        t = toks[pos]
        pos += 1
        if t == '(':
            r = app()
            assert toks[pos] == ')'
            pos += 1
            return r
        if t.startswith('"'):
            return t[1:-1]
        return (t,)

    def app():
        nonlocal pos
        head = atom()
        args = []
        while pos < len(toks) and toks[pos] != ')':
            args.append(atom())
        return head + tuple(args) if isinstance(head, tuple) else head
    r = app()
    assert pos == len(toks)
    return r


def expected_trace(ctor_term, has_ss_term_true, has_ss_term_false, m, X, sample_size):
    """interpret the generated constructor terms as the sequence of scipy calls fit() must make"""
    attr = {'self.bw_method': m.bw_method, 'self.weights': m.weights, 'self._sample_size': sample_size}
    trace = []

    def ds(t):
        if t == ('DsFitInput',):
            return ('input',)
        if t == ('DsStoredParams',):
            return ('params',)
        if t[0] == 'DsResample':
            i = ctor(t[1])
            trace.append(('resample', i, attr[t[2]]))
            return ('resampled', i)
        raise ValueError(t)

    def ctor(t):
        assert t[0] == 'KdeCtor'
        d = ds(t[1])
        trace.append(('ctor', d, t[2], t[3]))
        return sum(1 for e in trace if e[0] == 'ctor') - 1
    d = ds(has_ss_term_true if sample_size else has_ss_term_false)      # what becomes _params['dataset']
    ctor(ctor_term)                                                    # _get_model
    return d, trace, attr


# ------------------------------------------------------------------------------------------------
def _run(ctx):
    quick = ctx.tier == 'quick'
    status = univ.generate(ctx)
    for name, err in status.items():
        ctx.obligation(f'translate:{name}', err is None, 'translation', err or '')
    gen_ok = all(v is None for v in status.values())
    gen_compiled = False
    if gen_ok:
        ctx.copy_src('Props/C04.v')
        gen_compiled = ctx.compile(['Gen_univ.v'])
        if gen_compiled:
            ctx.compile(['C04.v'])
    ctx.rule('correspondence: fits on samples drawn from members of each family (location in [-1e3,1e3], scale in [1e-2,1e3], shapes over the '
             'family ranges, n in {6..40} for the certified cases): Gaussian loc/scale certified by Interval against the generated np.mean/np.std '
             'term; Uniform loc/scale, the Beta starting point and the TruncatedGaussian bounds/box/(a,b) by vm_compute on the rational mirror; '
             'Beta/Gamma/StudentT/LogLaplace: captured scipy fit call (callee, data, keyword arguments) and the key under which each returned '
             'component is stored against the generated call record; TruncatedGaussian: captured fmin_slsqp call (start, bounds, objective) and '
             'stored parameters for the captured optimum; GaussianKDE: captured gaussian_kde/resample/evaluate trace against the generated terms')
    ctx.rule('search: exact estimators against rational arithmetic (n up to 5000), support of bounded families, user bounds of TruncatedGaussian, '
             'KDE density against an independently built scipy.stats.gaussian_kde and against the explicit kernel formula (resample replayed from '
             'the same RNG state), DKW band at level 1e-9 for the closed-form / own-optimiser families (report-only for the scipy-MLE families)')
    ctx.trusted += ['scipy.stats.<dist>.fit, scipy.optimize.fmin_slsqp, scipy.stats.gaussian_kde (constructor, resample, evaluate): oracles (captured)']
    ctx.assumptions += ['statistical residue, NOT decided: closeness of the fitted CDF to the generating CDF (DKW band) and the ">= 80% of datasets" clause for '
                        'the scipy-MLE families; the DKW oracle runs in the witness search only (false-alarm level 1e-9 per dataset)',
                        'TruncatedGaussian: the truncation bounds are locals of _fit (F6 fixed); the generator rejects any use of self.min / self.max after they are computed and the search re-fits one instance on rescaled data']
    if gen_compiled:
        try:
            correspondence(ctx, quick)
        except Exception:
            import traceback
            ctx.obligation('corr:harness', False, 'harness', traceback.format_exc()[-1500:])
    search(ctx, quick)


# ------------------------------------------------------------------------------------------------
def correspondence(ctx, quick):
    rng = np.random.default_rng(ctx.seed + 4)
    imports_gen = 'From CopRun Require Import Gen_univ.'
    tab_exprs = []
    for fam, (cls, ar) in MLE.items():
        rs = '[' + '; '.join(f'"r{i}"' for i in range(ar)) + ']'
        tab_exprs += [f'gen_{fam}_fit_callee', f'gen_{fam}_fit_store {rs} ""', f'gen_{fam}_fit_arity']
    tab_exprs += ['gen_kde_get_model', 'gen_kde_fit_dataset true', 'gen_kde_fit_dataset false', 'gen_kde_pdf_call', 'gen_kde_sample_call', 'gen_model_class']
    tabs = cases.run_vm_cases(ctx, 'Cases_C04_tab', imports_gen, tab_exprs, hdr=TAB_HDR, scope_open='Open Scope string_scope.')
    ctx.obligation('corr:tables-evaluated', all(t is not None for t in tabs), 'correspondence', str(tabs)[:400])
    if not all(t is not None for t in tabs):
        return
    T = dict(zip(tab_exprs, tabs))
    mclass = dict(pairs(T['gen_model_class']))
    exprs, vmeta, goals = [], [], []

    def vm(e, meta):
        exprs.append(e)
        vmeta.append(meta)
    n_rep = 3 if quick else 25
    # ---------------- Gaussian (Interval) and Uniform (exact)
    for rep in range(n_rep + 2):
        n = int(rng.choice([6, 12, 25, 40]))
        if rep == n_rep:          # large offset / tiny relative spread, and tiny magnitudes: distinct values that are "close" in floating point
            X, desc = 1e6 + 0.5 * rng.normal(0, 1, n), {'family': 'gaussian', 'params': [1e6, 0.5]}
        elif rep == n_rep + 1:
            X, desc = 1e-9 * rng.normal(2, 1, n), {'family': 'gaussian', 'params': [2e-9, 1e-9]}
        else:
            X, desc, _ = univ.draw_family(rng, 'gaussian', n, loc=float(rng.uniform(-1e3, 1e3)), scale=float(10 ** rng.uniform(-2, 3)))
        spec = mkspec('GaussianUnivariate', X)
        r = try_fit(ctx, spec)
        if r is None:
            continue
        m, Xa, log = r
        for key in ('loc', 'scale'):
            y = float(m._params[key])
            goals.append({'term': f'dget (gen_gaussian_fit {rlist(X)}) 0 "{key}"%string', 'y': y,
                          'tol': 1e-9 * (abs(y) + float(m._params['scale'])) if key == 'loc' else 1e-9 * abs(y) + 1e-300,
                          'unfolds': ['gen_gaussian_fit'], 'tactic': 'cbn [dget String.eqb Ascii.eqb Bool.eqb]; ' + STD_CBV,
                          'meta': {'what': f'gaussian-{key}', 'spec': spec, 'impl': y,
                                   'body': f"from fractions import Fraction as F\nxs = [F(v) for v in spec['X']]\nmu = sum(xs) / len(xs)\n"
                                           f"var = sum((v - mu) ** 2 for v in xs) / len(xs)\nexp = {{'loc': float(mu), 'scale': float(var) ** 0.5}}\n"
                                           f"print(m._params, exp)\nassert abs(m._params['{key}'] - exp['{key}']) <= 1e-9 * abs(exp['{key}'])\n"}})
        ctx.case(('gaussian-fit', rep), {'family': 'gaussian', 'generator': desc, 'n': n, 'impl': {k: float(v) for k, v in m._params.items()}}, True)
        X, desc, _ = univ.draw_family(rng, 'uniform', n, loc=float(rng.uniform(-1e3, 1e3)), scale=float(10 ** rng.uniform(-2, 3)))
        spec = mkspec('UniformUnivariate', X)
        r = try_fit(ctx, spec)
        if r is None:
            continue
        m, Xa, log = r
        vm(f'showqq (quniform_fit {qlist(X)})', ('uniform-fit', spec, m, None))
        ctx.case(('uniform-fit', rep), {'family': 'uniform', 'generator': desc, 'n': n, 'impl': {k: float(v) for k, v in m._params.items()}}, True)
    # ---------------- scipy MLE families: the call record
    for fam, (cls, ar) in MLE.items():
        callee = (T[f'gen_{fam}_fit_callee'] or '').strip('"')
        store = dict(pairs(T[f'gen_{fam}_fit_store ' + '[' + '; '.join(f'"r{i}"' for i in range(ar)) + '] ""']))
        arity = ints(T[f'gen_{fam}_fit_arity'])
        for rep in range(n_rep):
            n = int(rng.choice([30, 60, 200]))
            X, desc, _ = univ.draw_family(rng, fam, n)
            spec = mkspec(cls, X)
            r = try_fit(ctx, spec)      # a sample drawn from a member of the family must be fittable
            if r is None:
                continue
            m, Xa, log = r
            fits = [e for e in log if e['fn'] == 'fit']
            bad = []
            if len(fits) != 1:
                bad.append(f'{len(fits)} scipy fit calls')
            else:
                e = fits[0]
                if e['obj'] + '.fit' != callee or mclass.get(cls) != e['obj']:
                    bad.append(f"callee {e['obj']}.fit, generated {callee}, MODEL_CLASS {mclass.get(cls)}")
                if not (len(e['args']) == 1 and e['args'][0] is Xa):
                    bad.append('positional arguments are not exactly (X)')
                ret = tuple(e['ret'])
                if [len(ret)] != arity:
                    bad.append(f'fit returned {len(ret)} components, generated arity {arity}')
                stored = {k: next((f'r{i}' for i, v in enumerate(ret) if v is m._params.get(k) or v == m._params.get(k)), None) for k in m._params}
                if stored != store or sorted(m._params) != sorted(store):
                    bad.append(f'stored keys {stored}, generated {store}')
                if fam == 'beta':
                    vm(f'showqq (quniform_fit {qlist(X)})', ('beta-start', spec, m, dict(e['kwargs'])))
                elif e['kwargs']:
                    bad.append(f"keyword arguments {sorted(e['kwargs'])}, generated none")
            ctx.obligation(f'corr:{fam}-fit-call:{rep}', not bad, 'correspondence', '; '.join(bad))
            if bad:
                viol(ctx, f'corr:{fam}-fit-call', f'{cls}._fit does not match the generated call record: ' + '; '.join(bad), spec, {'problems': bad},
                     f'import scipy.stats as st\nr = st.{callee.split(".")[2] if callee.count(".") >= 3 else "norm"}.fit(X' +
                     (', loc=X.min(), scale=X.max() - X.min()' if fam == 'beta' else '') + ')\n'
                     f'exp = dict(zip({[k for k, _ in sorted(store.items(), key=lambda kv: kv[1])]!r}, r))\nprint(m._params, exp)\n'
                     'assert set(m._params) == set(exp) and all(abs(m._params[k] - exp[k]) <= 1e-9 * (1 + abs(exp[k])) for k in exp)\n')
            ctx.case((f'{fam}-fit', rep), {'family': fam, 'generator': desc, 'n': n, 'impl': {k: float(v) for k, v in m._params.items()}}, True)
    # ---------------- TruncatedGaussian
    for rep in range(n_rep + 1):
        n = int(rng.choice([12, 25, 40]))
        X, desc, _ = univ.draw_family(rng, 'truncated', n, loc=float(rng.uniform(-50, 50)), scale=float(10 ** rng.uniform(0, 2)))
        mode = rep % 4
        kw = {}
        if mode in (1, 2):
            kw['minimum'] = float(np.floor(X.min() - rng.uniform(0, 3)))
        if mode in (1, 3):
            kw['maximum'] = float(np.ceil(X.max() + rng.uniform(0, 3)))
        spec = mkspec('TruncatedGaussian', X, kw)
        r = try_fit(ctx, spec)
        if r is None:
            continue
        m, Xa, log = r
        calls = [e for e in log if e['fn'] == 'fmin_slsqp']
        bad = []
        if len(calls) != 1:
            bad.append(f'{len(calls)} fmin_slsqp calls')
            ctx.obligation(f'corr:truncated-optimiser-call:{rep}', False, 'correspondence', '; '.join(bad))
            continue
        e = calls[0]
        umin = f'(Some {q(kw["minimum"])})' if 'minimum' in kw else 'None'
        umax = f'(Some {q(kw["maximum"])})' if 'maximum' in kw else 'None'
        loc, sc = (float(v) for v in e['ret'])
        if sc == 0 or not np.isfinite([loc, sc]).all():
            ctx.log(f'note: optimiser returned scale={sc!r} (division by zero in a, b: outside the model)')
            continue
        vm(f'(showqq (qtg_min {umin} {qlist(X)}, qtg_max {umax} {qlist(X)}), showqq (qtg_ab {umin} {umax} {qlist(X)} {q(loc)} {q(sc)}))',
           ('truncated', spec, m, e))
        bd = e['kwargs'].get('bounds')
        if not (isinstance(bd, (list, tuple)) and len(bd) == 2 and all(isinstance(t, (list, tuple)) and len(t) == 2 for t in bd)):
            bad.append(f'optimiser bounds have an unexpected shape: {bd!r}')
        else:
            for (pa, pb), val, nm in ((('fst', 'fst'), bd[0][0], 'loc-lower'), (('snd', 'fst'), bd[0][1], 'loc-upper'), (('fst', 'snd'), bd[1][0], 'scale-lower'),
                                      (('snd', 'snd'), bd[1][1], 'scale-upper')):
                val = float(val)
                goals.append({'term': f'{pa} ({pb} (gen_tg_box {frac(float(bd[0][0]))} {frac(float(bd[0][1]))}))', 'y': val, 'tol': 1e-11 * (1 + abs(val)), 'unfolds': ['gen_tg_box'],
                              'tactic': 'cbv [fst snd]; interval with (i_prec 90)',
                              'meta': {'what': f'truncated-box-{nm}', 'spec': spec, 'impl': val,
                                       'body': 'import copulas.univariate.truncated_gaussian as tg\nrec = []\norig = tg.fmin_slsqp\n'
                                               'tg.fmin_slsqp = lambda f, x0, **k: (rec.append(k.get("bounds")), orig(f, x0, **k))[1]\nm = univ.build(spec)\n'
                                               'print(rec[0])\nb = rec[0]\n'
                                               'assert b[0][0] < b[0][1] and b[1][0] == 0 and abs(b[1][1] - (b[0][1] - b[0][0]) ** 2) <= 1e-11 * (1 + b[1][1])\n'}})
        x0 = [float(v) for v in e['args'][1]] if len(e['args']) == 2 else [float('nan')] * 2
        for i, nm in enumerate(('fst', 'snd')):
            goals.append({'term': f'{nm} (gen_tg_start {rlist(X)})', 'y': x0[i], 'tol': 1e-9 * abs(x0[i]) + 1e-300, 'unfolds': ['gen_tg_start'], 'tactic': STD_CBV,
                          'meta': {'what': f'truncated-start-{nm}', 'spec': spec, 'impl': x0[i],
                                   'body': 'import copulas.univariate.truncated_gaussian as tg\nrec = []\norig = tg.fmin_slsqp\n'
                                           'tg.fmin_slsqp = lambda f, x0, **k: (rec.append(x0), orig(f, x0, **k))[1]\nm = univ.build(spec)\n'
                                           'print(rec[0], (X.mean(), X.std()))\nassert np.allclose(rec[0], (X.mean(), X.std()), rtol=1e-9, atol=0)\n'}})
        # the objective handed to the optimiser = nnlf of truncnorm((mn-loc)/scale, (mx-loc)/scale, loc, scale) on X
        from scipy.stats import truncnorm
        for p in ((loc, sc), (loc + 0.3 * sc, 1.7 * sc)):
            got = float(e['args'][0](p))
            exp = float(truncnorm.nnlf(((float(bd[0][0]) - p[0]) / p[1], (float(bd[0][1]) - p[0]) / p[1], p[0], p[1]), Xa)) if not bad else float('nan')
            if not (got == exp or abs(got - exp) <= 1e-9 * (1 + abs(exp))):
                bad.append(f'objective{p} = {got!r}, generated objective gives {exp!r}')
        if set(e['kwargs']) != {'iprint', 'bounds'} or e['kwargs'].get('iprint') is not False:
            bad.append(f"optimiser keywords {sorted(e['kwargs'])}")
        ctx.obligation(f'corr:truncated-optimiser-call:{rep}', not bad, 'correspondence', '; '.join(bad))
        if bad:
            viol(ctx, 'corr:truncated-objective', 'TruncatedGaussian._fit: ' + '; '.join(bad), spec, {'problems': bad}, 'raise SystemExit(1)\n')
        ctx.case(('truncated-fit', rep), {'family': 'truncated', 'generator': desc, 'n': n, 'kwargs': kw, 'optimum': [loc, sc],
                                          'impl': {k: float(v) for k, v in m._params.items()}}, True)
    # ---------------- GaussianKDE: which scipy objects are built
    kde_terms = [parse_term(T[k]) for k in ('gen_kde_get_model', 'gen_kde_fit_dataset true', 'gen_kde_fit_dataset false')]
    combos = [(None, False, None), ('scott', False, None), ('silverman', True, None), (0.4, False, None), (None, False, 9), ('silverman', False, 30), (0.7, True, 'n')]
    for rep, (bw, wt, ss) in enumerate(combos if quick else combos * 4):
        n = int(rng.choice([8, 15, 40]))
        X = univ.generic_sample(rng, ['normal', 'bimodal', 'skewed'][rep % 3], n)
        kw = {}
        if bw is not None:
            kw['bw_method'] = bw
        if wt:
            kw['weights'] = [float(v) for v in rng.uniform(0.2, 1.0, n)]
        if ss is not None:
            kw['sample_size'] = n if ss == 'n' else ss
        spec = mkspec('GaussianKDE', X, kw, np_seed=int(rng.integers(0, 10 ** 6)))
        r = try_fit(ctx, spec)
        if r is None:
            continue
        m, Xa, log = r
        bad = kde_trace_problems(m, Xa, log, kde_terms, kw.get('sample_size'))
        xq = np.linspace(X.min(), X.max(), 5)
        with univ.Capture() as cap:
            out = m.probability_density(xq)
            ev = [e for e in cap.log if e['fn'] in ('evaluate', 'gaussian_kde', 'resample')]
        if T['gen_kde_pdf_call'].strip('"') != 'self._model.evaluate(X)':
            bad.append('generated pdf call ' + T['gen_kde_pdf_call'])
        # m._model was built under the earlier capture: its evaluate is still the recording wrapper of that capture
        direct = m._model.evaluate(xq)
        if not np.array_equal(np.asarray(out), np.asarray(direct)):
            bad.append('probability_density(X) is not self._model.evaluate(X)')
        ctx.obligation(f'corr:kde-construction:{rep}', not bad, 'correspondence', '; '.join(bad))
        if bad:
            viol(ctx, 'corr:kde-construction', f'GaussianKDE({kw}) does not build the scipy estimator as generated: ' + '; '.join(bad), spec, {'problems': bad},
                 kde_independent_body())
        ctx.case(('kde-construction', rep), {'family': 'kde', 'kwargs': tiny({'X': [], **{k: (v if k != 'weights' else '<weights>') for k, v in kw.items()}}), 'n': n,
                                             'factor': float(m._model.factor)}, True)
    # ---------------- evaluate
    outs = cases.run_vm_cases(ctx, 'Cases_C04_vm', VM_IMPORTS, exprs, per_file=20, hdr=VM_HDR, scope_open='Open Scope Q_scope.')
    for meta, o in zip(vmeta, outs):
        try:
            judge(ctx, meta, o)
        except Exception as ex:
            ctx.obligation(f'corr:{meta[0]}', False, 'correspondence', f'comparison raised {type(ex).__name__}: {ex}; model output {str(o)[:200]}')
    hdr = 'From CopRun Require Import Gen_univ.\nFrom Cop Require Import Model.Univariate.\nFrom Coq Require Import String.'
    for g, err in cases.run_interval_cases(ctx, 'Cases_C04_iv', hdr, goals, per_file=max(2, len(goals) // 24 + 1)):
        mt = g['meta']
        viol(ctx, f"corr:{mt['what']}", f"generated model and implementation disagree on {mt['what']}: implementation {mt['impl']!r}", mt['spec'],
             {'coq_error': err[-300:]}, mt['body'])


def kde_independent_body():
    return ('from scipy.stats import gaussian_kde\nkw = spec["kwargs"]\nw = None if kw.get("weights") is None else np.array(kw["weights"])\n'
            'np.random.seed(spec["np_seed"])\nD = X\n'
            'if kw.get("sample_size"):\n    D = gaussian_kde(X, bw_method=kw.get("bw_method"), weights=w).resample(kw["sample_size"])\n'
            'ref = gaussian_kde(D, bw_method=kw.get("bw_method"), weights=w)\nx = np.linspace(X.min(), X.max(), 7)\n'
            'print(m.probability_density(x), ref.evaluate(x))\nassert np.allclose(m.probability_density(x), ref.evaluate(x), rtol=1e-12, atol=0)\n')


def kde_trace_problems(m, Xa, log, terms, sample_size):
    bad = []
    try:
        ds, trace, attr = expected_trace(terms[0], terms[1], terms[2], m, Xa, sample_size)
    except Exception as ex:
        return [f'cannot interpret the generated terms: {ex}']
    got = [e for e in log if e['fn'] in ('gaussian_kde', 'resample')]
    if len(got) != len(trace):
        return [f'{len(got)} scipy gaussian_kde/resample calls, generated {len(trace)}: {[e["fn"] for e in got]}']
    ctor_objs = []
    for e, t in zip(got, trace):
        if t[0] == 'ctor':
            if e['fn'] != 'gaussian_kde':
                bad.append(f'expected a gaussian_kde construction, got {e["fn"]}')
                continue
            a, k = e['args'], e['kwargs']
            if len(a) != 1 or set(k) != {'bw_method', 'weights'}:
                bad.append(f'gaussian_kde called with {len(a)} positional and keywords {sorted(k)}')
                continue
            if k['bw_method'] is not attr[t[2]] or k['weights'] is not attr[t[3]]:
                bad.append(f'gaussian_kde(bw_method={k["bw_method"]!r}, weights=...) is not ({t[2]}, {t[3]})')
            src = t[1]
            if src == ('input',) and a[0] is not Xa:
                bad.append('the resampling estimator is not built on the fit input')
            if src == ('params',) and a[0] is not m._params['dataset']:
                bad.append("the model is not built on self._params['dataset']")
            ctor_objs.append(e['ret'])
        else:
            if e['fn'] != 'resample' or e['obj'] != f'kde#{t[1]}':
                bad.append(f'expected resample on estimator {t[1]}, got {e["obj"]}.{e["fn"]}')
                continue
            size = e['args'][0] if e['args'] else e['kwargs'].get('size')
            if size != t[2]:
                bad.append(f'resample({size}) instead of resample({t[2]})')
            if m._params['dataset'] != np.asarray(e['ret']).tolist():
                bad.append("self._params['dataset'] is not the resample")
    if ds == ('input',) and m._params['dataset'] != Xa.tolist():
        bad.append("self._params['dataset'] is not the fit input")
    if ctor_objs and m._model is not ctor_objs[-1]:
        bad.append('self._model is not the last constructed estimator')
    return bad


def judge(ctx, meta, o):
    kind, spec, m, aux = meta
    if o is None:
        ctx.obligation(f'corr:{kind}', False, 'correspondence', 'model evaluation failed')
        return
    if kind == 'uniform-fit':
        ml, ms = fracs(o)
        ok = close(m._params['loc'], ml) and close(m._params['scale'], ms) and sorted(m._params) == ['loc', 'scale']
        ctx.obligation('corr:uniform-fit', ok, 'correspondence', f'impl {dict(m._params)} model ({float(ml)!r}, {float(ms)!r})')
        if not ok:
            viol(ctx, 'corr:uniform-fit', f'UniformUnivariate fit stores {dict(m._params)}; generated model: loc = min = {float(ml)!r}, scale = max - min = {float(ms)!r}', spec, {},
                 "print(m._params)\nassert abs(m._params['loc'] - X.min()) <= 1e-12 * (1 + abs(X.min())) and abs(m._params['scale'] - (X.max() - X.min())) <= 1e-12 * (1 + X.max() - X.min())\n")
    elif kind == 'beta-start':
        ml, ms = fracs(o)
        ok = sorted(aux) == ['loc', 'scale'] and close(aux['loc'], ml) and close(aux['scale'], ms)
        ctx.obligation('corr:beta-start', ok, 'correspondence', f'beta.fit keywords {aux} model ({float(ml)!r}, {float(ms)!r})')
        if not ok:
            viol(ctx, 'corr:beta-start-point', f'beta.fit is started from {aux}; generated model: loc = min = {float(ml)!r}, scale = max - min = {float(ms)!r}', spec, {'kwargs': {k: float(v) for k, v in aux.items()}},
                 'import copulas.univariate.beta as bm\nrec = {}\norig = bm.beta\n'
                 'class P:\n    def __getattr__(self, a):\n        return getattr(orig, a)\n    def fit(self, *a, **k):\n        rec.update(k)\n        return orig.fit(*a, **k)\n'
                 'bm.beta = P()\nm = univ.build(spec)\nprint(rec)\n'
                 "assert set(rec) == {'loc', 'scale'} and abs(rec['loc'] - X.min()) <= 1e-12 * (1 + abs(X.min())) and abs(rec['scale'] - (X.max() - X.min())) <= 1e-12 * (1 + X.max() - X.min())\n")
    elif kind == 'truncated':
        e = aux
        mn, mx, a, b = fracs(o)
        bd = e['kwargs'].get('bounds')
        ok_box = True       # the optimiser box is certified separately by Interval against the generated gen_tg_box
        # the local bounds of this fit = the first pair of the optimiser box; the constructor attributes are not modified by fit (F6 fixed)
        kwc = spec['kwargs']
        lb = (bd[0][0], bd[0][1]) if isinstance(bd, (list, tuple)) and len(bd) == 2 and len(bd[0]) == 2 else (float('nan'), float('nan'))
        ok_mm = close(lb[0], mn) and close(lb[1], mx) and m.min == kwc.get('minimum') and m.max == kwc.get('maximum')
        loc, sc = (float(v) for v in e['ret'])
        p = m._params
        ok_par = sorted(p) == ['a', 'b', 'loc', 'scale'] and float(p['loc']) == loc and float(p['scale']) == sc and close(p['a'], a, 1e-11) and close(p['b'], b, 1e-11)
        ctx.obligation('corr:truncated-bounds', ok_mm and ok_box, 'correspondence', f'bounds {bd} attributes {m.min!r},{m.max!r} model {float(mn)!r},{float(mx)!r}')
        ctx.obligation('corr:truncated-params', ok_par, 'correspondence', f'stored {dict(p)} model a={float(a)!r} b={float(b)!r} for optimum ({loc!r},{sc!r})')
        if not (ok_mm and ok_box):
            viol(ctx, 'corr:truncated-bounds', f'TruncatedGaussian({spec["kwargs"]}): bounds used by this fit {lb}, attributes after fit ({m.min!r}, {m.max!r}); generated model: '
                 f'[{float(mn)!r}, {float(mx)!r}], attributes unchanged', spec, {},
                 f"p = m._params\nlo, hi = p['loc'] + p['a'] * p['scale'], p['loc'] + p['b'] * p['scale']\nprint(lo, hi, m.min, m.max)\n"
                 f"assert abs(lo - {float(mn)!r}) <= 1e-9 * (1 + abs(lo)) and abs(hi - {float(mx)!r}) <= 1e-9 * (1 + abs(hi))\n"
                 f"assert m.min == {kwc.get('minimum')!r} and m.max == {kwc.get('maximum')!r}\n")
        if not ok_par:
            viol(ctx, 'corr:truncated-params', f'TruncatedGaussian({spec["kwargs"]}) stores {dict(p)}; generated model for the optimum ({loc!r}, {sc!r}): '
                 f'a = {float(a)!r}, b = {float(b)!r}', spec, {},
                 "p = m._params\nprint(p)\n"
                 f"assert abs(p['loc'] + p['a'] * p['scale'] - {float(mn)!r}) <= 1e-9 * (1 + abs({float(mn)!r})) and abs(p['loc'] + p['b'] * p['scale'] - {float(mx)!r}) <= 1e-9 * (1 + abs({float(mx)!r}))\n")


# ------------------------------------------------------------------------------------------------
#  witness search
# ------------------------------------------------------------------------------------------------
def dkw_eps(n, alpha=1e-9):
    return float(np.sqrt(np.log(2.0 / alpha) / (2.0 * n)))


def sup_distances(m, cdf_true, X):
    Xs = np.sort(X)
    g = np.sort(np.concatenate([Xs, np.linspace(Xs[0], Xs[-1], 400)]))
    F = np.asarray(m.cumulative_distribution(g), dtype=float)
    d_true = float(np.max(np.abs(F - cdf_true(g))))
    Fx = np.asarray(m.cumulative_distribution(Xs), dtype=float)
    n = len(Xs)
    d_emp = float(max(np.max(np.abs(Fx - np.arange(1, n + 1) / n)), np.max(np.abs(Fx - np.arange(0, n) / n))))
    return d_true, d_emp


def kernel_formula(D, bw, w, x):
    """the (weighted) Gaussian kernel estimate written out: sum_i w_i N(x; x_i, h^2), h^2 = factor^2 * weighted unbiased variance"""
    D = np.ravel(np.asarray(D, dtype=float))
    n = len(D)
    w = np.full(n, 1.0 / n) if w is None else np.asarray(w, dtype=float) / np.sum(w)
    neff = 1.0 / np.sum(w ** 2)
    if bw is None or bw == 'scott':
        f = neff ** (-1.0 / 5)
    elif bw == 'silverman':
        f = (neff * 3.0 / 4.0) ** (-1.0 / 5)
    else:
        f = float(bw)
    mu = np.sum(w * D)
    var = np.sum(w * (D - mu) ** 2) / (1.0 - np.sum(w ** 2))
    h = f * np.sqrt(var)
    z = (np.asarray(x, dtype=float)[:, None] - D[None, :]) / h
    return (np.exp(-0.5 * z * z) / (h * np.sqrt(2 * np.pi))).dot(w)


def search(ctx, quick):
    rng = np.random.default_rng(ctx.seed + 44)
    hits = []

    def hit(key, what, spec, extra, body):
        hits.append(key)
        viol(ctx, key, what, spec, extra, body)
    dkw = {}
    sizes = [200, 1000] if quick else [200, 500, 1000, 5000]
    reps = 2 if quick else 8
    # ---------- exact estimators (rational arithmetic), closeness for the closed-form families
    for fam, cls in (('gaussian', 'GaussianUnivariate'), ('uniform', 'UniformUnivariate')):
        for n in sizes + [2000, 300]:
            for rep in range(reps if n in sizes else 1):
                sc = float(10 ** rng.uniform(-2, 3))
                if n == 2000:       # 1e6 + 0.5 z: 2000 distinct values with a tiny relative spread (never a constant column)
                    X, desc, cdf = univ.draw_family(rng, fam, n, loc=1e6, scale=0.5)
                elif n == 300:      # |values| < 1e-8
                    X, desc, cdf = univ.draw_family(rng, fam, n, loc=-2e-9, scale=3e-9 if fam == 'uniform' else 1e-9)
                else:
                    X, desc, cdf = univ.draw_family(rng, fam, n, loc=float(rng.uniform(-1e3, 1e3)) if sc > 1e-2 else 0.0, scale=sc)
                spec = mkspec(cls, X)
                try:
                    m = univ.build(spec)
                except Exception as ex:
                    hit(f'search:fit-raises-{type(ex).__name__}:{fam}', f'{cls}.fit raised {type(ex).__name__}: {str(ex)[:200]} (n={n}, generator {desc})', spec, {}, '')
                    continue
                xs = [Fraction(float(v)) for v in X]
                if fam == 'gaussian':
                    mu = sum(xs) / len(xs)
                    var = sum((v - mu) ** 2 for v in xs) / len(xs)
                    exp = {'loc': float(mu), 'scale': float(var) ** 0.5}
                    # np.std subtracts the float mean: relative error ~ eps * |mean| / std
                    tol = {'loc': 1e-12 * (abs(exp['loc']) + exp['scale']), 'scale': 1e-9 * exp['scale']}
                    body = ("from fractions import Fraction as F\nxs = [F(v) for v in spec['X']]\nmu = sum(xs) / len(xs)\nvar = sum((v - mu) ** 2 for v in xs) / len(xs)\n"
                            "print(m._params, float(mu), float(var) ** 0.5)\n"
                            "assert abs(m._params['loc'] - float(mu)) <= 1e-12 * (abs(float(mu)) + float(var) ** 0.5) and abs(m._params['scale'] - float(var) ** 0.5) <= 1e-9 * float(var) ** 0.5\n")
                else:
                    exp = {'loc': float(min(xs)), 'scale': float(max(xs) - min(xs))}
                    tol = {'loc': 0.0, 'scale': 4e-16 * (abs(float(max(xs))) + abs(float(min(xs))))}
                    body = ("print(m._params, X.min(), X.max() - X.min())\n"
                            "assert m._params['loc'] == X.min() and abs(m._params['scale'] - (X.max() - X.min())) <= 4e-16 * (abs(X.max()) + abs(X.min()))\n")
                p = m._params
                if sorted(p) != ['loc', 'scale'] or any(not abs(float(p[k]) - exp[k]) <= tol[k] for k in exp):
                    hit(f'search:estimator-not-exact:{fam}', f'{cls} fit stores {dict(p)}; the exact estimator is {exp} (n={n}, generator {desc})', spec, {'expected': exp}, body)
                d_true, d_emp = sup_distances(m, cdf, X)
                eps = dkw_eps(n)
                dkw.setdefault(fam, []).append((n, round(d_true, 4), round(d_emp, 4), round(eps, 4)))
                if not (d_true <= eps and d_emp <= 2 * eps):
                    hit(f'search:dkw:{fam}', f'{cls} fitted on n={n} draws of {desc}: sup|F_fit - F_true| = {d_true:.4f}, sup|F_fit - F_emp| = {d_emp:.4f}, DKW band {eps:.4f}', spec,
                        {'d_true': d_true, 'd_emp': d_emp, 'eps': eps}, body)
                if fam == 'uniform':     # support: no mass outside [loc, loc + scale] = [min, max]
                    lo, hi = float(p['loc']), float(p['loc']) + float(p['scale'])
                    c = safe(lambda: m.cumulative_distribution(np.array([lo - 1e-9 * (1 + abs(lo)), X.min(), X.max(), hi + 1e-9 * (1 + abs(hi))])))
                    if isinstance(c, str) or c.tolist() != [0.0, 0.0, 1.0, 1.0]:
                        hit('search:support:uniform', f'UniformUnivariate: cdf just below loc, at min, at max, just above loc+scale = {show(c)} (expected [0,0,1,1])', spec, {},
                            "lo, hi = m._params['loc'], m._params['loc'] + m._params['scale']\nc = m.cumulative_distribution(np.array([lo - 1e-9 * (1 + abs(lo)), X.min(), X.max(), hi + 1e-9 * (1 + abs(hi))]))\nprint(c)\nassert c.tolist() == [0, 0, 1, 1]\n")
                ctx.case(('search', fam, n, rep), None, True)
    # ---------- scipy-MLE families: support of Beta; DKW report-only
    for fam, (cls, ar) in MLE.items():
        for n in sizes[:2]:
            for rep in range(reps):
                X, desc, cdf = univ.draw_family(rng, fam, n)
                spec = mkspec(cls, X)
                try:
                    m = univ.build(spec)
                except Exception as ex:
                    dkw.setdefault(fam, []).append((n, f'fit raised {type(ex).__name__}'))
                    hit(f'search:fit-raises-{type(ex).__name__}:{fam}', f'{cls}.fit raised {type(ex).__name__}: {str(ex)[:200]} on n={n} draws of {desc}', spec, {}, '')
                    continue
                # the stored parameters are scipy's MLE for that family (scipy's own naming: shapes, loc, scale), started as documented
                import scipy.stats as st
                dist = getattr(st, SCIPY_NAME[fam])
                start = {'loc': float(X.min()), 'scale': float(X.max() - X.min())} if fam == 'beta' else {}
                ref = dict(zip([t.strip() for t in dist.shapes.split(',')] + ['loc', 'scale'], (float(v) for v in dist.fit(X, **start))))
                got = {k: float(v) for k, v in m._params.items()}
                if sorted(got) != sorted(ref) or any(not abs(got[k] - ref[k]) <= 1e-9 * (1 + abs(ref[k])) for k in ref):
                    hit(f'search:not-scipy-mle:{fam}', f'{cls} fit stores {got}; scipy.stats.{SCIPY_NAME[fam]}.fit(X{", loc=min, scale=max-min" if start else ""}) gives {ref} '
                        f'(n={n}, generator {desc})', spec, {'expected': ref},
                        f"import scipy.stats as st\nd = st.{SCIPY_NAME[fam]}\nr = d.fit(X{', loc=X.min(), scale=X.max() - X.min()' if start else ''})\n"
                        "exp = dict(zip([t.strip() for t in d.shapes.split(',')] + ['loc', 'scale'], r))\nprint(m._params, exp)\n"
                        "assert set(m._params) == set(exp) and all(abs(m._params[k] - exp[k]) <= 1e-9 * (1 + abs(exp[k])) for k in exp)\n")
                d_true, d_emp = sup_distances(m, cdf, X)
                eps = dkw_eps(n)
                dkw.setdefault(fam, []).append((n, round(d_true, 4), round(d_emp, 4), round(eps, 4), bool(d_true <= eps)))
                if fam == 'beta':
                    p = m._params
                    lo, hi = float(p['loc']), float(p['loc']) + float(p['scale'])
                    d = 1e-9 * (1 + abs(lo) + abs(hi))
                    c = safe(lambda: m.cumulative_distribution(np.array([lo - d, hi + d])))
                    pd = safe(lambda: m.probability_density(np.array([lo - d, hi + d])))
                    inside = bool(X.min() >= lo - d and X.max() <= hi + d)
                    if isinstance(c, str) or isinstance(pd, str) or c.tolist() != [0.0, 1.0] or pd.tolist() != [0.0, 0.0] or not inside:
                        hit('search:support:beta', f'BetaUnivariate: fitted support [{lo!r}, {hi!r}], data range [{X.min()!r}, {X.max()!r}], cdf outside = {show(c)}, pdf outside = {show(pd)}',
                            spec, {}, "p = m._params\nlo, hi = p['loc'], p['loc'] + p['scale']\nd = 1e-9 * (1 + abs(lo) + abs(hi))\n"
                                      "c = m.cumulative_distribution(np.array([lo - d, hi + d]))\nprint(c, lo, hi, X.min(), X.max())\n"
                                      "assert c.tolist() == [0, 1] and X.min() >= lo - d and X.max() <= hi + d\n")
                ctx.case(('search', fam, n, rep), None, True)
    # ---------- TruncatedGaussian: user bounds honoured, support, closeness (own optimiser)
    designed = [('F31-witness', (-2.0, 2.0), 3.0, 0.01, 500, 11), ('F32-witness', (1.5, 5.0), 10.0, 2.0, 5000, 1)]
    rand = []
    for n in sizes:
        for rep in range(reps):
            rand.append((f'random:{n}:{rep}', (float(rng.uniform(-2.5, -0.5)), float(rng.uniform(0.5, 2.5))), float(rng.uniform(-50, 50)), float(10 ** rng.uniform(0, 3)), n,
                         int(rng.integers(0, 2 ** 31 - 1))))
    from scipy import stats
    for lab, (a, b), loc, sc, n, sd in designed + rand:
        d = stats.truncnorm(a, b, loc=loc, scale=sc)
        X = np.asarray(d.rvs(size=n, random_state=np.random.RandomState(sd)), dtype=float)
        for given in (False, True):
            kw = {'minimum': loc + a * sc, 'maximum': loc + b * sc} if given else {}
            spec = mkspec('TruncatedGaussian', X, kw)
            try:
                m = univ.build(spec)
            except Exception as ex:
                hit(f'search:fit-raises-{type(ex).__name__}:truncated', f'TruncatedGaussian({kw}).fit raised {type(ex).__name__}: {str(ex)[:200]}', spec, {}, '')
                continue
            p = {k: float(v) for k, v in m._params.items()}
            exp_mn = kw.get('minimum', float(X.min()) - univ.EPS32)
            exp_mx = kw.get('maximum', float(X.max()) + univ.EPS32)
            mn, mx = float(exp_mn), float(exp_mx)
            slo, shi = p['loc'] + p['a'] * p['scale'], p['loc'] + p['b'] * p['scale']
            tolb = 1e-9 * (1 + abs(mn) + abs(mx))
            if not given and lab.endswith(':0'):      # the bounds belong to ONE fit: a second fit on other data gets its own (F6)
                X2 = 10.0 * X + 3.0
                m.fit(X2)
                p2 = {k: float(v) for k, v in m._params.items()}
                lo2, hi2 = p2['loc'] + p2['a'] * p2['scale'], p2['loc'] + p2['b'] * p2['scale']
                t2 = 1e-9 * (1 + abs(X2.min()) + abs(X2.max()))
                if not (abs(lo2 - (X2.min() - univ.EPS32)) <= t2 and abs(hi2 - (X2.max() + univ.EPS32)) <= t2 and m.min is None and m.max is None):
                    hit('search:bounds-remembered-across-fits:truncated', f'TruncatedGaussian() fitted on X and then on 10 X + 3: support [{lo2!r}, {hi2!r}] instead of '
                        f'[{X2.min() - univ.EPS32!r}, {X2.max() + univ.EPS32!r}] (min/max attributes {m.min!r}, {m.max!r})', spec, {},
                        "X2 = 10.0 * X + 3.0\nm.fit(X2)\np = m._params\nlo, hi = p['loc'] + p['a'] * p['scale'], p['loc'] + p['b'] * p['scale']\nprint(lo, hi, X2.min(), X2.max())\n"
                        "assert abs(lo - X2.min()) <= 1e-6 * (1 + abs(lo)) and abs(hi - X2.max()) <= 1e-6 * (1 + abs(hi))\n")
                m = univ.build(spec)
            body_sup = ("p = m._params\nlo, hi = p['loc'] + p['a'] * p['scale'], p['loc'] + p['b'] * p['scale']\n"
                        f"exp = ({exp_mn!r}, {exp_mx!r})\nprint((lo, hi), exp)\nt = 1e-9 * (1 + abs(exp[0]) + abs(exp[1]))\n"
                        "assert abs(lo - exp[0]) <= t and abs(hi - exp[1]) <= t\n"
                        "c = m.cumulative_distribution(np.array([exp[0] - 10 * t, exp[1] + 10 * t]))\nprint(c)\nassert c.tolist() == [0, 1]\n")
            if p['scale'] > 0 and np.isfinite(list(p.values())).all():
                c = safe(lambda: m.cumulative_distribution(np.array([exp_mn - 10 * tolb, exp_mx + 10 * tolb])))
                if not (abs(slo - exp_mn) <= tolb and abs(shi - exp_mx) <= tolb) or isinstance(c, str) or c.tolist() != [0.0, 1.0]:
                    hit('search:support:truncated' + (':user-bounds' if given else ''),
                        f'TruncatedGaussian({kw}): support of the stored parameters [{slo!r}, {shi!r}], expected [{exp_mn!r}, {exp_mx!r}]; cdf outside = {show(c)}', spec, {'params': p}, body_sup)
                pp = safe(lambda: m.percent_point(np.array([0.0, 1.0])))
                np.random.seed(7)
                sm = safe(lambda: m.sample(200))
                if isinstance(pp, str) or isinstance(sm, str) or not (pp[0] >= exp_mn - tolb and pp[1] <= exp_mx + tolb and sm.min() >= exp_mn - tolb and sm.max() <= exp_mx + tolb):
                    hit('search:bounds-not-honoured:truncated', f'TruncatedGaussian({kw}): percent_point([0,1]) = {show(pp)}, sample range outside [{exp_mn!r}, {exp_mx!r}]', spec, {'params': p},
                        f"np.random.seed(7)\ns = m.sample(200)\nq = m.percent_point(np.array([0.0, 1.0]))\nprint(q, s.min(), s.max())\nt = {tolb!r}\n"
                        f"assert q[0] >= {exp_mn!r} - t and q[1] <= {exp_mx!r} + t and s.min() >= {exp_mn!r} - t and s.max() <= {exp_mx!r} + t\n")
            d_true, d_emp = sup_distances(m, d.cdf, X)
            eps = dkw_eps(n)
            dkw.setdefault('truncated', []).append((lab, given, n, round(d_true, 4), round(d_emp, 4), round(eps, 4)))
            if not (d_true <= eps and d_emp <= 2 * eps):
                cap = (mx - mn) ** 2
                if p['scale'] >= cap * (1 - 1e-6) and (mx - mn) < 1:
                    key = 'F31:truncated-scale-capped-by-squared-range'
                    why = (f'the optimiser bound scale <= (max-min)^2 = {cap!r} is below the generating scale {sc!r} because the data range {mx - mn!r} is < 1; '
                           f'fitted scale = {p["scale"]!r} sits on the bound')
                elif (abs(p['a']) <= 1e-6 and a > 0) or (abs(p['b']) <= 1e-6 and b < 0):
                    key = 'F32:truncated-loc-box-excludes-mode-outside-support'
                    why = (f'the optimiser bound loc in [min, max] excludes the generating loc {loc!r} (the mode lies outside the truncation interval, a = {a}, b = {b}); '
                           f'fitted loc = {p["loc"]!r} sits on the bound')
                else:
                    key = 'search:dkw:truncated'
                    why = 'no bound is active'
                hit(key, f'TruncatedGaussian({kw}) fitted on n={n} draws of truncnorm(a={a}, b={b}, loc={loc!r}, scale={sc!r}) [random_state={sd}]: sup|F_fit - F_true| = {d_true:.4f} '
                    f'exceeds the DKW band {eps:.4f} (level 1e-9); {why}', spec, {'params': p, 'd_true': d_true, 'd_emp': d_emp, 'eps': eps},
                    f"from scipy import stats\nd = stats.truncnorm({a!r}, {b!r}, loc={loc!r}, scale={sc!r})\ng = np.sort(np.concatenate([X, np.linspace(X.min(), X.max(), 400)]))\n"
                    f"D = float(np.max(np.abs(m.cumulative_distribution(g) - d.cdf(g))))\nprint(m._params, D)\nassert D <= {eps!r}\n")
            ctx.case(('search', 'truncated', lab, given), None, True)
    # ---------- KDE density = independently built scipy estimator = explicit kernel formula
    from scipy.stats import gaussian_kde
    combos = [(None, False, None), ('scott', True, None), ('silverman', False, None), ('silverman', True, None), (0.25, False, None), (1.0, True, None),
              (None, False, 50), ('silverman', False, 20), (0.6, False, 35), (None, True, 'n')]
    for rep, (bw, wt, ss) in enumerate(combos if quick else combos * 5):
        n = int(rng.choice([10, 60, 200]))
        X = univ.generic_sample(rng, ['bimodal', 'normal', 'skewed', 'ties'][rep % 4], n)
        kw = {}
        if bw is not None:
            kw['bw_method'] = bw
        if wt:
            kw['weights'] = [float(v) for v in rng.uniform(0.2, 1.0, len(X))]
        if ss is not None:
            kw['sample_size'] = len(X) if ss == 'n' else ss
        spec = mkspec('GaussianKDE', X, kw, np_seed=int(rng.integers(0, 10 ** 6)))
        try:
            m = univ.build(spec)
        except Exception as ex:
            hit(f'search:kde-fit-raises-{type(ex).__name__}', f'GaussianKDE({kw}).fit raised {type(ex).__name__}: {ex}', spec, {}, '')
            continue
        w = None if not wt else np.array(kw['weights'])
        np.random.seed(spec['np_seed'])
        D = np.asarray(X, dtype=float)
        if kw.get('sample_size'):
            D = gaussian_kde(D, bw_method=bw, weights=w).resample(kw['sample_size'])
        ref = gaussian_kde(D, bw_method=bw, weights=w)
        xq = np.linspace(X.min() - np.std(X), X.max() + np.std(X), 41)
        got = safe(lambda: m.probability_density(xq))
        want = ref.evaluate(xq)
        formula = kernel_formula(D, bw, w, xq)
        ok_ref = not isinstance(got, str) and got.shape == want.shape and np.allclose(got, want, rtol=1e-12, atol=0)
        ok_formula = not isinstance(got, str) and got.shape == formula.shape and np.allclose(got, formula, rtol=1e-9, atol=1e-300)
        ok_ds = np.array_equal(np.ravel(np.asarray(m._params['dataset'], dtype=float)), np.ravel(D))
        if not (ok_ref and ok_formula and ok_ds):
            hit('search:kde-not-kernel-estimate', f'GaussianKDE({ {k: (v if k != "weights" else "<weights>") for k, v in kw.items()} }): probability_density differs from the '
                f'(weighted) Gaussian kernel estimate of the ' + ('replayed resample' if kw.get('sample_size') else 'training data') +
                f' (independent scipy estimator: {ok_ref}, explicit formula: {ok_formula}, dataset: {ok_ds}); first values {show(got)[:3] if not isinstance(got, str) else got} vs {want[:3].tolist()}',
                spec, {}, kde_independent_body())
        ctx.case(('search', 'kde', rep), None, True)
    ctx.extra['dkw_distances'] = {k: v[:12] for k, v in dkw.items()}
    within = {k: [bool(r[-1]) for r in v if isinstance(r[-1], bool)] for k, v in dkw.items() if k in MLE}
    ctx.extra['dkw_scipy_mle_within_band'] = {k: f'{sum(v)}/{len(v)}' for k, v in within.items()}
    ctx.extra['witness_search_hits'] = sorted(set(hits))


def run(ctx):
    """the check proper, then the history / edge-value oracle added after a missed seeded change (always)"""
    from .. import extra_oracles
    try:
        _run(ctx)
    finally:
        try:
            extra_oracles.truncated_zero_bound(ctx)
            from .. import extra_oracles2
            extra_oracles2.truncated_infinite_bound(ctx)
            extra_oracles2.kde_copy(ctx)
            from .. import extra_oracles3
            extra_oracles3.kde_late_binding(ctx)
            extra_oracles3.truncated_bound_kinds(ctx)
            extra_oracles.univariate_constant_history(ctx)
            extra_oracles2.retention(ctx, ['GaussianKDE', "GaussianKDE(bw_method='silverman')", 'TruncatedGaussian', 'GaussianUnivariate', 'UniformUnivariate'])
        except Exception as ex:
            ctx.obligation('oracle:extra:raised', False, 'correspondence', repr(ex))
            ctx.violation('oracle:extra:raised:' + type(ex).__name__, 'extra oracle raised ' + repr(ex), {'repro': '# see tools/vf/extra_oracles.py'})
