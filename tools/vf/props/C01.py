"""C01 — Gaussian-copula synthetic data keeps schema, marginals and dependence."""
import math
import warnings
from fractions import Fraction

import numpy as np

from .. import cases
from .. import gmscores as gm

VM_HDR = 'From Coq Require Import List Bool Arith ZArith.\n{imports}\nImport ListNotations.\n'
VMQ_HDR = 'From Coq Require Import List Bool ZArith QArith.\n{imports}\nImport ListNotations.\n'
ALPHA_EACH = 1e-12          # per statistical test of the witness search; at most 1000 tests per run => <= 1e-9 per run

# evaluation instance over the hand-written model, used ONLY when the generated definitions no longer compile
FALLBACK = '''From Coq Require Import List Bool Arith ZArith QArith.
From Cop Require Import Model.Concord.
Import ListNotations.
Definition tok_gmodel (is_fitted : bool) (cols : list Z) : gmodel Z Z (nat * Z) nat :=
  {| g_fitted := is_fitted; g_columns := cols;
     g_univariates := map (fun j u => (j, u)) (seq 0 (length cols)); g_correlation := 7%nat |}.
Definition tok_draw (d_expected : nat) (Zs : list (list Z)) (d : nat) (c : nat) (n : nat) : list (list Z) :=
  if (d =? d_expected)%nat && (c =? 7)%nat && (n =? length Zs)%nat then Zs else [].
Definition c01_sample (b : bool) (cols : list Z) (Zs : list (list Z)) (n : nat) :=
  sample Z Z Z (nat * Z) nat Z.eqb (fun z => z) (tok_draw (length cols) Zs) (tok_gmodel b cols) n.
Definition c01_fit (X : list (Z * Z)) :=
  (map fst X, map (fun it : Z * Z => (snd it, (fst it + 1000)%Z, fst it)) X).
Definition show_counts (k : kendall_counts) : list Z := [@con k; @dis k; n0 k; n1 k; n2 k].
Definition c01_kendall (xs ys : list Q) := show_counts (kendallQ xs ys).
'''


# ------------------------------------------------------------------------------------------------------
def chosen_Z(rng, n, d, style):
    """an (n, d) matrix standing for the draw: per column distinct, well separated values in [-2.8, 2.8]
    (style 'ties': some repeated values; 'wide': |z| up to 6)"""
    Z = np.empty((n, d))
    base = None
    for k in range(d):
        grid = -2.8 + 5.6 * (np.arange(n) + rng.uniform(0.25, 0.75, n)) / max(n, 1)
        if style == 'wide':
            grid = grid * (6.0 / 2.8)
        if style == 'ties' and n >= 3:
            grid[1::3] = grid[0::3][: len(grid[1::3])]
        perm = rng.permutation(n)
        if k == 1 and base is not None and rng.random() < 0.5:
            perm = base                                     # comonotone with column 0
        elif k == 2 and base is not None and rng.random() < 0.5:
            perm = base[::-1]
        if k == 0:
            base = perm
        col = np.empty(n)
        col[perm] = grid
        Z[:, k] = col
    return Z


def build_cases(seed, tier):
    quick = tier == 'quick'
    rng = np.random.default_rng(seed + 101)
    zoo = gm.model_zoo(rng, quick)
    sizes = [1, 2, 3, 5, 8, 13] if quick else [1, 2, 3, 5, 8, 13, 40, 120]
    cs = []
    for mi, (name, m, df, info) in enumerate(zoo):
        d = info['d']
        for si, n in enumerate(sizes):
            style = ['plain', 'ties', 'wide'][(si + mi) % 3]
            cs.append({'model': name, 'mi': mi, 'n': n, 'style': style, 'Z': chosen_Z(rng, n, d, style), 'fitted': True})
        if mi < 2:
            cs.append({'model': name, 'mi': mi, 'n': 3, 'style': 'unfitted', 'Z': chosen_Z(rng, 3, d, 'plain'), 'fitted': False})
    return zoo, cs


def run_sample(m, n, Z):
    """m.sample(n) with np.random.multivariate_normal replaced by a recorder returning Z"""
    rec = []

    def recorder(mean, cov, size=None, *args, **kw):
        rec.append({'mean': np.array(mean, dtype=float, copy=True), 'cov': np.array(cov, dtype=float, copy=True), 'size': size,
                    'extra': (args, dict(kw))})
        return np.array(Z, dtype=float, copy=True)
    with gm.Patched(np.random, 'multivariate_normal', recorder):
        with warnings.catch_warnings():
            warnings.simplefilter('ignore')
            with np.errstate(all='ignore'):
                try:
                    res = ('ok', m.sample(n))
                except Exception as ex:
                    res = ('err', type(ex).__name__, str(ex)[:120])
    return res, rec


def kendall_counts(x, y):
    """[con, dis, n0, n1, n2] by the definition (exact comparisons of floats)"""
    x, y = np.asarray(x, float), np.asarray(y, float)
    n = len(x)
    iu = np.triu_indices(n, 1)
    sx = np.sign(x[:, None] - x[None, :])[iu]
    sy = np.sign(y[:, None] - y[None, :])[iu]
    con = int(np.sum(sx * sy > 0))
    dis = int(np.sum(sx * sy < 0))
    return [con, dis, len(sx), int(np.sum(sx == 0)), int(np.sum(sy == 0))]


def same_values(got, exp):
    """equal up to 1e-12 on finite cells, identical on infinite ones (GaussianKDE.percent_point returns +-inf outside
    (EPSILON, 1 - EPSILON))"""
    got, exp = np.asarray(got, float), np.asarray(exp, float)
    if got.shape != exp.shape or not np.array_equal(np.isfinite(got), np.isfinite(exp)):
        return False
    fin = np.isfinite(got)
    return bool(np.array_equal(got[~fin], exp[~fin]) and np.allclose(got[fin], exp[fin], rtol=1e-12, atol=1e-12))


def solver_based(u):
    """marginals whose percent_point is a vectorised numeric root finder: equal inputs in different lanes may differ in the
    last bits, so TIES of Z are not preserved exactly (strict order is)"""
    return type(getattr(u, '_instance', None) or u).__name__ == 'GaussianKDE'


def strictly_increasing_on(u, zcol):
    """precondition of the rank-dependence theorem (a C03 property of the marginal, evaluated on the univariate itself,
    not through sample): percent_point o Phi is strictly increasing on the distinct values of the Z column"""
    from scipy.stats import norm
    z = np.unique(np.asarray(zcol, float))
    with np.errstate(all='ignore'):
        x = np.asarray(u.percent_point(norm.cdf(z)), dtype=float)
    return bool(np.all(np.isfinite(x)) and np.all(np.diff(x) > 0))


def marginal_consistent(u):
    """preconditions of the marginal-law statement (C03 laws of the fitted marginal): percent_point finite and strictly
    increasing on a grid of levels and cdf(percent_point(q)) = q"""
    q = np.array([1e-3, 1e-2, 0.1, 0.25, 0.5, 0.75, 0.9, 0.99, 0.999])
    with np.errstate(all='ignore'), warnings.catch_warnings():
        warnings.simplefilter('ignore')
        try:
            x = np.asarray(u.percent_point(q), dtype=float)
            back = np.asarray(u.cdf(x), dtype=float)
        except Exception:
            return False
    return bool(np.all(np.isfinite(x)) and np.all(np.diff(x) > 0) and np.all(np.abs(back - q) <= 1e-6))


def kendall_pairs(m, style, Z):
    """index pairs of non-constant columns on which the exact equality of concordance counts is checked"""
    if style == 'wide':
        return []
    free = [j for j, u in enumerate(m.univariates) if not gm.is_constant_univariate(u)
            and not (style == 'ties' and solver_based(u)) and strictly_increasing_on(u, Z[:, j])]
    return [(free[a], free[b]) for a in range(len(free)) for b in range(a + 1, len(free))]


def qlit(v):
    f = Fraction(float(v))
    return f'({f.numerator} # {f.denominator})' if f >= 0 else f'(-({-f.numerator} # {f.denominator}))'


def parse_sample(term):
    if isinstance(term, tuple) and term[0] == '@' and term[1] == 'SErr':
        return ('err', str(term[2][0]))
    if not (isinstance(term, tuple) and term[0] == '@' and term[1] == 'SOk'):
        raise ValueError(f'unexpected model output {term!r}')
    return ('ok', [(c[1], [(x[1], x[2]) for x in c[2]]) for c in term[2][0]])


def compare_sample(m, df, case, model, res, rec):
    from scipy.stats import norm
    bad = []
    L = list(df.columns)
    d, n, Z = len(L), case['n'], case['Z']
    if model[0] == 'err':
        if res[0] != 'err' or res[1] != model[1]:
            bad.append(('outcome', f'model: raises {model[1]}; implementation: {res[:2]}'))
        return bad
    if res[0] != 'ok':
        return [('outcome', f'model: returns a table; implementation raises {res[1]}: {res[2]}')]
    out = res[1]
    if len(rec) != 1:
        return [('draw-calls', f'expected one np.random.multivariate_normal call, observed {len(rec)}')]
    r = rec[0]
    if r['mean'].shape != (d,) or np.any(r['mean'] != 0):
        bad.append(('draw-mean', f'mean argument {r["mean"].tolist()} is not zeros({d})'))
    if r['cov'].shape != (d, d) or not np.array_equal(r['cov'], np.asarray(m.correlation, float)):
        bad.append(('draw-cov', 'covariance argument is not the fitted correlation'))
    if r['size'] != n or r['extra'] != ((), {}):
        bad.append(('draw-size', f'size argument {r["size"]!r} (extra {r["extra"]}) is not num_rows={n}'))
    cols = model[1]
    lid = {10 * (j + 1): lab for j, lab in enumerate(L)}
    want_hdr = [lid[c[0]] for c in cols]
    if list(out.columns) != want_hdr:
        bad.append(('header', f'model: columns {want_hdr}; implementation: {list(out.columns)}'))
        return bad
    if len(out) != n:
        bad.append(('rows', f'model: {n} rows; implementation: {len(out)}'))
        return bad
    for p, (c, toks) in enumerate(cols):
        js = {t[0] for t in toks}
        if len(toks) != n or len(js) > 1:
            bad.append(('model', f'column {p}: malformed prediction'))
            continue
        got = out.iloc[:, p].to_numpy(dtype=float)
        if n == 0:
            continue
        j = js.pop()
        zs = np.array([Z[t[1] // 100, t[1] % 100] for t in toks])
        with np.errstate(all='ignore'):
            exp = np.asarray(m.univariates[j].percent_point(norm.cdf(zs)), dtype=float)
        if np.any(np.isnan(got)):
            bad.append(('missing-value', f'column {want_hdr[p]!r} contains {int(np.sum(np.isnan(got)))} NaN cell(s)'))
        elif not same_values(got, exp):
            i = int(np.argmax(~np.isclose(got, exp, rtol=1e-12, atol=1e-12)))
            bad.append(('values', f'column {want_hdr[p]!r} row {i}: model says percent_point_{j}(Phi(Z[{toks[i][1] // 100}][{toks[i][1] % 100}] = {zs[i]!r})) '
                                  f'= {exp[i]!r}; implementation returned {got[i]!r}'))
        if gm.is_constant_univariate(m.univariates[j]):
            cval = df[L[j]].iloc[0]
            if np.any(got != cval):
                bad.append(('constant-column', f'constant training column {L[j]!r} = {cval!r} is not reproduced exactly: {got[:3].tolist()}'))
    return bad


def describe(case):
    return {'model': case['model'], 'num_rows': case['n'], 'Z_style': case['style'], 'Z_first_row': [float(v) for v in case['Z'][0]] if case['n'] else []}


def repro_snippet(seed, tier, case):
    return ('# regenerates the fitted model and the chosen draw Z deterministically, runs sample(n) with np.random.multivariate_normal\n'
            '# returning Z and checks schema / column j = ppf_j(Phi(Z_j)) / constants / exact Kendall counts (exit 1 iff violated)\n'
            'import sys\nfrom vf.props.C01 import replay\n'
            f'sys.exit(replay({seed}, {tier!r}, {case["model"]!r}, {case["n"]}, {case["style"]!r}))\n')


def reference_check(m, df, case, res, rec):
    """the same comparison against a Python reference of the model (used by replays): list of problems"""
    from scipy.stats import norm
    L = list(df.columns)
    n, Z = case['n'], case['Z']
    if not case['fitted']:
        return [] if (res[0] == 'err' and res[1] == 'NotFittedError') else ['unfitted model did not raise NotFittedError']
    if res[0] != 'ok':
        return [f'sample raised {res[1]}: {res[2]}']
    out = res[1]
    probs = []
    if list(out.columns) != L or len(out) != n:
        probs.append(f'schema: columns {list(out.columns)} rows {len(out)}; expected {L} x {n}')
        return probs
    if len(rec) != 1 or np.any(rec[0]['mean'] != 0) or rec[0]['mean'].shape != (len(L),) or rec[0]['size'] != n \
            or not np.array_equal(rec[0]['cov'], np.asarray(m.correlation, float)):
        probs.append('np.random.multivariate_normal was not called with (zeros(d), correlation, size=n)')
    for j, (lab, u) in enumerate(zip(L, m.univariates)):
        got = out[lab].to_numpy(dtype=float)
        with np.errstate(all='ignore'):
            exp = np.asarray(u.percent_point(norm.cdf(Z[:, j])), dtype=float)
        if np.any(np.isnan(got)):
            probs.append(f'column {lab!r} has missing values (NaN)')
        elif not same_values(got, exp):
            probs.append(f'column {lab!r} != percent_point_{j}(Phi(Z[:, {j}])): {got[:3].tolist()} vs {exp[:3].tolist()}')
        if gm.is_constant_univariate(u) and np.any(got != df[lab].iloc[0]):
            probs.append(f'constant column {lab!r} not reproduced')
    for i, j in kendall_pairs(m, case['style'], Z):
        if kendall_counts(out[L[i]], out[L[j]]) != kendall_counts(Z[:, i], Z[:, j]):
            probs.append(f'Kendall counts of output columns {L[i]!r},{L[j]!r} differ from those of Z columns {i},{j}')
    return probs


def replay(seed, tier, model, n, style):
    zoo, cs = build_cases(seed, tier)
    case = next(c for c in cs if (c['model'], c['n'], c['style']) == (model, n, style))
    name, m, df, info = zoo[case['mi']]
    if not case['fitted']:
        from copulas.multivariate import GaussianMultivariate
        m = GaussianMultivariate()
    res, rec = run_sample(m, case['n'], case['Z'])
    print('case', describe(case))
    print('implementation:', res[0], res[1] if res[0] == 'err' else '\n' + str(res[1].head(5)))
    probs = reference_check(m, df, case, res, rec)
    for p in probs:
        print('PROBLEM:', p)
    return 1 if probs else 0


# ------------------------------------------------------------------------------------------------------
def fit_pairing(ctx, gen):
    """fit with GaussianMultivariate._fit_column recorded: which column, which configured distribution, which label,
    and which returned object ends up at which position of self.univariates; compared with the generated _fit_columns"""
    import pandas as pd
    from copulas import univariate as U
    from copulas.multivariate import GaussianMultivariate
    rng = np.random.default_rng(ctx.seed + 77)
    configs = [('class', lambda L: U.GaussianUnivariate), ('default', lambda L: None), ('name', lambda L: 'copulas.univariate.uniform.UniformUnivariate'),
               ('instance', lambda L: U.GaussianKDE()), ('dict', lambda L: {L[0]: U.UniformUnivariate, L[-1]: U.GaussianUnivariate})]
    runs, exprs = [], []
    for ci, (cname, mk) in enumerate(configs):
        d = 2 + (ci + ctx.seed) % 5
        order = [int(x) for x in rng.permutation(d)]
        L = [f'c{k}' for k in order]                       # header deliberately not sorted
        df = gm.make_table(rng, d, 25, const_cols=(1,) if ci % 2 else (), labels=L)
        dist = mk(L)
        m = GaussianMultivariate() if dist is None else GaussianMultivariate(distribution=dist)
        rec = []
        orig = m._fit_column

        def spy(column, distribution, column_name, orig=orig, rec=rec):
            u = orig(column, distribution, column_name)
            rec.append((column_name, np.asarray(column, float).copy(), distribution, u))
            return u
        with gm.Patched(m, '_fit_column', spy):
            with warnings.catch_warnings():
                warnings.simplefilter('ignore')
                st = np.random.get_state()
                try:
                    m.fit(df)
                finally:
                    np.random.set_state(st)
        runs.append((cname, m, df, L, rec))
        exprs.append('c01_fit ' + gm.coq_list(f'({10 * (k + 1)}, {110 + k})' for k in range(d)))
    outs = cases.run_vm_cases(ctx, 'Cases_C01_fit', f'From CopRun Require Import {gen}.', exprs, hdr=VM_HDR, scope_open='Open Scope Z_scope.')
    for (cname, m, df, L, rec), o in zip(runs, outs):
        d = len(L)
        ok, why = True, ''
        try:
            t = gm.parse_term(o)
            cols, univs = t[1], t[2]
            want_cols = [L[c // 10 - 1] for c in cols]
            if list(m.columns) != want_cols or len(m.univariates) != len(univs):
                ok, why = False, f'model: self.columns = {want_cols}, {len(univs)} univariates; implementation: {list(m.columns)}, {len(m.univariates)}'
            else:
                for j, u in enumerate(univs):
                    col_id, dist_id, lab_id = u[1], u[2], u[3]
                    k = col_id - 110
                    hits = [r for r in rec if r[3] is m.univariates[j]]
                    if len(hits) != 1:
                        ok, why = False, f'self.univariates[{j}] is not the object returned by exactly one _fit_column call'
                        break
                    cn, cdata, cdist, _ = hits[0]
                    if cn != L[lab_id // 10 - 1] or not np.array_equal(cdata, df[L[k]].to_numpy(float)) or dist_id != lab_id + 1000 \
                            or cdist is not m._get_distribution_for_column(cn) and cdist != m._get_distribution_for_column(cn):
                        ok, why = False, (f'self.univariates[{j}]: model says fitted on column {L[k]!r} with the distribution configured for '
                                          f'{L[lab_id // 10 - 1]!r}; implementation fitted it on {cn!r}')
                        break
        except Exception as ex:
            ok, why = False, f'{type(ex).__name__}: {ex} (model output {o!r})'
        ctx.obligation(f'corr:fit-pairing:{cname}', ok, 'correspondence', why)
        ctx.case(('fit-pairing', cname), {'config': cname, 'header': L, 'columns_after_fit': [str(c) for c in m.columns]}, nontrivial=True)
        if not ok:
            ctx.violation('corr:fit-pairing', f'fit(distribution config {cname}) on header {L}: {why}',
                          {'config': cname, 'header': L, 'table': df.to_numpy().tolist(), 'why': why,
                           'repro': ('import numpy as np, pandas as pd, sys\nfrom copulas.multivariate import GaussianMultivariate\n'
                                     f'df = pd.DataFrame(np.array({df.to_numpy().tolist()!r}), columns={L!r})\n'
                                     'm = GaussianMultivariate(); m.fit(df)\nprint(m.columns)\n'
                                     'ok = list(m.columns) == list(df.columns) and len(m.univariates) == df.shape[1]\n'
                                     'sys.exit(0 if ok else 1)\n')})


# ------------------------------------------------------------------------------------------------------
def witness(ctx, zoo, seed, quick):
    """real draws (nothing patched): schema, no missing values, constant columns, DKW band of every sampled column around
    the fitted marginal CDF, Hoeffding band of Kendall's tau around (2/pi) asin(rho); per-test false-alarm level 1e-12"""
    from scipy.stats import kendalltau
    N = 2000 if quick else 20000
    eps_dkw = math.sqrt(math.log(2 / ALPHA_EACH) / (2 * N))                 # P(sup|F_N - F| > eps) <= 2 exp(-2 N eps^2)
    t_hoef = math.sqrt(2 * math.log(2 / ALPHA_EACH) / (N // 2))            # U-statistic, kernel in [-1,1]: P(|tau^-tau|>=t) <= 2exp(-floor(N/2) t^2/2)
    tests = 0
    hits = 0
    skipped = []

    def viol(key, what, name, extra=None):
        nonlocal hits
        hits += 1
        ctx.violation(key, what, {'model': name, **(extra or {}),
                                  'repro': ('import sys\nfrom vf.props.C01 import replay_witness\n'
                                            f'sys.exit(replay_witness({seed}, {"quick" if quick else "thorough"!r}, {name!r}))\n')})
    for name, m, df, info in zoo:
        L = list(df.columns)
        st = np.random.get_state()
        try:
            np.random.seed(1000 + seed)
            with warnings.catch_warnings():
                warnings.simplefilter('ignore')
                with np.errstate(all='ignore'):
                    try:
                        S = m.sample(N)
                    except Exception as ex:
                        viol('witness:sample-raises', f'{name}: sample({N}) raised {type(ex).__name__}: {ex}', name)
                        continue
        finally:
            np.random.set_state(st)
        if list(S.columns) != L or len(S) != N:
            viol('witness:schema', f'{name}: sample({N}) has columns {list(S.columns)} and {len(S)} rows; training header {L}', name)
            continue
        A = S.to_numpy(dtype=float)
        if not np.all(np.isfinite(A)):
            viol('witness:missing-values', f'{name}: sample({N}) contains {int(np.sum(~np.isfinite(A)))} missing / non-finite cells', name)
            continue
        free = []
        worst = 0.0
        for j, (lab, u) in enumerate(zip(L, m.univariates)):
            if gm.is_constant_univariate(u):
                if np.any(A[:, j] != df[lab].iloc[0]):
                    viol('witness:constant-column', f'{name}: constant training column {lab!r} = {df[lab].iloc[0]!r} is not reproduced: {A[:3, j].tolist()}', name)
                continue
            if not marginal_consistent(u):
                skipped.append(f'{name}:{lab}:{type(getattr(u, "_instance", None) or u).__name__}')
                continue
            free.append(j)
            xs = np.sort(A[:, j])
            with np.errstate(all='ignore'):
                F = np.asarray(u.cdf(xs), dtype=float)
            grid = np.arange(1, N + 1) / N
            D = float(max(np.max(np.abs(grid - F)), np.max(np.abs(F - (grid - 1.0 / N)))))
            tests += 1
            worst = max(worst, D)
            if not D <= eps_dkw:
                viol('witness:marginal-ks', f'{name}: sampled column {lab!r} is {D:.4f} away (sup-norm) from the CDF of its fitted marginal '
                     f'{type(getattr(u, "_instance", None) or u).__name__}; DKW band at level {ALPHA_EACH:g} is {eps_dkw:.4f} (n={N})', name, {'column': str(lab), 'D': D})
        C = np.asarray(m.correlation, float)
        for a in range(len(free)):
            for b in range(a + 1, len(free)):
                i, j = free[a], free[b]
                rho = C[i, j] / math.sqrt(C[i, i] * C[j, j])
                want = 2 / math.pi * math.asin(max(-1.0, min(1.0, rho)))
                got = float(kendalltau(A[:, i], A[:, j])[0])
                tests += 1
                if not abs(got - want) <= t_hoef:
                    viol('witness:rank-dependence', f'{name}: Kendall tau of sampled columns {L[i]!r},{L[j]!r} is {got:.4f}; the fitted correlation {rho:.4f} '
                         f'implies {want:.4f}; Hoeffding band at level {ALPHA_EACH:g} is {t_hoef:.4f} (n={N})', name, {'pair': [str(L[i]), str(L[j])], 'tau': got, 'implied': want})
        ctx.case(('witness', name), {'oracle': 'real sample: schema / no missing / constants / DKW band per column / Hoeffding band per pair',
                                     'model': name, 'n': N, 'worst_ks_distance': round(worst, 4), 'dkw_band': round(eps_dkw, 4)}, nontrivial=True)
    ctx.extra['witness_statistical_tests'] = tests
    ctx.extra['marginals_outside_C03_preconditions_skipped_by_statistical_oracles'] = skipped
    ctx.extra['witness_false_alarm_bound_per_run'] = tests * ALPHA_EACH
    ctx.extra['witness_search_hits'] = hits
    assert tests <= 1000


def replay_witness(seed, tier, model):
    class C:
        def __init__(self):
            self.v, self.extra = [], {}

        def case(self, *a, **k):
            pass

        def violation(self, key, what, rp, found=True):
            self.v.append((key, what))
    zoo = gm.model_zoo(np.random.default_rng(seed + 101), tier == 'quick')
    c = C()
    witness(c, [z for z in zoo if z[0] == model], seed, tier == 'quick')
    for v in c.v:
        print(v)
    return 1 if c.v else 0


# ------------------------------------------------------------------------------------------------------
def _run(ctx):
    quick = ctx.tier == 'quick'
    status = gm.generate_sample(ctx)
    for k, v in status.items():
        ctx.obligation(f'translate:{k}', v is None, 'translation', v or '')
    ctx.copy_src('Props/C01.v')
    proved = all(v is None for v in status.values()) and ctx.compile(['Gen_gm_sample.v', 'C01.v'])
    gen = 'Gen_gm_sample C01'
    if not proved:
        ctx.write('C01_fallback.v', FALLBACK)
        ctx.compile(['C01_fallback.v'], count_statements=False)
        gen = 'C01_fallback'
    ctx.rule('models: GaussianMultivariate fitted on Gaussian-copula tables with 2..6 columns (default marginal selection, a class, a '
             'fully-qualified name, an instance, per-column dicts over all families, constant columns, string / integer labels). '
             'sample(n), n in {1,2,3,5,8,13} (..120 thorough), with np.random.multivariate_normal replaced by a recorder that returns a chosen '
             'matrix Z (distinct well-separated entries; variants with ties and with |z| up to 6; comonotone / antimonotone columns): the '
             'recorded arguments (zeros(d), fitted correlation, size=n), header, row count and every cell (column j = percent_point_j(Phi(Z_j))) '
             'are compared with vm_compute of the GENERATED gm_sample on tokens; constant columns must be reproduced exactly; the Kendall '
             'concordance counts of every pair of output columns must EQUAL those of the Z columns (also evaluated by vm_compute of '
             'Model.Concord.kendallQ on the exact rationals); fit is run with _fit_column recorded and compared with the generated _fit_columns')
    zoo, cs = build_cases(ctx.seed, ctx.tier)
    from copulas.multivariate import GaussianMultivariate
    exprs = []
    for c in cs:
        d = zoo[c['mi']][3]['d']
        ids = [[100 * i + k for k in range(d)] for i in range(c['n'])]
        exprs.append(f"c01_sample {'true' if c['fitted'] else 'false'} {gm.coq_list(10 * (j + 1) for j in range(d))} {gm.coq_rows(ids)} {c['n']}%nat")
    outs = cases.run_vm_cases(ctx, 'Cases_C01', f'From Cop Require Import Model.Concord.\nFrom CopRun Require Import {gen}.', exprs, per_file=20,
                              hdr=VM_HDR, scope_open='Open Scope Z_scope.')
    kexprs, kmeta = [], []
    n_ok = 0
    for case, o in zip(cs, outs):
        name, m0, df, info = zoo[case['mi']]
        m = m0 if case['fitted'] else GaussianMultivariate()
        res, rec = run_sample(m, case['n'], case['Z'])
        key = f"{case['model']}:n{case['n']}:{case['style']}"
        if o is None:
            ctx.obligation(f'corr:sample:{key}', False, 'correspondence', 'model evaluation failed')
            continue
        try:
            model = parse_sample(gm.parse_term(o))
            bad = compare_sample(m0, df, case, model, res, rec)
        except Exception as ex:
            bad = [('harness', f'{type(ex).__name__}: {ex}')]
        # exact rank dependence: Kendall counts of output columns = those of the Z columns (strictly increasing marginals)
        if not bad and case['fitted'] and case['n'] >= 2:
            L = list(df.columns)
            for i, j in kendall_pairs(m0, case['style'], case['Z']):
                ko = kendall_counts(res[1][L[i]], res[1][L[j]])
                kz = kendall_counts(case['Z'][:, i], case['Z'][:, j])
                if ko != kz:
                    bad.append(('kendall', f'columns {L[i]!r},{L[j]!r}: concordance counts [con,dis,n0,tx,ty] of the output {ko} differ from those of Z {kz}'))
                elif case['n'] <= 8 and len(kexprs) < (60 if quick else 400):
                    kexprs.append('c01_kendall ' + gm.coq_list(qlit(v) for v in res[1][L[i]]) + ' ' + gm.coq_list(qlit(v) for v in res[1][L[j]]))
                    kexprs.append('c01_kendall ' + gm.coq_list(qlit(v) for v in case['Z'][:, i]) + ' ' + gm.coq_list(qlit(v) for v in case['Z'][:, j]))
                    kmeta.append((key, L[i], L[j], ko, case))
        ctx.obligation(f'corr:sample:{key}', not bad, 'correspondence', '; '.join(f'{a}: {b}' for a, b in bad))
        ctx.case(key, describe(case), nontrivial=case['fitted'] and not (bad and bad[0][0] == 'harness'))
        if bad:
            ctx.violation(f'corr:{bad[0][0]}', f"{case['model']} sample({case['n']}) with Z[{case['style']}]: " + '; '.join(f'{a}: {b}' for a, b in bad),
                          {**describe(case), 'Z': case['Z'].tolist(), 'model_prediction': o[:1500], 'disagreements': bad,
                           'repro': repro_snippet(ctx.seed, ctx.tier, case)})
        else:
            n_ok += 1
    if kexprs:
        kouts = cases.run_vm_cases(ctx, 'Cases_C01_kendall', f'From Cop Require Import Model.Concord.\nFrom CopRun Require Import {gen}.', kexprs,
                                   per_file=20, hdr=VMQ_HDR, scope_open='Open Scope Q_scope.')
        for q, (key, a, b, kpy, case) in enumerate(kmeta):
            try:
                ko, kz = gm.parse_term(kouts[2 * q]), gm.parse_term(kouts[2 * q + 1])
            except Exception:
                ko = kz = None
            ok = ko is not None and ko == kz == kpy
            ctx.obligation(f'corr:kendall:{key}:{a}:{b}', ok, 'correspondence', f'Model.Concord counts: output {ko}, Z {kz}; harness {kpy}')
            ctx.case(('kendall', key, str(a), str(b)), {'model': case['model'], 'pair': [str(a), str(b)], 'counts_con_dis_n0_n1_n2': kpy}, nontrivial=True)
            if not ok:
                ctx.violation('corr:kendall-model', f'{key} columns {a!r},{b!r}: Kendall counts disagree (model on output {ko}, model on Z {kz}, harness {kpy})',
                              {**describe(case), 'Z': case['Z'].tolist(), 'repro': repro_snippet(ctx.seed, ctx.tier, case)})
    fit_pairing(ctx, gen)
    ctx.extra['correspondence_cases_agreeing'] = n_ok
    ctx.extra['models'] = {name: info for name, m, df, info in zoo}
    witness(ctx, zoo, ctx.seed, quick)
    ctx.trusted += ['np.random.multivariate_normal, scipy.stats.norm.cdf and the fitted univariates\' percent_point are oracles (section variables); '
                    'that the draw is N(0, correlation) and that the population Kendall tau of a bivariate normal is (2/pi) asin(rho) are cited, not proved',
                    'tools/vf/gmscores.py: shape-checking translators for sample / _get_normal_samples / _fit_columns / fit and the fixed denotations of '
                    'pd.DataFrame(samples, columns=...), samples[label], insertion-ordered dict -> DataFrame']
    ctx.assumptions += ['training column labels are pairwise distinct', 'unconditional sampling only (conditions=None; C12 covers conditions)',
                        'strictly increasing percent_point on (0,1) for the exact rank-dependence theorem (C03); quantile (Galois) property of '
                        '(cdf_j, ppf_j) for the marginal-law statement (proved in Spec for the uniform and the constant law)',
                        'statistical residue NOT decided here: recovery of generating marginals/correlation within sampling error; the witness search '
                        'only applies DKW / Hoeffding bands with per-run false-alarm probability <= 1e-9']


def run(ctx):
    """the check proper, then the history/recovery oracle (always, also after a broken translation)"""
    from .. import extra_oracles
    try:
        _run(ctx)
    finally:
        try:
            extra_oracles.gm_recovery(ctx)
            from .. import extra_oracles2
            extra_oracles2.gm_shared_config(ctx)
            extra_oracles2.gm_constant_exact(ctx)
            extra_oracles2.gm_long_sample(ctx)
            from .. import extra_oracles3
            extra_oracles3.default_candidates_shared(ctx)
            extra_oracles3.gm_fit_container(ctx)
            extra_oracles3.fit_row_index(ctx, ('default', 'selection-sample-size'), quick=(ctx.tier == 'quick'))
        except Exception as ex:       # the oracle itself must never hide the result of the check proper
            ctx.obligation('oracle:extra:raised', False, 'correspondence', repr(ex))
            ctx.violation('oracle:extra:raised:' + type(ex).__name__, 'history/recovery oracle raised ' + repr(ex), {'repro': '# see tools/vf/extra_oracles.py'})
