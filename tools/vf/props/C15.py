"""C15 — sampling is reproducible per model seed and never perturbs the global RNG."""
import re
import numpy as np
from .. import cases, facts, rnggen

SEEDS = [7, 11, 42, 99, 123]
NTOK = 400

COQCHK = 'C15'   # stdlib-only cone: coqchk -o re-checks it in under a minute (thorough tier)

def token_table():
    tab = {}
    for s in SEEDS:
        rs = np.random.RandomState(s)
        for c in range(NTOK):
            tab[rs.random_sample()] = (s, c)
    return tab


def make_env():
    from copulas.utils import random_state, validate_random_state, set_random_state
    from copulas import datasets

    class M:
        def __init__(self, seed=None):
            self.random_state = validate_random_state(seed)

        def set_random_state(self, v):
            self.random_state = validate_random_state(v)

        @random_state
        def sample(self, k, raises):
            x = np.random.random_sample(k)
            if raises:
                raise RuntimeError('BodyError')
            return x

        def undecorated(self, k):
            return np.random.random_sample(k)

    def ds(seed, k):
        with set_random_state(validate_random_state(seed), datasets._dummy_fn):
            return np.random.random_sample(k)

    def nested(seed, k1, k2):
        with set_random_state(validate_random_state(seed), datasets._dummy_fn):
            a = ds(seed, k1)
            b = np.random.random_sample(k2)
            return np.concatenate([a, b])
    return M, ds, nested


def coq_seedval(v):
    if v is None:
        return 'VNone'
    if isinstance(v, int):
        return f'(VInt {v})' if v >= 0 else f'(VInt ({v}))'
    if isinstance(v, tuple):
        return f'(VState ({v[0]}%Z, {v[1]}%nat))'
    return 'VOther'


def gen_ops(rng, n):
    ops = []
    for _ in range(n):
        r = rng.random()
        i = int(rng.integers(0, 3))
        k = int(rng.integers(0, 5))
        if r < 0.45:
            ops.append(('sample', i, k, bool(rng.random() < 0.25)))
        elif r < 0.6:
            v = [None, int(rng.choice(SEEDS)), int(rng.choice(SEEDS)), 'other', -1, ('state', int(rng.choice(SEEDS)), int(rng.integers(0, 6)))][int(rng.integers(0, 6))]
            ops.append(('setstate', i, v))
        elif r < 0.7:
            ops.append(('globaldraw', k))
        elif r < 0.82:
            ops.append(('dataset', [int(rng.choice(SEEDS)), None, 'other'][int(rng.integers(0, 3)) if rng.random() < 0.3 else 0], k))
        elif r < 0.9:
            ops.append(('nested', int(rng.choice(SEEDS)), int(rng.integers(0, 3)), int(rng.integers(0, 3))))
        else:
            ops.append(('undecorated', i, k))
    return ops


def coq_op(o):
    if o[0] == 'sample':
        return f'OSample {o[1]} {o[2]} {"true" if o[3] else "false"}'
    if o[0] == 'setstate':
        v = o[2]
        sv = coq_seedval((v[1], v[2]) if isinstance(v, tuple) else v)
        return f'OSetState {o[1]} {sv}'
    if o[0] == 'globaldraw':
        return f'OGlobalDraw {o[1]}'
    if o[0] == 'dataset':
        return f'ODataset {coq_seedval(o[1])} {o[2]}'
    if o[0] == 'nested':
        return f'ONestedDataset {coq_seedval(o[1])} {o[2]} {o[3]}'
    return f'OUndecorated {o[1]} {o[2]}'


def run_real(ops, init_models, gseed, gcount, tab):
    M, ds, nested = make_env()

    def tok_of_state(st):
        rs = np.random.RandomState()
        rs.set_state(st)
        return tab.get(rs.random_sample())
    g = np.random.RandomState(gseed)
    g.random_sample(gcount)
    saved = np.random.get_state()
    np.random.set_state(g.get_state())
    try:
        ms = [M(s) for s in init_models]
        trace = []
        for o in ops:
            try:
                if o[0] == 'sample':
                    r = ms[o[1]].sample(o[2], o[3])
                elif o[0] == 'setstate':
                    v = o[2]
                    if isinstance(v, tuple):
                        rs = np.random.RandomState(v[1])
                        rs.random_sample(v[2])
                        v = rs
                    elif v == 'other':
                        v = 'abc'
                    r = ms[o[1]].set_random_state(v)
                elif o[0] == 'globaldraw':
                    r = np.random.random_sample(o[1])
                elif o[0] == 'dataset':
                    r = ds('abc' if o[1] == 'other' else o[1], o[2])
                elif o[0] == 'nested':
                    r = nested(o[1], o[2], o[3])
                else:
                    r = ms[o[1]].undecorated(o[2])
                out = None if r is None else [tab.get(float(v)) for v in r]
            except Exception as e:
                out = {'RuntimeError': 'BodyError'}.get(type(e).__name__, type(e).__name__)
            trace.append((out, tok_of_state(np.random.get_state()),
                          [None if m.random_state is None else tok_of_state(m.random_state.get_state()) for m in ms]))
        return trace
    finally:
        np.random.set_state(saved)


def parse_trace(s):
    """parse Coq's printed run_trace into the same structure"""
    if s is None:
        return None
    s = s.replace('%Z', '').replace('%nat', '')
    # split top-level list elements
    items, depth, cur = [], 0, ''
    for ch in s.strip()[1:-1]:
        if ch in '([':
            depth += 1
        if ch in ')]':
            depth -= 1
        if ch == ';' and depth == 0:
            items.append(cur)
            cur = ''
        else:
            cur += ch
    if cur.strip():
        items.append(cur)
    res = []
    for it in items:
        it = it.strip()
        # (out, (gs, gc), [models])
        m = re.match(r'^\((.*),\s*\((-?\d+),\s*(\d+)\),\s*\[(.*)\]\)$', it, re.S)
        if not m:
            return ('unparsed', it)
        outs = m.group(1).strip()
        if outs.startswith('OutTokens'):
            out = [(int(a), int(b)) for a, b in re.findall(r'\((-?\d+),\s*(\d+)\)', outs)]
        elif outs.startswith('OutNone'):
            out = None
        else:
            out = outs.replace('OutErr', '').strip()
        models = []
        for part in [p.strip() for p in m.group(4).split(';')] if m.group(4).strip() else []:
            mm = re.search(r'\((-?\d+),\s*(\d+)\)', part)
            models.append((int(mm.group(1)), int(mm.group(2))) if mm else None)
        res.append((out, (int(m.group(2)), int(m.group(3))), models))
    return res


def corr(ctx, n):
    rng = np.random.default_rng(ctx.seed + 15)
    tab = token_table()
    runs, exprs = [], []
    for i in range(n):
        ops = gen_ops(rng, int(rng.integers(3, 13)))
        init = [[None, int(rng.choice(SEEDS))][int(rng.random() < 0.75)] for _ in range(3)]
        gseed, gcount = int(rng.choice(SEEDS)), int(rng.integers(0, 6))
        w = 'mkWorld (%d%%Z, %d) [%s]' % (gseed, gcount, '; '.join('None' if s is None else f'Some ({s}%Z, 0)' for s in init))
        exprs.append(f'run_trace ({w}) [{"; ".join(coq_op(o) for o in ops)}]')
        runs.append((ops, init, gseed, gcount))
    outs = cases.run_vm_cases(ctx, 'Cases_C15', 'From Cop Require Import Model.Rng.', exprs, per_file=50)
    for i, ((ops, init, gseed, gcount), o) in enumerate(zip(runs, outs)):
        real = run_real(ops, init, gseed, gcount, tab)
        model = parse_trace(o)

        def norm(t):
            return [(x if not isinstance(x, str) else x, g, m) for x, g, m in t]
        ok = model is not None and not (isinstance(model, tuple) and model and model[0] == 'unparsed') and norm(model) == norm(real)
        ctx.obligation(f'corr:trace{i}', ok, 'correspondence', f'ops={ops} init={init} global=({gseed},{gcount})\nmodel={model}\nreal ={real}')
        ctx.case(('trace', i), {'ops': [coq_op(x) for x in ops], 'init_seeds': init, 'global': [gseed, gcount]},
                 nontrivial=any(x[0] == 'sample' for x in ops))
        if not ok:
            first = next((j for j, (a, b) in enumerate(zip(model or [], real)) if a != b), None) if isinstance(model, list) else None
            ctx.violation('corr:rng-trace', f'model and real decorator disagree at step {first} of ops {[coq_op(x) for x in ops]}',
                          {'ops': ops, 'init': init, 'global': [gseed, gcount], 'model': str(model)[:1500], 'real': str(real)[:1500],
                           'repro': '# run tools/vf/props/C15.py::run_real on these ops'})
    ctx.extra['op_mix'] = {k: sum(1 for r in runs for o in r[0] if o[0] == k) for k in ('sample', 'setstate', 'globaldraw', 'dataset', 'nested', 'undecorated')}


REAL_SNIPPET = r'''
import warnings, numpy as np, pandas as pd
warnings.filterwarnings('ignore')
def same_state(a, b):
    return a[0] == b[0] and np.array_equal(a[1], b[1]) and a[2:] == b[2:]
def eq(a, b):
    return np.array_equal(np.asarray(a), np.asarray(b))
'''


def real_classes():
    """(name, factory(seed) -> fitted model, n) for every public sampler class"""
    import warnings
    import pandas as pd
    warnings.filterwarnings('ignore')
    from copulas import univariate as U
    from copulas.bivariate import Bivariate
    from copulas.multivariate import GaussianMultivariate, VineCopula
    base = np.random.RandomState(5)
    x = base.normal(2.0, 1.5, 120)
    xp = np.abs(x) + 0.1
    out = []
    for cls, data in [(U.GaussianUnivariate, x), (U.UniformUnivariate, x), (U.GammaUnivariate, xp), (U.BetaUnivariate, (xp / (xp.max() + 1))),
                      (U.StudentTUnivariate, x), (U.TruncatedGaussian, x), (U.GaussianKDE, x[:40]), (U.LogLaplace, xp)]:
        def mk(seed, cls=cls, data=data):
            m = cls(random_state=seed)
            m.fit(data)
            return m
        out.append((cls.__name__, mk))

    def mk_wrapper(seed):
        m = U.Univariate(random_state=seed, parametric=U.ParametricType.PARAMETRIC)
        m.fit(x)
        return m
    out.append(('Univariate', mk_wrapper))
    for fam, th in [('clayton', 2.0), ('frank', 3.0), ('gumbel', 2.0)]:
        def mkb(seed, fam=fam, th=th):
            c = Bivariate(copula_type=fam, random_state=seed)
            c.theta, c.tau = th, 0.5
            return c
        out.append((fam, mkb))
    tbl = pd.DataFrame({'a': x[:60], 'b': x[:60] * 0.5 + base.normal(size=60), 'c': xp[:60]})

    def mkg(seed):
        g = GaussianMultivariate(distribution=U.GaussianUnivariate, random_state=seed)
        g.fit(tbl)
        return g
    out.append(('GaussianMultivariate', mkg))

    def mkgc(seed):
        g = mkg(seed)
        orig = g.sample
        g.sample = lambda n: orig(n, conditions={'a': 1.0})
        return g
    out.append(('GaussianMultivariate(conditions)', mkgc))
    for vt in ('center', 'direct', 'regular'):
        def mkv(seed, vt=vt):
            v = VineCopula(vt, random_state=seed)
            v.fit(tbl)
            return v
        out.append((f'VineCopula({vt})', mkv))
    return out


def repro_real(name):
    return (f"# property check on the real class {name}\nimport numpy as np\nfrom vf.props.C15 import real_classes, check_real_class\n"
            f"mk=dict(real_classes())[{name!r}]\nr=check_real_class({name!r}, mk)\nprint(r)\nassert not r\n")


def check_real_class(name, mk):
    """returns list of (key, what)"""
    bad = []

    def st():
        return np.random.get_state()

    def same(a, b):
        return a[0] == b[0] and np.array_equal(a[1], b[1]) and a[2:] == b[2:]
    saved = st()
    try:
        np.random.seed(1234)
        m1, m2 = mk(7), mk(7)
        g0 = st()
        a1 = np.asarray(m1.sample(5))
        if not same(g0, st()):
            bad.append((f'global-changed:{name}', f'{name}(random_state=7).sample(5) changed the global numpy random state'))
        a2 = np.asarray(m1.sample(5))
        b1 = np.asarray(m2.sample(5))
        b2 = np.asarray(m2.sample(5))
        if not (np.array_equal(a1, b1) and np.array_equal(a2, b2)):
            bad.append((f'not-reproducible:{name}', f'two {name} models with seed 7 produce different streams'))
        if np.array_equal(a1, a2) and a1.std() > 0:
            bad.append((f'no-advance:{name}', f'successive sample calls of a seeded {name} return the same values'))
        # LONG histories: four successive batches are pairwise different and are the twin's batches call by call; one call of 20 rows
        # is not required to equal four calls of 5 (numpy draws per call), but the stream must keep moving after the second call
        m5, m6 = mk(11), mk(11)
        batches = [np.asarray(m5.sample(5)) for _ in range(4)]
        twin = [np.asarray(m6.sample(5)) for _ in range(4)]
        if batches[0].std() > 0:
            stuck = [(i, j) for i in range(4) for j in range(i + 1, 4) if np.array_equal(batches[i], batches[j])]
            if stuck:
                bad.append((f'stream-stuck:{name}', f'seeded {name}: successive sample calls number {stuck[0][0] + 1} and {stuck[0][1] + 1} return identical values (the stream stopped advancing)'))
            if not all(np.array_equal(x, y) for x, y in zip(batches, twin)):
                bad.append((f'not-reproducible:{name}', f'two {name} models with seed 11 diverge within four successive calls'))
        # the same when the seed is given AFTER construction
        m7 = mk(None)
        m7.set_random_state(11)
        late = [np.asarray(m7.sample(5)) for _ in range(4)]
        if batches[0].std() > 0 and not all(np.array_equal(x, y) for x, y in zip(batches, late)):
            k = next(i for i, (x, y) in enumerate(zip(batches, late)) if not np.array_equal(x, y))
            bad.append((f'late-seed-differs:{name}', f'{name}: set_random_state(11) after construction gives another stream than random_state=11 at construction (call {k + 1})'))
        # size extreme: two successive LONG seeded calls (60 001 rows) still advance the stream, and a twin replays them call by call
        if name in ('GaussianMultivariate', 'GaussianUnivariate', 'UniformUnivariate'):
            l1m, l2m = mk(21), mk(21)
            big1, big2 = np.asarray(l1m.sample(60001)), np.asarray(l1m.sample(60001))
            tw1 = np.asarray(l2m.sample(60001))
            after = np.asarray(l1m.sample(5))
            fresh_first = np.asarray(mk(21).sample(5))
            if big1.shape[0] != 60001:
                bad.append((f'long-sample-rows:{name}', f'{name}.sample(60001) returned {big1.shape[0]} rows'))
            if np.array_equal(big1, big2) or np.array_equal(after, fresh_first):
                bad.append((f'stream-stuck:{name}', f'seeded {name}: after sample(60001) the stream is where it was (the next call replays earlier values)'))
            if not np.array_equal(big1, tw1):
                bad.append((f'not-reproducible:{name}', f'two {name} models with seed 21 differ on sample(60001)'))
        # ONE RandomState object given to two models: each model owns a stream that starts at the object's state; the caller's object is
        # not consumed, and the two streams are identical whatever the interleaving (round 5: in-place advance of a shared generator)
        shared = np.random.RandomState(7)
        s0 = shared.get_state()
        p1, p2 = mk(shared), mk(shared)
        x1 = np.asarray(p1.sample(5)); y1 = np.asarray(p2.sample(5)); x2 = np.asarray(p1.sample(5)); y2 = np.asarray(p2.sample(5))
        s1 = shared.get_state()
        if not (s0[0] == s1[0] and np.array_equal(s0[1], s1[1]) and s0[2:] == s1[2:]):
            bad.append((f'shared-randomstate-consumed:{name}', f'{name}: sampling from models built with a caller-owned RandomState object advanced that object'))
        if x1.std() > 0 and not (np.array_equal(x1, y1) and np.array_equal(x2, y2)):
            bad.append((f'shared-randomstate-streams-differ:{name}', f'two {name} models built from ONE RandomState(7) object produce different streams when their calls are interleaved'))
        if x1.std() > 0 and not np.array_equal(x1, a1):
            bad.append((f'shared-randomstate-streams-differ:{name}', f'{name}(random_state=RandomState(7)) does not reproduce {name}(random_state=7)'))
        # history: re-seeding restarts the stream; dropping the seed hands control to the global generator
        m1.set_random_state(7)
        a3 = np.asarray(m1.sample(5))
        if not np.array_equal(a3, a1):
            bad.append((f'reseed-does-not-restart:{name}', f'{name}: sample; set_random_state(7); sample does not reproduce the first seeded sample'))
        m1.set_random_state(None)
        np.random.seed(4321)
        n1 = np.asarray(m1.sample(4))
        np.random.seed(4321)
        n2 = np.asarray(mk(None).sample(4))
        if not np.array_equal(n1, n2):
            bad.append((f'unseed-not-global:{name}', f'{name}: after set_random_state(None) sampling is not driven by the global generator'))
        # a different global state must not change a seeded stream
        np.random.seed(999)
        m3 = mk(7)
        np.random.random_sample(17)
        c1 = np.asarray(m3.sample(5))
        if not np.array_equal(c1, a1):
            bad.append((f'depends-on-global:{name}', f'stream of a seeded {name} depends on the global generator'))
        # sampling that raises must still restore the global state
        g1 = st()
        try:
            m3.sample(-3)
        except Exception:
            pass
        if not same(g1, st()):
            bad.append((f'global-changed-on-raise:{name}', f'{name}.sample(-3) (raising) left the global state modified'))
        # unseeded: driven by (and reproducible through) the global state
        m4 = mk(None)
        np.random.seed(31)
        u1 = np.asarray(m4.sample(4))
        np.random.seed(31)
        u2 = np.asarray(m4.sample(4))
        if not np.array_equal(u1, u2):
            bad.append((f'unseeded-not-global-driven:{name}', f'unseeded {name}.sample is not reproducible through np.random.seed'))
    finally:
        np.random.set_state(saved)
    return bad


def check_datasets():
    from copulas import datasets
    bad = []
    saved = np.random.get_state()
    try:
        fns = [n for n in dir(datasets) if n.startswith('sample_')]
        for n in fns:
            f = getattr(datasets, n)
            np.random.seed(77)
            g0 = np.random.get_state()
            try:
                a = f(size=23, seed=5)
                np.random.random_sample(3)
                np.random.seed(78)
                g1 = np.random.get_state()
                b = f(size=23, seed=5)
                same = g1[0] == np.random.get_state()[0] and np.array_equal(g1[1], np.random.get_state()[1]) and g1[2:] == np.random.get_state()[2:]
                if len(a) != 23:
                    bad.append((f'dataset-size:{n}', f'{n}(size=23) returned {len(a)} rows'))
                if not np.array_equal(np.asarray(a), np.asarray(b)):
                    bad.append((f'dataset-not-deterministic:{n}', f'{n}(23, seed=5) differs between calls'))
                if not same:
                    bad.append((f'dataset-global-changed:{n}', f'{n} modified the global numpy random state'))
            except Exception as ex:
                bad.append((f'dataset-raises:{n}:{type(ex).__name__}', f'{n}(size=23, seed=5) raised {type(ex).__name__}: {ex}'))
    finally:
        np.random.set_state(saved)
    return bad


def run(ctx):
    quick = ctx.tier == 'quick'
    text, rows = facts.gen_rng_facts_coq()
    ctx.write('Gen_rngfacts.v', text)
    ctx.extra['rng_sites'] = [f'{r[1]}.{r[2]} uses={r[4]} protected={r[5]}' for r in rows]
    # second tie: utils.set_random_state / random_state / validate_random_state, the set_random_state methods and the dataset
    # generators translated statement by statement (Gen_rng.v); Props/C15.v proves them equal to Model.Rng (C15_bridge_*)
    status, info = rnggen.generate(ctx)
    for part in rnggen.PARTS:
        ctx.obligation(f'translate:{part}', status.get(part, 'not attempted') is None, 'translation', status.get(part) or '')
    ctx.extra['rng_translated'] = info
    ctx.rule('translation: copulas/utils.py (context manager, decorator, validation), the set_random_state methods and every '
             'datasets.sample_* generator are translated from the AST on every run into Gen_rng.v (strict shape check, fail-closed); '
             'C15_bridge_ctx / _wrapper / _validate / _model_setter / _datasets prove the translated text equal to Model.Rng')
    ctx.copy_src('Props/C15.v')
    ok = ctx.compile(['Gen_rngfacts.v', 'Gen_rng.v', 'C15.v'])
    ctx.rule('correspondence: random interleavings (3..12 ops) over 3 models (75% seeded) of decorated sample (25% raising), set_random_state '
             '(None/int/RandomState/invalid/negative), direct global draws, dataset-style context blocks (incl. nested), undecorated samplers; '
             'run on the REAL copulas.utils decorator/context manager with RNG states mapped to (seed, draws) tokens and compared step by step '
             '(output tokens, global state, every model state) with vm_compute of Model.Rng.run_trace')
    corr(ctx, 40 if quick else 600)
    # the property on the real sampler classes (witness search; also run when nothing is broken)
    hits = 0
    for name, mk in real_classes():
        try:
            bad = check_real_class(name, mk)
        except Exception as ex:
            ctx.extra.setdefault('real_classes_skipped', []).append(f'{name}: {type(ex).__name__}: {str(ex)[:100]}')
            continue
        ctx.case(('real', name), {'class': name, 'violations': [b[0] for b in bad]})
        for key, what in bad:
            hits += 1
            k = 'F9:' + key if name == 'Univariate' else 'real:' + key
            ctx.violation(k, what, {'class': name, 'repro': repro_real(name)})
    for key, what in check_datasets():
        hits += 1
        ctx.violation('real:' + key, what, {'repro': 'from vf.props.C15 import check_datasets; r=check_datasets(); print(r); assert not r'})
    try:      # round 6: the seeded stream is the same in interpreters that differ only in PYTHONHASHSEED
        from .. import extra_oracles3
        extra_oracles3.gm_hashseed(ctx)
    except Exception as ex:
        ctx.obligation('oracle:extra:raised', False, 'correspondence', repr(ex))
        ctx.violation('oracle:extra:raised:' + type(ex).__name__, 'round-6 oracle raised ' + repr(ex), {'repro': '# see tools/vf/extra_oracles3.py'})
    ctx.extra['witness_search_hits'] = hits
    ctx.trusted += ['Model.Rng is a hand-written transcription of copulas/utils.py (decorator, context manager, validation) and of the dataset context blocks; tied by the trace correspondence '
                    'AND by the statement-by-statement translation of the current source (tools/vf/rnggen.py -> Gen_rng.v) proved equal to it in Props/C15.v',
                    'tools/vf/rnggen.py: the py_* / np_random_* vocabulary (fixed header of Gen_rng.v) and the shape-checking translator; the number of values a drawing call consumes is an oracle k',
                    'RNG states are abstract (seed, count) tokens: nothing about the Mersenne Twister is modelled',
                    'tools/vf/facts.py (AST extraction of decorators and np.random uses)']
