"""C20 -- library calls never modify caller-owned inputs; plots show exactly the data.

static : effect programs of ~90 entry points regenerated from the AST (tools/vf/effects.py, fail-closed) -> Gen_effects.v,
         Props/C20.v recomputes every verdict by vm_compute and derives "arguments unchanged" from the soundness theorem.
dynamic: every public entry point is called twice with deep-snapshotted arguments of every container kind it accepts;
         snapshots are compared bit-wise, the two results are compared, and the observed "mutates parameter k" verdict is
         compared with the verdict the Coq analysis computes for the generated program.
plots  : figure traces and the caller's `columns` list are compared with Model.Plot evaluated by vm_compute.
"""
COQCHK = ['C20_1d']   # cones without Coquelicot / Interval: coqchk -o re-checks them in about a minute each (thorough tier)
import json
import re
import traceback
import warnings

import numpy as np

from .. import cases, effects, plot1dcorr, plot1dgen, plotgen

# (entry point, parameter) pairs where the path-insensitive analysis is known to over-approximate (justified in Props/C20.v)
IMPRECISE = {('multivariate.tree.Tree.fit', 'edges')}

# ---------------------------------------------------------------------------------------------------------
# deep snapshots
# ---------------------------------------------------------------------------------------------------------


def snap(x, depth=0):
    import pandas as pd
    if depth > 6:
        return ('deep',)
    if isinstance(x, np.ndarray):
        body = repr(x.tolist()) if x.dtype == object else x.tobytes()
        base = x.base
        b = None
        if isinstance(base, np.ndarray):
            b = (base.dtype.str, base.shape, repr(base.tolist()) if base.dtype == object else base.tobytes())
        return ('nd', x.dtype.str, x.shape, x.strides, body, bool(x.flags.writeable), bool(x.flags.c_contiguous),
                bool(x.flags.f_contiguous), b)
    if isinstance(x, pd.DataFrame):
        return ('df', [repr(c) for c in x.columns], [repr(i) for i in x.index], [str(t) for t in x.dtypes],
                [snap(x.iloc[:, j].to_numpy(), depth + 1)[4] for j in range(x.shape[1])], repr(x.columns.name), repr(x.index.name))
    if isinstance(x, pd.Series):
        return ('series', repr(x.name), [repr(i) for i in x.index], str(x.dtype), snap(x.to_numpy(), depth + 1)[4])
    if isinstance(x, dict):
        return ('dict', [(repr(k), snap(v, depth + 1)) for k, v in x.items()])
    if isinstance(x, (list, tuple)):
        return (type(x).__name__, [snap(v, depth + 1) for v in x])
    if isinstance(x, (int, float, str, bool, type(None), np.generic)):
        return ('scalar', type(x).__name__, repr(x))
    if callable(x):
        return ('callable',)
    return ('object', type(x).__name__)


def canon_result(r, depth=0):
    """canonical form of a call result for 'second identical call gives the same result'"""
    import pandas as pd
    if isinstance(r, BaseException):
        return ('raised', type(r).__name__, str(r)[:200])
    if isinstance(r, (np.ndarray, pd.DataFrame, pd.Series, dict, list, tuple, int, float, str, bool, type(None), np.generic)):
        s = snap(r, depth)
        return s[:3] + s[4:5] if s[0] == 'nd' else s
    if hasattr(r, 'to_plotly_json'):
        return ('figure', fig_traces(r))
    if hasattr(r, 'to_dict'):
        try:
            return ('model', json.dumps(r.to_dict(), sort_keys=True, default=repr))
        except Exception as ex:      # noqa
            return ('model-unserialisable', type(r).__name__)
    return ('object', type(r).__name__)


def fig_traces(fig):
    out = []
    for t in fig.data:
        pts = []
        xs = list(np.asarray(t.x).tolist()) if t.x is not None else []
        ys = list(np.asarray(t.y).tolist()) if t.y is not None else []
        zs = list(np.asarray(t.z).tolist()) if getattr(t, 'z', None) is not None else None
        for i in range(len(xs)):
            p = (xs[i], ys[i]) + ((zs[i],) if zs is not None else ())
            pts.append(tuple('nan' if isinstance(v, float) and v != v else v for v in p))
        out.append((t.name, pts))
    return out


# ---------------------------------------------------------------------------------------------------------
# container kinds
# ---------------------------------------------------------------------------------------------------------
def make_container(kind, base, names=None):
    """base: a C-contiguous float ndarray (1-d or 2-d) or a dict / list; returns a fresh object of the requested kind"""
    import pandas as pd
    if kind in ('dict', 'list', 'scalar', 'none', 'str', 'callable', 'obj'):
        import copy
        return copy.deepcopy(base) if kind in ('dict', 'list') else base
    if kind == 'series_from_dict':
        return pd.Series(dict(base))
    a = np.array(base, dtype=float)
    if kind == 'series_names':
        return pd.Series(a, index=list(names))
    if kind == 'df_labelled':
        d = pd.DataFrame(a, columns=names)
        d['Data'] = 'Real'
        return d
    if kind == 'nd':
        return a
    if kind == 'nd_f':
        return np.asfortranarray(a)
    if kind == 'nd_int':
        return np.array(np.round(a), dtype=np.int64)
    if kind == 'nd_f32':
        return a.astype(np.float32)
    if kind == 'nd_ro':
        a.setflags(write=False)
        return a
    if kind == 'nd_view':
        if a.ndim == 1:
            big = np.full(2 * len(a) + 1, -7.25)
            big[1::2] = a
            return big[1::2]
        big = np.full((2 * a.shape[0], a.shape[1] + 2), -7.25)
        big[::2, 1:-1] = a
        return big[::2, 1:-1]
    if kind in ('df', 'df_int', 'df_view'):
        cols = names or [f'c{j}' for j in range(a.shape[1])]
        if kind == 'df_int':
            return pd.DataFrame(np.array(np.round(a), dtype=np.int64), columns=cols)
        if kind == 'df_view':
            big = pd.DataFrame(np.column_stack([a, a[:, :1]]), columns=cols + ['extra'], index=[f'r{i}' for i in range(len(a))])
            return big[cols]
        return pd.DataFrame(a, columns=cols)
    if kind in ('series', 'series_int', 'series_idx'):
        if kind == 'series_int':
            return pd.Series(np.array(np.round(a), dtype=np.int64), name='s')
        if kind == 'series_idx':
            return pd.Series(a, index=[f'r{i}' for i in range(len(a))], name='s')
        return pd.Series(a, name='s')
    if kind == 'pylist':
        return a.tolist()
    raise ValueError(kind)


ND2 = ['nd', 'nd_f', 'nd_view', 'nd_ro', 'nd_int']
ND1 = ['nd', 'nd_view', 'nd_ro', 'nd_int']


# ---------------------------------------------------------------------------------------------------------
# entry points
# ---------------------------------------------------------------------------------------------------------
class EP:
    def __init__(self, name, static, params, call, note='', internal=False, compare_results=True):
        """params: list of (param name, base value factory(rng) , kinds, column names or None);
        call(**args) -> result, must build a FRESH receiver each time it is invoked"""
        self.name, self.static, self.params, self.call, self.note = name, static, params, call, note
        self.compare_results = compare_results      # False: the result may contain uninitialised memory (findings F8/F10 of C16/C17)
        self.internal = internal      # helper working on the model's own state: verdict correspondence only


def _uv(rng, n=24):
    z = rng.normal(size=(n, 2))
    z[:, 1] = 0.7 * z[:, 0] + 0.7 * z[:, 1]
    from scipy.stats import norm
    return np.clip(norm.cdf(z), 0.02, 0.98)


def _table(rng, n=36, d=4):
    z = rng.normal(size=(n, d)) @ (np.eye(d) + 0.5 * rng.normal(size=(d, d)))
    return np.round(z * 10 + 20, 3)


def build_entry_points(rng):
    import copy
    import pandas as pd
    from copulas import optimize, visualization as viz, datasets
    from copulas import bivariate as bv
    from copulas.bivariate import Bivariate, select_copula
    from copulas.multivariate import GaussianMultivariate, VineCopula
    from copulas.multivariate.tree import get_tree
    from copulas import univariate as U
    from copulas.univariate.selection import select_univariate
    eps = []
    add = eps.append
    targets = np.array([0.3, 1.1, 0.77, 1.9])

    def f_root(x):
        return np.asarray(x, dtype=float) - targets
    lo, hi = np.zeros(4), np.full(4, 2.0)
    add(EP('optimize.bisect', 'optimize.bisect', [('xmin', lambda r: lo, ND1, None), ('xmax', lambda r: hi, ND1, None)],
           lambda xmin, xmax: optimize.bisect(f_root, xmin, xmax)))
    add(EP('optimize.chandrupatla', 'optimize.chandrupatla',
           [('xmin', lambda r: lo, ND1, None), ('xmax', lambda r: hi, ND1, None)],
           lambda xmin, xmax: optimize.chandrupatla(f_root, xmin, xmax)))

    # ---- visualization (1-d; the scatter functions have their own correspondence below, these are the mutation oracles)
    x1 = np.round(rng.normal(size=30), 2)
    x2 = np.round(rng.normal(size=30) + 1, 2)
    add(EP('visualization.dist_1d', 'visualization.dist_1d', [('data', lambda r: x1, ['nd', 'nd_view', 'nd_ro', 'series', 'pylist'], None)],
           lambda data: viz.dist_1d(data, title='t')))
    add(EP('visualization.compare_1d', 'visualization.compare_1d',
           [('real', lambda r: x1, ['nd', 'nd_ro', 'series'], None), ('synth', lambda r: x2, ['nd', 'nd_view', 'series'], None)],
           lambda real, synth: viz.compare_1d(real, synth)))
    t3 = np.round(rng.normal(size=(12, 3)) * 5)
    t3b = np.round(rng.normal(size=(9, 3)) * 5)
    names3 = ['a', 'b', 'c']
    for dim, cols in (('2d', ['a', 'b']), ('3d', ['a', 'b', 'c'])):
        sc, cmp_ = getattr(viz, 'scatter_' + dim), getattr(viz, 'compare_' + dim)
        gen = getattr(viz, f'_generate_scatter_{dim}_plot')
        add(EP(f'visualization.scatter_{dim}', f'visualization.scatter_{dim}',
               [('data', lambda r: t3, ['df', 'df_int', 'df_view'], names3), ('columns', lambda r, c=cols: list(c), ['list'], None)],
               lambda data, columns, sc=sc: sc(data, columns)))
        add(EP(f'visualization.scatter_{dim}[columns=None]', f'visualization.scatter_{dim}',
               [('data', lambda r, k=len(cols): t3[:, :k], ['df', 'df_int'], names3[:len(cols)])],
               lambda data, sc=sc: sc(data)))
        add(EP(f'visualization.compare_{dim}', f'visualization.compare_{dim}',
               [('real', lambda r: t3, ['df', 'df_int', 'df_view'], names3), ('synth', lambda r: t3b, ['df', 'df_view'], names3),
                ('columns', lambda r, c=cols: list(c), ['list'], None)],
               lambda real, synth, columns, cmp_=cmp_: cmp_(real, synth, columns)))

        def call_gen(data, columns, color_discrete_map, gen=gen):
            return gen(data, columns, color_discrete_map, 'title')

        def labelled(r, k=len(cols)):
            return t3[:, :k]
        add(EP(f'visualization._generate_scatter_{dim}_plot', f'visualization._generate_scatter_{dim}_plot',
               [('data', labelled, ['df_labelled'], names3[:len(cols)]), ('columns', lambda r, c=cols: list(c), ['list'], None),
                ('color_discrete_map', lambda r: {'Real': '#000036'}, ['dict'], None)], call_gen))

    # ---- trees and vines
    tbl = _table(rng)
    names4 = ['w', 'x', 'y', 'z']
    frame = pd.DataFrame(tbl, columns=names4)
    tau = frame.corr(method='kendall').to_numpy().copy()
    um = np.empty(tbl.shape)
    for j, c in enumerate(names4):
        k = U.GaussianKDE()
        k.fit(frame[c])
        um[:, j] = k.cumulative_distribution(frame[c])
    for tt in ('center', 'direct', 'regular'):
        def call_tree(tau_matrix, previous_tree, tt=tt):
            t = get_tree(tt)
            t.fit(0, 4, tau_matrix, previous_tree)
            return [(e.L, e.R, e.name, float(e.theta)) for e in t.edges]
        add(EP(f'multivariate.tree.Tree.fit[{tt}]', 'multivariate.tree.Tree.fit',
               [('tau_matrix', lambda r: tau, ['nd', 'nd_f', 'nd_view', 'nd_ro'], None),
                ('previous_tree', lambda r: um, ['nd', 'nd_f', 'nd_view', 'nd_ro'], None)], call_tree))

        def call_vine(X, tt=tt):
            v = VineCopula(tt)
            v.fit(X)
            # canonical result: first tree + shape (cells of the np.empty tau matrices of deeper levels are uninitialised memory:
            # finding F8 of C16/C19, excluded here so that the comparison of two calls is deterministic)
            return [len(v.trees), [(e.L, e.R, e.name, float(e.theta)) for e in v.trees[0].edges], list(v.columns),
                    v.u_matrix.tobytes(), v.tau_mat.tobytes()]
        add(EP(f'multivariate.vine.VineCopula.fit[{tt}]', 'multivariate.vine.VineCopula.fit',
               [('X', lambda r: tbl, ['df', 'df_int', 'df_view'], names4)], call_vine))

    vine_cache = {}

    def fitted_vine(tt):
        if tt not in vine_cache:
            v = VineCopula(tt, random_state=9)
            v.fit(pd.DataFrame(tbl, columns=names4))
            vine_cache[tt] = v
        return copy.deepcopy(vine_cache[tt])
    for tt in ('center', 'direct', 'regular'):
        add(EP(f'multivariate.vine.VineCopula.get_likelihood[{tt}]', 'multivariate.vine.VineCopula.get_likelihood',
               [('uni_matrix', lambda r: um[:1], ['nd', 'nd_f', 'nd_view', 'nd_ro'], None)],
               lambda uni_matrix, tt=tt: fitted_vine(tt).get_likelihood(uni_matrix), compare_results=False))
        add(EP(f'multivariate.tree.Tree.get_likelihood[{tt}]', 'multivariate.tree.Tree.get_likelihood',
               [('uni_matrix', lambda r: um[:1], ['nd', 'nd_view', 'nd_ro'], None)],
               lambda uni_matrix, tt=tt: fitted_vine(tt).trees[0].get_likelihood(uni_matrix)[0], compare_results=False))
        add(EP(f'multivariate.vine.VineCopula.sample[{tt}]', 'multivariate.vine.VineCopula.sample', [],
               lambda tt=tt: fitted_vine(tt).sample(3), compare_results=False))

    def tree_with(tt, tau_matrix, u_matrix):
        t = get_tree(tt)
        t.level, t.n_nodes, t.tau_matrix, t.u_matrix, t.previous_tree, t.edges = 1, 4, tau_matrix, u_matrix, u_matrix, []
        return t
    add(EP('multivariate.tree.Tree._sort_tau_by_y', 'multivariate.tree.Tree._sort_tau_by_y',
           [('self.tau_matrix', lambda r: tau, ['nd', 'nd_f', 'nd_view', 'nd_ro'], None)],
           lambda **a: tree_with('center', a['self.tau_matrix'], um)._sort_tau_by_y(1), internal=True))
    for tt, cn in (('direct', 'DirectTree'), ('center', 'CenterTree'), ('regular', 'RegularTree')):
        def call_first(tt=tt, **a):
            t = tree_with(tt, a['self.tau_matrix'], a['self.u_matrix'])
            t._build_first_tree()
            return [(e.L, e.R, e.name) for e in t.edges]
        add(EP(f'multivariate.tree.{cn}._build_first_tree', f'multivariate.tree.{cn}._build_first_tree',
               [('self.tau_matrix', lambda r: tau, ['nd', 'nd_view', 'nd_ro'], None),
                ('self.u_matrix', lambda r: um, ['nd', 'nd_view', 'nd_ro'], None)], call_first, internal=True))

    # ---- Gaussian copula
    gm_cache = {}

    def fitted_gm(dist=U.GaussianUnivariate):
        key = getattr(dist, '__name__', str(dist))
        if key not in gm_cache:
            g = GaussianMultivariate(distribution=dist, random_state=3)
            g.fit(pd.DataFrame(tbl, columns=names4))
            gm_cache[key] = g
        return copy.deepcopy(gm_cache[key])
    ALLX = ['df', 'df_int', 'df_view', 'nd', 'nd_f', 'nd_view', 'nd_ro', 'nd_int', 'pylist']
    for dist in (U.GaussianUnivariate, U.GaussianKDE, U.Univariate):
        def call_gfit(X, dist=dist):
            g = GaussianMultivariate(distribution=dist)
            g.fit(X)
            return g
        add(EP(f'multivariate.gaussian.GaussianMultivariate.fit[{dist.__name__}]', 'multivariate.gaussian.GaussianMultivariate.fit',
               [('X', lambda r: tbl[:, :3], ALLX if dist is U.GaussianUnivariate else ['df', 'nd_view', 'nd_ro'], names4[:3])], call_gfit))

    def call_gfit_dict(X, distribution):
        g = GaussianMultivariate(distribution=distribution)
        g.fit(X)
        return g
    add(EP('multivariate.gaussian.GaussianMultivariate(distribution=dict).fit', None,
           [('X', lambda r: tbl[:, :3], ['df'], names4[:3]),
            ('distribution', lambda r: {'w': 'copulas.univariate.GaussianUnivariate', 'x': 'copulas.univariate.gaussian_kde.GaussianKDE'},
             ['dict'], None)], call_gfit_dict))
    q = tbl[:7] + 0.5
    QX = ['df', 'df_int', 'df_view', 'nd', 'nd_f', 'nd_view', 'nd_ro', 'nd_int']
    for meth in ('probability_density', 'cumulative_distribution', '_transform_to_normal', 'pdf', 'cdf', 'log_probability_density'):
        st = f'multivariate.gaussian.GaussianMultivariate.{meth}' if meth in ('probability_density', 'cumulative_distribution',
                                                                              '_transform_to_normal') else None
        add(EP(f'multivariate.gaussian.GaussianMultivariate.{meth}', st, [('X', lambda r: q, QX, names4)],
               lambda X, meth=meth: getattr(fitted_gm(), meth)(X)))
        add(EP(f'multivariate.gaussian.GaussianMultivariate.{meth}[row]', st,
               [('X', lambda r: q[0], ['series_names', 'nd', 'nd_view', 'nd_ro'], names4)],
               lambda X, meth=meth: getattr(fitted_gm(), meth)(X)))

    def call_sample(conditions):
        g = fitted_gm()
        g.set_random_state(11)
        return g.sample(5, conditions=conditions)
    add(EP('multivariate.gaussian.GaussianMultivariate.sample[conditions]', 'multivariate.gaussian.GaussianMultivariate.sample',
           [('conditions', lambda r: {'w': 21.5, 'y': 18.0}, ['dict', 'series_from_dict'], None)], call_sample))
    add(EP('multivariate.gaussian.GaussianMultivariate.sample[KDE marginals, conditions]', 'multivariate.gaussian.GaussianMultivariate.sample',
           [('conditions', lambda r: {'x': 22.0}, ['dict'], None)],
           lambda conditions: (lambda g: (g.set_random_state(5), g.sample(4, conditions=conditions))[1])(fitted_gm(U.GaussianKDE))))
    gdict = fitted_gm().to_dict()
    add(EP('multivariate.gaussian.GaussianMultivariate.from_dict', 'multivariate.gaussian.GaussianMultivariate.from_dict',
           [('copula_dict', lambda r: gdict, ['dict'], None)], lambda copula_dict: GaussianMultivariate.from_dict(copula_dict)))

    # ---- bivariate
    uv = _uv(rng)
    FL2 = ['nd', 'nd_f', 'nd_view', 'nd_ro']
    for fam, th in (('clayton', 2.0), ('frank', 3.0), ('gumbel', 2.5), ('independence', None)):
        mod = f'bivariate.{fam}.{fam.capitalize()}'

        def mk(fam=fam, th=th):
            if fam == 'independence':        # not reachable through Bivariate(copula_type=...): the module is never imported by the package
                from copulas.bivariate.independence import Independence
                c = Independence.__new__(Independence)
                c.random_state = None
                c.theta, c.tau = 1.0, 0.0
                return c
            c = Bivariate(copula_type=fam, random_state=4)
            c.theta, c.tau = th, 0.5
            return c
        if fam != 'independence':
            def call_bfit(X, fam=fam):
                c = Bivariate(copula_type=fam)
                c.fit(X)
                return c
            add(EP(f'bivariate.base.Bivariate.fit[{fam}]', 'bivariate.base.Bivariate.fit', [('X', lambda r: uv, FL2, None)], call_bfit))
        for meth in ('probability_density', 'cumulative_distribution', 'partial_derivative', 'log_probability_density', 'pdf', 'cdf'):
            st = f'{mod}.{meth}' if meth in ('probability_density', 'cumulative_distribution', 'partial_derivative') else \
                ('bivariate.base.Bivariate.log_probability_density' if meth == 'log_probability_density' else None)
            add(EP(f'{mod}.{meth}', st, [('X', lambda r: uv, FL2 + ['nd_int'], None)], lambda X, mk=mk, meth=meth: getattr(mk(), meth)(X)))
        add(EP(f'{mod}.percent_point', f'{mod}.percent_point',
               [('y', lambda r: uv[:6, 0], ['nd', 'nd_view', 'nd_ro'], None), ('V', lambda r: uv[:6, 1], ['nd', 'nd_view', 'nd_ro'], None)],
               lambda y, V, mk=mk: mk().percent_point(y, V)))
        add(EP(f'{mod}.partial_derivative_scalar', 'bivariate.base.Bivariate.partial_derivative_scalar',
               [('U', lambda r: uv[:6, 0], ['nd', 'nd_view', 'nd_ro'], None), ('V', lambda r: uv[:6, 1], ['nd', 'nd_ro'], None)],
               lambda U, V, mk=mk: mk().partial_derivative_scalar(U, V)))
        if fam != 'independence':
            add(EP(f'{mod}.sample', 'bivariate.base.Bivariate.sample', [], lambda mk=mk: mk().sample(5)))
    add(EP('bivariate.base.Bivariate.partial_derivative[finite difference]', 'bivariate.base.Bivariate.partial_derivative',
           [('X', lambda r: uv, FL2, None)],
           lambda X: Bivariate.partial_derivative((lambda c: (setattr(c, 'theta', 2.0), c)[1])(Bivariate(copula_type='clayton')), X)))
    add(EP('bivariate.select_copula', 'bivariate.select_copula', [('X', lambda r: uv, FL2, None)], lambda X: select_copula(X)))
    add(EP('bivariate.base.Bivariate.select_copula', 'bivariate.base.Bivariate.select_copula', [('X', lambda r: uv, ['nd', 'nd_ro'], None)],
           lambda X: Bivariate.select_copula(X)))
    add(EP('bivariate.base.Bivariate.from_dict', 'bivariate.base.Bivariate.from_dict',
           [('copula_dict', lambda r: {'copula_type': 'FRANK', 'theta': 3.0, 'tau': 0.3}, ['dict'], None)],
           lambda copula_dict: Bivariate.from_dict(copula_dict)))

    # ---- univariate
    xs = np.round(np.abs(rng.normal(3.0, 1.0, 40)) + 0.5, 3)
    FIT1 = ['nd', 'nd_view', 'nd_ro', 'nd_int', 'series', 'series_int', 'series_idx']
    Q1 = ['nd', 'nd_view', 'nd_ro', 'nd_int', 'series']
    classes = [('gaussian.GaussianUnivariate', U.GaussianUnivariate), ('uniform.UniformUnivariate', U.UniformUnivariate),
               ('gamma.GammaUnivariate', U.GammaUnivariate), ('beta.BetaUnivariate', U.BetaUnivariate),
               ('student_t.StudentTUnivariate', U.StudentTUnivariate), ('truncated_gaussian.TruncatedGaussian', U.TruncatedGaussian),
               ('gaussian_kde.GaussianKDE', U.GaussianKDE), ('log_laplace.LogLaplace', U.LogLaplace), ('base.Univariate', U.Univariate)]
    fitted = {}
    for path, cls in classes:
        short = cls.__name__

        def call_ufit(X, cls=cls):
            m = cls()
            m.fit(X)
            return m
        st = 'univariate.base.Univariate.fit' if cls is U.Univariate else 'univariate.base.ScipyModel.fit'
        add(EP(f'univariate.{path}.fit', st, [('X', lambda r: xs, FIT1, None)], call_ufit))
        add(EP(f'univariate.{path}.fit[constant data]', st, [('X', lambda r: np.full(9, 2.5), ['nd', 'nd_ro', 'series'], None)], call_ufit))
        try:
            m0 = cls(random_state=2)
            m0.fit(xs)
            fitted[short] = m0
        except Exception:
            continue
        qx = np.round(np.linspace(xs.min() + 0.1, xs.max() - 0.1, 7), 3)
        qu = np.linspace(0.1, 0.9, 7)
        for meth, base in (('probability_density', qx), ('cumulative_distribution', qx), ('percent_point', qu),
                           ('log_probability_density', qx), ('pdf', qx), ('cdf', qx), ('ppf', qu)):
            if cls is U.Univariate:
                st = f'univariate.base.Univariate.{meth}' if meth in ('probability_density', 'cumulative_distribution', 'percent_point',
                                                                      'log_probability_density') else None
            elif cls is U.GaussianKDE and meth in ('probability_density', 'cumulative_distribution', 'percent_point'):
                st = f'univariate.gaussian_kde.GaussianKDE.{meth}'
            elif meth in ('probability_density', 'cumulative_distribution', 'percent_point', 'log_probability_density'):
                st = f'univariate.base.ScipyModel.{meth}'
            else:
                st = None
            kinds = [k for k in Q1 if not (k == 'nd_int' and base is qu)]
            add(EP(f'univariate.{path}.{meth}', st, [('X' if 'percent' not in meth and meth != 'ppf' else 'U', lambda r, b=base: b, kinds, None)],
                   lambda short=short, meth=meth, **a: getattr(copy.deepcopy(fitted[short]), meth)(*a.values())))
        add(EP(f'univariate.{path}.sample', None, [], lambda short=short: copy.deepcopy(fitted[short]).sample(5)))
        pd_ = fitted[short].to_dict()
        add(EP(f'univariate.{path}.from_dict', 'univariate.base.Univariate.from_dict', [('params', lambda r, d=pd_: d, ['dict'], None)],
               lambda params: U.Univariate.from_dict(params)))
    add(EP('univariate.gaussian_kde.GaussianKDE.percent_point[bisect]', 'univariate.gaussian_kde.GaussianKDE.percent_point',
           [('U', lambda r: np.linspace(0.1, 0.9, 5), ['nd', 'nd_view', 'nd_ro'], None)],
           lambda U: copy.deepcopy(fitted['GaussianKDE']).percent_point(U, method='bisect')))
    cands = [U.GaussianUnivariate, U.UniformUnivariate, U.GammaUnivariate]
    add(EP('univariate.selection.select_univariate', 'univariate.selection.select_univariate',
           [('X', lambda r: xs, ['nd', 'nd_ro', 'series'], None), ('candidates', lambda r: cands, ['list'], None)],
           lambda X, candidates: select_univariate(X, candidates)))
    add(EP('univariate.base.Univariate(candidates=list).fit', None,
           [('X', lambda r: xs, ['nd'], None), ('candidates', lambda r: cands, ['list'], None)],
           lambda X, candidates: (lambda m: (m.fit(X), m)[1])(U.Univariate(candidates=candidates))))

    # ---- datasets
    for n in [n for n in dir(datasets) if n.startswith('sample_')]:
        add(EP(f'datasets.{n}', f'datasets.{n}', [], lambda n=n: getattr(datasets, n)(size=17, seed=3)))
    return eps


# ---------------------------------------------------------------------------------------------------------
# the dynamic oracle: call twice, compare snapshots and results
# ---------------------------------------------------------------------------------------------------------
def combos_of(ep):
    if not ep.params:
        return [{}]
    first = {p[0]: p[2][0] for p in ep.params}
    out, seen = [], set()
    for pn, _, kinds, _ in ep.params:
        for k in kinds:
            c = dict(first)
            c[pn] = k
            key = tuple(sorted(c.items()))
            if key not in seen:
                seen.add(key)
                out.append(c)
    return out


def run_combo(ep, combo, rng):
    """returns dict(mut1, mut2, r1, r2, raised1, raised2)"""
    args = {}
    for pn, basef, kinds, names in ep.params:
        args[pn] = make_container(combo[pn], basef(rng), names)
    before = {k: snap(v) for k, v in args.items()}
    saved = np.random.get_state()
    res = []
    snaps = [before]
    try:
        for _ in range(2):
            np.random.seed(20240229)
            try:
                with warnings.catch_warnings():
                    warnings.simplefilter('ignore')
                    r = ep.call(**args)
            except Exception as ex:      # noqa
                r = ex
            res.append(canon_result(r))
            snaps.append({k: snap(v) for k, v in args.items()})
    finally:
        np.random.set_state(saved)
    mut1 = [k for k in args if snaps[1][k] != snaps[0][k]]
    mut2 = [k for k in args if snaps[2][k] != snaps[1][k]]
    return {'mut1': mut1, 'mut2': mut2, 'r1': res[0], 'r2': res[1],
            'raised1': res[0][0] == 'raised', 'raised2': res[1][0] == 'raised',
            'detail': {k: describe_change(args[k], snaps[0][k], snaps[1][k] if k in mut1 else snaps[2][k]) for k in set(mut1 + mut2)}}


def describe_change(obj, a, b):
    if a[0] == 'nd' and b[0] == 'nd':
        x = np.frombuffer(a[4], dtype=np.dtype(a[1])) if isinstance(a[4], bytes) else None
        y = np.frombuffer(b[4], dtype=np.dtype(b[1])) if isinstance(b[4], bytes) else None
        if x is not None and y is not None and x.shape == y.shape:
            idx = np.nonzero(~((x == y) | ((x != x) & (y != y))))[0][:4]
            return f'ndarray changed at flat positions {idx.tolist()}: {x[idx].tolist()} -> {y[idx].tolist()}'
        return 'ndarray changed (dtype/shape/flags)'
    if a[0] in ('list', 'tuple'):
        return f'{a[0]} changed: now {obj!r}'[:200]
    if a[0] == 'dict':
        return f'dict changed: keys now {list(obj)!r}'[:200]
    if a[0] == 'df':
        return f'DataFrame changed: columns {a[1]} -> {b[1]}' if a[1] != b[1] else 'DataFrame values/index/dtypes changed'
    return f'{a[0]} changed'


def finding_key(ep, param):
    n = ep.name
    if n.startswith('optimize.bisect'):
        return f'F16a:bisect-overwrites-{param}', f'copulas.optimize.bisect overwrites the caller\'s {param} array in place'
    m = re.match(r'visualization\.(_generate_scatter_[23]d_plot|scatter_[23]d|compare_[23]d)', n)
    if m and param == 'columns':
        return (f'F16b:{m.group(1)}-appends-Data-to-columns',
                f"copulas.visualization.{m.group(1)} appends 'Data' to the caller's `columns` list (a second identical call raises ValueError)")
    m = re.match(r'multivariate\.tree\.Tree\.fit\[(\w+)\]', n)
    if m and param == 'tau_matrix':
        return f'F3:tree-fit-writes-tau-matrix:{m.group(1)}', f'get_tree({m.group(1)!r}).fit(...) writes into the tau matrix it is handed'
    m = re.match(r'multivariate\.tree\.(\w+)\.(_sort_tau_by_y|_build_first_tree)', n)
    if m and param == 'self.tau_matrix':
        return (f'F3:{m.group(1)}.{m.group(2)}-writes-tau-matrix',
                f'{m.group(1)}.{m.group(2)} writes into self.tau_matrix (the matrix handed to Tree.fit)')
    return f'mutation:{n}:{param}', f'{n} modifies its argument `{param}`'


def replay_ep(name, combo, seed):
    """used by the repro snippets: exit status 1 iff the argument mutation / result difference manifests"""
    import sys
    rng = np.random.default_rng(seed)
    eps = {e.name: e for e in build_entry_points(rng)}
    out = run_combo(eps[name], combo, rng)
    print(json.dumps({k: (v if k in ('mut1', 'mut2', 'detail', 'raised1', 'raised2') else str(v)[:300]) for k, v in out.items()}, indent=1, default=str))
    bad = bool(out['mut1'] or out['mut2'] or out['r1'] != out['r2'] or (out['raised1'] and 'read-only' in out['r1'][2]))
    sys.exit(1 if bad else 0)


def repro_for(ep, combo, seed):
    return ('import numpy as np\nfrom vf.props.C20 import replay_ep\n'
            f'replay_ep({ep.name!r}, {combo!r}, {seed})\n')


DIRECT_REPROS = {
    'F16a': ("import numpy as np\nfrom copulas.optimize import bisect\nxmin, xmax = np.zeros(2), np.ones(2)\n"
             "r = bisect(lambda x: x - 0.3, xmin, xmax)\nprint(r, xmin, xmax)\n"
             "assert (xmin == 0).all() and (xmax == 1).all(), 'bisect overwrote the caller\\'s brackets'\n"),
    'F16b': ("import pandas as pd\nfrom copulas.visualization import {fn}\n"
             "df = pd.DataFrame({{'a': [1, 2], 'b': [3, 4], 'c': [5, 6]}})\ncols = {cols}\n"
             "{call}\nprint(cols)\nassert cols == {cols}, 'columns list was modified'\n{call}\n"),
    'F3tree': ("import numpy as np, pandas as pd, warnings\nwarnings.filterwarnings('ignore')\n"
               "from copulas.multivariate.tree import get_tree\nfrom copulas.univariate import GaussianKDE\n"
               "rs = np.random.RandomState(0)\nX = pd.DataFrame(rs.normal(size=(40, 4)) @ rs.normal(size=(4, 4)), columns=list('abcd'))\n"
               "tau = X.corr(method='kendall').to_numpy().copy()\nU = np.column_stack([(lambda k: (k.fit(X[c]), k.cumulative_distribution(X[c]))[1])(GaussianKDE()) for c in X])\n"
               "before = tau.copy()\nget_tree({tt!r}).fit(0, 4, tau, U)\nprint(np.argwhere(~np.isclose(before, tau, equal_nan=False)).tolist())\n"
               "assert np.array_equal(before, tau, equal_nan=True), 'Tree.fit wrote into the caller\\'s tau matrix'\n"),
    'F3vine': ("import numpy as np, pandas as pd, warnings\nwarnings.filterwarnings('ignore')\nfrom copulas.multivariate import VineCopula\n"
               "rs = np.random.RandomState(0)\nX = pd.DataFrame(rs.normal(size=(40, 4)) @ rs.normal(size=(4, 4)), columns=list('abcd'))\n"
               "VineCopula({tt!r}).fit(X)\n"),
}


# ---------------------------------------------------------------------------------------------------------
# plots: implementation vs Model.Plot (vm_compute)
# ---------------------------------------------------------------------------------------------------------
PLOT_NAMES = ['Data', 'a', 'b', 'c', 'd', 'e']          # column name <-> nat of the model ('Data' = data_col = 0)


def gen_plot_case(rng):
    k = int(rng.choice([2, 3]))
    fn = str(rng.choice(['scatter', 'compare']))
    user = PLOT_NAMES[1:]

    def frame(cols=None, allow_data=True):
        if cols is None:
            m = int(rng.integers(1, 5)) if rng.random() < 0.25 else int(rng.integers(k, 5))
            cols = list(rng.permutation(user)[:m])
            if allow_data and rng.random() < 0.08:
                cols.insert(int(rng.integers(0, len(cols) + 1)), 'Data')
        n = 0 if rng.random() < 0.08 else int(rng.integers(1, 6))
        rows = [[int(v) for v in rng.integers(-9, 10, size=len(cols))] for _ in range(n)]
        if rows and rng.random() < 0.3:
            rows.append(list(rows[int(rng.integers(0, len(rows)))]))          # a repeated row must be plotted twice
        if rows and rng.random() < 0.3:
            # missing values (NaN cells), in plotted and in unplotted columns: the row must still be in the figure exactly once
            for _ in range(int(rng.integers(1, 4))):
                i, j = int(rng.integers(0, len(rows))), int(rng.integers(0, len(cols)))
                if cols[j] != 'Data':
                    rows[i][j] = None
        return cols, rows
    rc, rr = frame()
    real = (rc, rr)
    synth = None
    if fn == 'compare':
        synth = frame(list(rc)) if rng.random() < 0.7 else frame()
        if synth[0] == list(rc) and rr and rng.random() < 0.3:
            synth[1].append(list(rr[0]))                                       # the same row in both tables: once under each label
    u = rng.random()
    if u < 0.22:
        columns = None
    elif u < 0.27:
        columns = []
    elif u < 0.72:
        pool = [c for c in rc if c != 'Data']
        columns = list(rng.permutation(pool)[:k]) if len(pool) >= k else list(pool)
        if len(columns) == k and rng.random() < 0.15:
            columns[int(rng.integers(0, k))] = columns[0]            # a repeated column
    elif u < 0.82:
        columns = list(rng.permutation(user)[:k])
        columns[int(rng.integers(0, k))] = 'e' if 'e' not in rc else 'zz'
        columns = [c if c != 'zz' else 'd' for c in columns]
    elif u < 0.90:
        columns = list(rng.permutation(rc)[:max(1, k - 1)])
    elif u < 0.96:
        columns = list(rng.permutation(user)[:k + 1])
    else:
        columns = list(rng.permutation([c for c in rc if c != 'Data'] + ['Data'])[:k])
    has_title = bool(rng.random() < 0.5)
    def py(fr):
        return None if fr is None else ([str(c) for c in fr[0]], fr[1])
    return {'k': k, 'fn': fn, 'real': py(real), 'synth': py(synth), 'columns': None if columns is None else [str(c) for c in columns],
            'title': has_title}


def coq_frame(fr):
    cols, rows = fr
    ids = [PLOT_NAMES.index(c) for c in cols]
    rws = '; '.join('[' + '; '.join(f'({i}, ({v})%Z)' for i, v in zip(ids, r) if v is not None) + ']' for r in rows)      # a NaN cell: no entry
    return f'(mkFrame [{"; ".join(map(str, ids))}] [{rws}])'


def coq_plot_expr(c):
    cols = [] if c['columns'] is None else [PLOT_NAMES.index(x) for x in c['columns']]
    cl = '[' + '; '.join(map(str, cols)) + ']'
    t = 'true' if c['title'] else 'false'
    if c['fn'] == 'scatter':
        return f'scatter_nd {c["k"]} {t} {coq_frame(c["real"])} {cl}'
    return f'compare_nd {c["k"]} {t} {coq_frame(c["real"])} {coq_frame(c["synth"])} {cl}'


def parse_plot(s):
    """([1; 2; 0], inr [(Real, [[VNum 1; VNaN]; ...]); ...])  ->  (columns, ('ok', traces) | ('err', name))"""
    if s is None:
        return None
    t = s.replace('%Z', '').replace('%nat', '')
    t = re.sub(r'VNum \((-?\d+)\)', r'("N", \1)', t)
    t = re.sub(r'VNum (-?\d+)', r'("N", \1)', t)
    t = t.replace('VNaN', '"nan"')
    t = re.sub(r'VLab (Real|Synthetic)', r'("L", "\1")', t)
    t = re.sub(r'(?<![\w"])(Real|Synthetic)(?![\w"])', r'"\1"', t)
    t = re.sub(r'inl (Err\w+)', r'("err", "\1")', t)
    t = re.sub(r'inr ', r'"ok", ', t)
    t = t.replace(';', ',')
    try:
        import ast as _ast
        v = _ast.literal_eval(t)
    except Exception:
        return ('unparsed', s[:300])
    cols = [PLOT_NAMES[i] for i in v[0]]
    rest = v[1:] if len(v) > 2 else v[1]
    if rest[0] == 'err':
        return cols, ('err', rest[1])
    traces = []
    for name, pts in rest[1]:
        traces.append((name, [tuple(x[1] if isinstance(x, tuple) and x[0] == 'N' else ('nan' if x == 'nan' else x[1]) for x in p) for p in pts]))
    return cols, ('ok', traces)


def run_plot_impl(c):
    import pandas as pd
    from copulas import visualization as viz

    def df(fr):
        cols, rows = fr
        return pd.DataFrame({col: pd.Series([r[j] for r in rows], dtype='float64' if any(r[j] is None for r in rows) else 'int64')
                             for j, col in enumerate(cols)}, columns=cols)
    real = df(c['real'])
    synth = df(c['synth']) if c['synth'] is not None else None
    columns = None if c['columns'] is None else list(c['columns'])
    before = [snap(real), snap(synth)]
    fn = getattr(viz, f'{c["fn"]}_{c["k"]}d')
    kw = {'title': 'T'} if c['title'] else {}
    try:
        with warnings.catch_warnings():
            warnings.simplefilter('ignore')
            fig = fn(real, columns, **kw) if c['fn'] == 'scatter' else fn(real, synth, columns, **kw)
        traces = []
        for name, pts in fig_traces(fig):
            traces.append((name, [tuple(int(v) if isinstance(v, (int, float)) and v == v and float(v).is_integer() else v for v in p) for p in pts]))
        out = ('ok', traces)
    except IndexError:
        out = ('err', 'ErrIndex')
    except ValueError as ex:
        out = ('err', 'ErrColumnCount' if 'columns can be plotted' in str(ex) else 'ErrNoSuchColumn')
    except Exception as ex:      # noqa
        out = ('err', f'Other:{type(ex).__name__}:{str(ex)[:80]}')
    frames_ok = [snap(real), snap(synth)] == before
    return ([] if columns is None else columns), out, frames_ok


def plot_repro(c):
    return ('import json\nfrom vf.props.C20 import run_plot_impl\n'
            f'c = {c!r}\ncols, out, frames_ok = run_plot_impl(c)\nprint(cols, out, frames_ok)\n'
            "# expected: the caller's columns list unchanged and every given row exactly once under its label\n"
            "assert frames_ok and (c['columns'] is None or cols == c['columns'])\n")


def multiset_oracle(c, out):
    """the property's own statement on the implementation: every given row exactly once under the correct label"""
    if out[0] != 'ok':
        return True, ''
    cols = c['columns'] if c['columns'] else None
    if cols is None:
        return True, ''          # default axes: covered by the model comparison
    exp = []
    for lab, fr in (('Real', c['real']), ('Synthetic', c['synth'])):
        if fr is None:
            continue
        fc, rows = fr
        for r in rows:
            exp.append((lab, tuple((lab if col == 'Data' else ((r[fc.index(col)] if r[fc.index(col)] is not None else 'nan') if col in fc else 'nan'))
                                   for col in cols)))
    got = [(name, tuple(p)) for name, pts in out[1] for p in pts]
    return sorted(map(repr, exp)) == sorted(map(repr, got)), f'expected {sorted(map(repr, exp))[:6]} got {sorted(map(repr, got))[:6]}'


# ---------------------------------------------------------------------------------------------------------
# the check
# ---------------------------------------------------------------------------------------------------------
def direct_repro(key, ep, combo, seed):
    if key.startswith('F16a'):
        return DIRECT_REPROS['F16a']
    m = re.match(r'F16b:(_generate_scatter_([23])d_plot|(scatter|compare)_([23])d)', key)
    if m:
        fn = m.group(1)
        k = int(m.group(2) or m.group(4))
        cols = ['a', 'b', 'c'][:k]
        if fn.startswith('_generate'):
            call = f"df['Data'] = 'Real'; {fn}(df, cols, {{'Real': '#000036'}}, 't')"
        elif fn.startswith('scatter'):
            call = f'{fn}(df, cols)'
        else:
            call = f'{fn}(df, df, cols)'
        return DIRECT_REPROS['F16b'].format(fn=fn, cols=cols, call=call)
    m = re.match(r'F3:tree-fit-writes-tau-matrix:(\w+)', key)
    if m:
        return DIRECT_REPROS['F3tree'].format(tt=m.group(1))
    m = re.match(r'F3:vine-fit-raises-readonly:(\w+)', key)
    if m:
        return DIRECT_REPROS['F3vine'].format(tt=m.group(1))
    return repro_for(ep, combo, seed)


def model_verdicts(ctx, info):
    expr = 'map (fun e => (fst (fst e), callsum gen_table 24 (snd (fst e)))) gen_entries'
    out = cases.run_vm_cases(ctx, 'Cases_C20_verdicts', 'From Cop Require Import Model.Alias.\nFrom CopRun Require Import Gen_effects.', [expr],
                             hdr='From Coq Require Import List ZArith Bool Arith String.\n{imports}\nImport ListNotations.\n')
    res = {}
    if out and out[0]:
        for m in re.finditer(r'\("([^"]+)",\s*\[([^\]]*)\]\)', out[0]):
            res[m.group(1)] = [x.strip() == 'true' for x in m.group(2).split(';') if x.strip()]
    return res


def _run(ctx):
    quick = ctx.tier == 'quick'
    seed = ctx.seed
    # ---------------- 1. static: regenerate the effect programs, re-check the theorems
    txt, info = effects.generate(effects.ENTRY_POINTS)
    errors = info['__errors__']
    for q in effects.ENTRY_POINTS:
        ctx.obligation(f'translate:{q}', q not in errors and q in info, 'translation', errors.get(q, ''))
    ctx.obligation('translate:call-graph-depth<=12', info['__depth__'] <= 12, 'translation', f"depth {info['__depth__']}")
    ctx.write('Gen_effects.v', txt)
    # the scatter pipeline of copulas/visualization.py, generated from the AST and proved equal to Model.Plot ([C20_bridge_*] in Props/C20.v).
    # A failed translation leaves the definition out of Gen_plot.v: the bridge theorem cannot be checked and C20.v fails at it (they are the
    # last section of the file); the dynamic oracles, the verdict correspondence and the plot correspondence below run regardless.
    try:
        pstatus = plotgen.generate(ctx)
    except Exception as ex:      # noqa  the generator itself must never stop the check
        ctx.write('Gen_plot.v', '(* plotgen raised *)\n')
        pstatus = {k: f'plotgen raised {type(ex).__name__}: {ex}' for k in plotgen.NAMES}
    plotgen.record(ctx, pstatus)
    ctx.copy_src('Props/C20.v')
    compiled = ctx.compile(['Gen_effects.v', 'Gen_plot.v', 'C20.v'])
    if not compiled and not any(o['name'].startswith('Gen_plot.v:') or '_bridge_' in o['name'] for o in ctx.obligations if not o['ok']):
        # coqc stopped at an earlier statement (an effect verdict, ...): the bridge section is self-contained, check it on its own so
        # that a change of the scatter pipeline is reported by the layer that models it as well
        import os
        whole = open(os.path.join(ctx.build, 'C20.v')).read()
        if 'BEGIN-BRIDGE' in whole:
            ctx.write('C20_bridge.v', 'From Coq Require Import ZArith List Bool Arith Lia Permutation.\n'
                                      'From Cop Require Import Model.Plot Spec.PlotProofs Lib.PyFrame.\nFrom CopRun Require Import Gen_plot.\n'
                                      'Import ListNotations.\n(* ' + whole.split('BEGIN-BRIDGE', 1)[1])
            ctx.compile(([] if os.path.exists(os.path.join(ctx.build, 'Gen_plot.vo')) else ['Gen_plot.v']) + ['C20_bridge.v'])
    # the 1-d plot functions, the PlotConfig colours and the colour maps of the scatter functions (tools/vf/plot1dgen.py -> Gen_plot1d.v, bridge
    # theorems in Props/C20_1d.v, compiled on their own: independent of C20.v); fail-closed, never stops what follows
    try:
        plot1dgen.hook(ctx)
    except Exception as ex:      # noqa
        ctx.obligation('translate:plot1dgen', False, 'translation', f'plot1dgen raised {type(ex).__name__}: {ex}')
    verdicts = model_verdicts(ctx, info)
    mirror_ok = all(verdicts.get(q) == v for q, v in info['__pyverdict__'].items()) if verdicts else False
    ctx.obligation('extractor:python-mirror-equals-coq-analysis', mirror_ok, 'correspondence',
                   str([(q, verdicts.get(q), v) for q, v in info['__pyverdict__'].items() if verdicts.get(q) != v][:5]))
    if not verdicts:
        verdicts = info['__pyverdict__']
    ctx.extra['static_entry_points'] = {q: {'params': info[q]['params'], 'implicit': info[q]['implicit'],
                                            'verdict': verdicts.get(q), 'instructions': info[q]['ninstr']}
                                        for q in effects.ENTRY_POINTS if q in info}
    ctx.extra['generated_functions'] = len([k for k in info if not k.startswith('__')])
    ctx.extra['extractor_assumptions'] = info['__assumptions__']
    ctx.rule('static: effect programs of %d entry points (+ %d callees) regenerated from the AST by tools/vf/effects.py (fail-closed alias table); '
             'verdicts recomputed in Coq' % (len(effects.ENTRY_POINTS), ctx.extra['generated_functions'] - len(effects.ENTRY_POINTS)))

    # ---------------- 2. dynamic: every entry point twice on snapshotted arguments of every container kind
    rng = np.random.default_rng(seed + 20)
    eps = build_entry_points(rng)
    if not quick:                      # thorough: two more data sets
        for rd in (1, 2):
            rng2 = np.random.default_rng(seed + 20 + 1000 * rd)
            more = build_entry_points(rng2)
            for e in more:
                e.round, e.seed = rd, seed + 20 + 1000 * rd
            eps += more
    observed = {}          # (static name, param) -> True/False
    exercised = {}
    blocked = {}
    n_combo = 0
    seen_keys = set()
    for ep in eps:
        combos = combos_of(ep)
        outs = []
        for combo in combos:
            try:
                o = run_combo(ep, combo, rng)
            except Exception:
                ctx.obligation(f'dynamic:{ep.name}:{combo}', False, 'harness', traceback.format_exc()[-600:])
                continue
            outs.append((combo, o))
            n_combo += 1
        base_ro = bool(outs) and outs[0][1]['raised1'] and 'read-only' in outs[0][1]['r1'][2]
        all_raised = bool(outs) and all(o['raised1'] for _, o in outs)
        if all_raised:
            blocked[ep.name] = f"{outs[0][1]['r1'][1]}: {outs[0][1]['r1'][2][:160]}"
        for combo, o in outs:
            muts = set(o['mut1']) | set(o['mut2'])
            # a read-only argument that makes the call fail where the writable one succeeds = a write attempt on that argument
            if o['raised1'] and 'read-only' in o['r1'][2] and not base_ro:
                for pn, kd in combo.items():
                    if kd.endswith('_ro'):
                        muts.add(pn)
                        o['detail'][pn] = 'raises "assignment destination is read-only" when this argument is read-only'
            for pn, _, _, _ in ep.params:
                if ep.static:
                    observed[(ep.static, pn)] = observed.get((ep.static, pn), False) or (pn in muts)
                    exercised[(ep.static, pn)] = exercised.get((ep.static, pn), False) or not o['raised1'] or (pn in muts)
            ctx.case((ep.name, getattr(ep, 'round', 0), tuple(sorted(combo.items()))),
                     {'entry_point': ep.name, 'containers': combo, 'mutated': sorted(muts), 'raised': o['r1'][1] if o['raised1'] else None,
                      'second_call_same_result': o['r1'] == o['r2']},
                     nontrivial=(not o['raised1']) or bool(muts))
            for pn in sorted(muts):
                if ep.internal:
                    continue
                key, what = finding_key(ep, pn)
                if key in seen_keys:
                    continue
                seen_keys.add(key)
                extra = ''
                if o['r1'] != o['r2']:
                    extra = f"; the second identical call then {'raises ' + o['r2'][1] if o['raised2'] else 'returns a different result'}"
                ctx.violation(key, f"{what}: {o['detail'].get(pn, '')}{extra}",
                              {'entry_point': ep.name, 'containers': combo, 'seed': seed + 20, 'detail': o['detail'],
                               'repro': direct_repro(key, ep, combo, getattr(ep, 'seed', seed + 20))})
            if not muts and o['r1'] != o['r2'] and not ep.internal and ep.compare_results:
                key = f'second-call-differs:{ep.name}'
                if key not in seen_keys:
                    seen_keys.add(key)
                    ctx.violation(key, f'{ep.name}: a second identical call with the same (unmodified) argument objects gives a different result '
                                       f'({str(o["r1"])[:80]} vs {str(o["r2"])[:80]})',
                                  {'entry_point': ep.name, 'containers': combo, 'seed': seed + 20, 'repro': repro_for(ep, combo, getattr(ep, 'seed', seed + 20))})
        m = re.match(r'multivariate\.vine\.VineCopula\.fit\[(\w+)\]', ep.name)
        if m and all_raised and base_ro:
            key = f'F3:vine-fit-raises-readonly:{m.group(1)}'
            ctx.violation(key, f'VineCopula({m.group(1)!r}).fit(X) raises "assignment destination is read-only" for every DataFrame under pandas 3: '
                               'X.corr().to_numpy() is read-only and Tree.fit writes into the matrix it is handed',
                          {'entry_point': ep.name, 'repro': direct_repro(key, ep, {}, seed)})
    ctx.extra['dynamic_entry_points'] = len({e.name for e in eps})
    ctx.extra['dynamic_calls'] = 2 * n_combo
    ctx.extra['blocked_entry_points'] = blocked
    ctx.rule('dynamic: %d entry-point variants (public functions/methods x model family) x every accepted container kind (ndarray C/F-order, non-contiguous view, read-only, int64; DataFrame '
             'float/int/column-subset view; Series default/int/labelled index; dict; list), one kind varied at a time; each called twice on the '
             'same argument objects; deep snapshots (bytes, dtype, shape, strides, flags, base buffer, index/columns) compared after each call; '
             'results of the two calls compared; data from default_rng(seed+20)' % len({e.name for e in eps}))

    # ---------------- 3. model verdict vs observation
    static_with_dynamic = {e.static for e in eps if e.static}
    for (q, pn), obs in sorted(observed.items()):
        if q not in info:
            continue
        names = info[q]['params'] + ['self.' + a for a in info[q]['implicit']]
        if pn not in names or q not in verdicts or len(verdicts[q]) != len(names):
            ctx.obligation(f'corr:verdict:{q}:{pn}', False, 'correspondence', f'parameter {pn} not among {names} / no verdict')
            continue
        mv = verdicts[q][names.index(pn)]
        if mv == obs:
            ctx.obligation(f'corr:verdict:{q}:{pn}', True, 'correspondence', f'model={mv} observed={obs}')
        elif mv and not obs:
            ok = (q, pn) in IMPRECISE
            ctx.obligation(f'corr:verdict:{q}:{pn}', ok, 'correspondence',
                           f'model says "may write {pn}", never observed' + (' (documented over-approximation)' if ok else ''))
            if not ok:
                ctx.violation(f'corr-overapprox:{q}:{pn}', f'the effect model flags {q}({pn}) as written but no call modified it',
                              {'explains': f'corr:verdict:{q}:{pn}', 'repro': ''}, found=False)
        else:
            ctx.obligation(f'corr:verdict:{q}:{pn}', False, 'correspondence',
                           f'UNSOUND alias table or extractor: model says {pn} is never written, the implementation modified it')
    ctx.extra['static_only_entry_points'] = sorted(set(effects.ENTRY_POINTS) - static_with_dynamic)
    ctx.extra['dynamic_only_entry_points'] = sorted({e.name for e in eps if not e.static})

    # ---------------- 4. plots: figure traces and the caller's columns list vs Model.Plot
    prng = np.random.default_rng(seed + 2020)
    pcs = [gen_plot_case(prng) for _ in range(60 if quick else 600)]
    outs = cases.run_vm_cases(ctx, 'Cases_C20_plot', 'From Cop Require Import Model.Plot.', [coq_plot_expr(c) for c in pcs], per_file=50,
                              hdr='From Coq Require Import List ZArith Bool Arith.\n{imports}\nImport ListNotations.\n')
    kinds = {}
    for i, (c, o) in enumerate(zip(pcs, outs)):
        model = parse_plot(o)
        cols, out, frames_ok = run_plot_impl(c)
        ok = model is not None and model[0] != 'unparsed' and model == (cols, out)
        kinds[out[1] if out[0] == 'err' else 'figure'] = kinds.get(out[1] if out[0] == 'err' else 'figure', 0) + 1
        ctx.obligation(f'corr:plot{i}', ok, 'correspondence', f'case={c}\nmodel={model}\nimpl ={(cols, out)}')
        ctx.case(('plot', i), {'plot_case': c, 'outcome': out[0] if out[0] == 'err' else f'{len(out[1])} traces'},
                 nontrivial=out[0] == 'ok' and any(pts for _, pts in out[1]))
        if not ok:
            ctx.violation(f'corr:plot-model:{c["fn"]}_{c["k"]}d', f'Model.Plot and copulas.visualization disagree on {c}',
                          {'case': c, 'model': str(model)[:1500], 'impl': str((cols, out))[:1500], 'repro': plot_repro(c)})
        ms_ok, why = multiset_oracle(c, out)
        if not ms_ok:
            ctx.violation(f'plot-rows:{c["fn"]}_{c["k"]}d', f'figure does not contain every given row exactly once under its label: {why}',
                          {'case': c, 'repro': plot_repro(c)})
        if not frames_ok:
            ctx.violation(f'mutation:visualization.{c["fn"]}_{c["k"]}d:frames', 'a plot function modified the DataFrame it was given',
                          {'case': c, 'repro': plot_repro(c)})
        if c['columns'] and cols != c['columns']:
            key = f'F16b:{c["fn"]}_{c["k"]}d-appends-Data-to-columns'
            if key not in seen_keys:
                seen_keys.add(key)
                ctx.violation(key, f"copulas.visualization.{c['fn']}_{c['k']}d appends 'Data' to the caller's `columns` list: {c['columns']} -> {cols}",
                              {'case': c, 'repro': direct_repro(key, None, None, seed)})
    ctx.extra['plot_outcomes'] = kinds
    try:       # 1-d plots: dist_1d / compare_1d vs Model.Plot (tools/vf/plot1dcorr.py)
        plot1dcorr.run(ctx, seed, quick)
    except Exception as ex:      # noqa
        ctx.obligation('corr:plot1d:raised', False, 'harness', f'{type(ex).__name__}: {ex}\n{traceback.format_exc()[-600:]}')
    ctx.rule('plots: random small integer frames (0-5 rows, 1-4 columns out of a..e, sometimes a user column named Data, synthetic frame with the same '
             'or different columns), columns = None / [] / valid / repeated / unknown / too short / too long / containing Data, title given or not; '
             'scatter_2d/3d, compare_2d/3d; traces (name, points in order), error class and the caller\'s columns list compared with vm_compute of Model.Plot')
    ctx.trusted += ['tools/vf/effects.py: the effect extractor and its alias table (numpy/pandas/builtin view/copy/mutator facts), validated by the '
                    'dynamic verdict comparison; calls whose arguments cannot reach a parameter are not translated',
                    'Model.Plot: hand-written transcription of copulas/visualization.py and of plotly.express.scatter grouping (one trace per label '
                    'in order of first appearance), tied by the trace correspondence; its functions scatter_2d/3d, compare_2d/3d and generate_scatter are in '
                    'addition proved equal, for all inputs, to definitions generated from the AST on every run (tools/vf/plotgen.py, C20_bridge_*): the '
                    'translator (it resolves aliasing: which object an in-place operation goes to) and the denotations of coq/Lib/PyFrame.v '
                    '(DataFrame.copy / d[c] = label / pd.concat(ignore_index=True) / .columns, px.scatter grouping by the colour column, list and None '
                    'operations) are trusted, the equality is proved',
                    'container reach-through convention: the content of an object includes the objects it holds; objects passed as models (Tree, Edge) '
                    'are not treated as caller-owned data']
    ctx.assumptions += ['callables received as arguments (f of bisect/chandrupatla) and local closures do not write to their arguments',
                        'parameters with scalar defaults / listed in effects.IMMUT_PARAMS are immutable scalars or strings',
                        'no module-level state holds aliases of caller inputs'] + info['__assumptions__'][:6]


def run(ctx):
    """the check proper, then the oracles for caller-owned CONSTRUCTOR arguments and for frames with non-string labels (always)"""
    from .. import extra_oracles2
    try:
        _run(ctx)
    finally:
        try:
            extra_oracles2.ctor_args(ctx)
            extra_oracles2.viz_labels(ctx)
            from .. import extra_oracles3
            extra_oracles3.plot_row_index(ctx, quick=(ctx.tier == 'quick'))
        except Exception as ex:       # the oracle itself must never hide the result of the check proper
            ctx.obligation('oracle:extra:raised', False, 'correspondence', repr(ex))
            ctx.violation('oracle:extra:raised:' + type(ex).__name__, 'constructor-argument / label oracle raised ' + repr(ex), {'repro': '# see tools/vf/extra_oracles2.py'})
