"""C08 — percent_point inverts the conditional CDF of every bivariate copula."""
import numpy as np
from .. import biv, cases, implbiv
from ..core import frac
from .C07 import unfolds_for

FAMS = ['clayton', 'frank', 'gumbel']
IMPORTS = 'From CopRun Require Import Gen_biv.'
EPS = float(np.finfo(np.float32).eps)


def repro(fam, th, y, v):
    return (f"import numpy as np\nfrom copulas.bivariate import Bivariate\nc=Bivariate(copula_type='{fam}'); c.theta={th!r}\n"
            f"y=np.array({list(map(float, y))!r}); v=np.array({list(map(float, v))!r})\nu=c.percent_point(y, v)\nprint(u)\n"
            f"h=c.partial_derivative(np.column_stack([u, v]))\nprint(h, np.abs(h-y).max())\nassert np.abs(h-y).max() < 1e-8\n")


def in_f17_corner(fam, th, y, v):
    """known finding F17: Gumbel bracket [EPSILON,1] has no sign change when h(EPSILON,v) > y"""
    if fam != 'gumbel':
        return False
    c = implbiv.make(fam, th)
    with np.errstate(all='ignore'):
        h = float(np.asarray(c.partial_derivative(np.array([[EPS, v]])))[0])
    return h > y


def corr(ctx, n):
    import copulas.bivariate.base as base
    rng = np.random.default_rng(ctx.seed + 8)
    goals = []
    orig = base.brentq
    calls = []

    def rec(f, a, b, *args, **kw):
        x = orig(f, a, b, *args, **kw)
        calls.append((a, b, x, float(np.ravel(f(0.37))[0])))   # probe now: the closure reads the loop variables
        return x
    base.brentq = rec
    try:
        for i in range(n):
            fam = FAMS[i % 3]
            th = implbiv.sample_theta(rng, fam, edge=(rng.random() < 0.15))
            m = int(rng.integers(1, 6))
            y = rng.uniform(1e-4, 1 - 1e-4, m)
            v = rng.uniform(1e-4, 1 - 1e-4, m)
            c = implbiv.make(fam, th)
            del calls[:]
            try:
                with np.errstate(all='ignore'):
                    u = np.asarray(c.percent_point(y.copy(), v.copy()), dtype=float)
            except Exception as ex:
                lanes = [j for j in range(m) if not in_f17_corner(fam, th, y[j], v[j])]
                key = f'corr:percent_point-raises:{fam}:{type(ex).__name__}' if lanes else f'F17:gumbel-bracket-no-sign-change'
                ctx.violation(key, f'{fam} theta={th}: percent_point(y={y.tolist()}, V={v.tolist()}) raised {type(ex).__name__}: {ex}',
                              {'family': fam, 'theta': th, 'y': y.tolist(), 'v': v.tolist(), 'error': repr(ex), 'repro': repro(fam, th, y, v)})
                ctx.case(('ppf', fam, th, tuple(y), tuple(v)), None)
                continue
            if len(u) != m:
                ctx.violation(f'corr:length:{fam}', f'{fam}: percent_point returned {len(u)} values for {m} lanes',
                              {'family': fam, 'theta': th, 'y': y.tolist(), 'v': v.tolist(), 'repro': repro(fam, th, y, v)})
                continue
            if fam != 'clayton':
                # the recorded solver calls must be the model's: one per lane, bracket [EPSILON, 1], objective h(x,v)-y
                ok = len(calls) == m and all(a == EPS and b == 1.0 for a, b, _, _ in calls)
                if ok:
                    for j, (a, b, x, fv) in enumerate(calls):
                        hv = float(np.asarray(c.partial_derivative(np.array([[0.37, v[j]]])))[0]) - y[j]
                        ok = ok and abs(fv - hv) <= 1e-12 and float(np.ravel(x)[0]) == u[j]
                if not ok:
                    ctx.violation(f'corr:solver-call-shape:{fam}', f'{fam}: Brent calls differ from the model (one per lane on [EPSILON,1] with objective h(x,v)-y)',
                                  {'family': fam, 'theta': th, 'y': y.tolist(), 'v': v.tolist(),
                                   'calls': [(a, b, float(np.ravel(x)[0])) for a, b, x, _ in calls], 'repro': repro(fam, th, y, v)})
            for j in range(m):
                meta = {'family': fam, 'theta': th, 'y': float(y[j]), 'v': float(v[j]), 'impl_u': float(u[j])}
                if fam == 'clayton':
                    goals.append({'term': f'clayton_percent_point {frac(th)} {frac(y[j])} {frac(v[j])}', 'y': float(u[j]),
                                  'tol': cases.tol_for(u[j]), 'unfolds': ['clayton_percent_point'], 'meta': meta})
                else:
                    # certified round trip through the GENERATED h: |Gen.h(theta, u_impl, v) - y| <= 1e-9
                    goals.append({'term': f'{fam}_partial_derivative {frac(th)} {frac(u[j])} {frac(v[j])}', 'y': float(y[j]),
                                  'tol': 1e-9, 'unfolds': unfolds_for(fam, 'partial_derivative'), 'meta': meta})
                ctx.case(('ppf', fam, th, float(y[j]), float(v[j])), meta)
    finally:
        base.brentq = orig
    return goals


def search(ctx, n_theta, n_pts):
    rng = np.random.default_rng(ctx.seed + 808)
    found = 0
    for fam in FAMS:
        for it in range(n_theta):
            th = implbiv.sample_theta(rng, fam, edge=(it < 2))
            if fam == 'gumbel' and it == 2:
                th = 1.0                      # independence member (theta = 1 exactly): the shortcut branch
            c = implbiv.make(fam, th)
            y = rng.uniform(1e-4, 1 - 1e-4, n_pts)
            v = rng.uniform(1e-4, 1 - 1e-4, n_pts)
            if it % 3 == 0:
                v[: n_pts // 4] = rng.choice([1e-4, 1 - 1e-4], n_pts // 4)
                y[n_pts // 8: n_pts // 4 + n_pts // 8] = rng.choice([1e-4, 1 - 1e-4], n_pts // 4)
            u = np.full(n_pts, np.nan)
            for j in range(n_pts):          # lane by lane, so that one failing lane does not hide the others
                try:
                    with np.errstate(all='ignore'):
                        u[j] = float(np.asarray(c.percent_point(y[j:j + 1].copy(), v[j:j + 1].copy()))[0])
                except Exception as ex:
                    found += 1
                    key = 'F17:gumbel-bracket-no-sign-change' if in_f17_corner(fam, th, y[j], v[j]) else \
                        f'search:percent_point-raises:{fam}:{type(ex).__name__}'
                    ctx.violation(key, f'{fam} theta={th}: percent_point(y={y[j]!r}, v={v[j]!r}) raised {type(ex).__name__}: {ex}',
                                  {'family': fam, 'theta': th, 'y': y[j], 'v': v[j], 'error': repr(ex), 'repro': repro(fam, th, y[j:j + 1], v[j:j + 1])})
            ok = np.isfinite(u)
            if not ok.any():
                continue
            with np.errstate(all='ignore'):
                h = np.asarray(c.partial_derivative(np.column_stack([u[ok], v[ok]])), dtype=float)
            err = np.abs(h - y[ok])
            rng_bad = (u[ok] < 0) | (u[ok] > 1)
            if np.any(err > 1e-8) or np.any(rng_bad):
                j = int(np.argmax(err + rng_bad))
                found += 1
                ctx.violation(f'search:roundtrip:{fam}', f'{fam} theta={th}: h(percent_point(y,v),v) - y = {err[j]!r} at y={y[ok][j]!r}, v={v[ok][j]!r}, u={u[ok][j]!r}',
                              {'family': fam, 'theta': th, 'y': y[ok][j], 'v': v[ok][j], 'u': u[ok][j], 'repro': repro(fam, th, [y[ok][j]], [v[ok][j]])})
            # monotone in y at fixed v; batch == lanes; permutation invariance
            ys = np.sort(rng.uniform(1e-3, 1 - 1e-3, 30))
            vv = np.full(30, float(rng.uniform(1e-3, 1 - 1e-3)))
            try:
                with np.errstate(all='ignore'):
                    ub = np.asarray(c.percent_point(ys.copy(), vv.copy()), dtype=float)
                    perm = rng.permutation(30)
                    up = np.asarray(c.percent_point(ys[perm].copy(), vv[perm].copy()), dtype=float)
                    ul = np.array([float(np.asarray(c.percent_point(ys[k:k + 1].copy(), vv[k:k + 1].copy()))[0]) for k in range(30)])
                if np.any(np.diff(ub) < -1e-9):
                    k = int(np.argmin(np.diff(ub)))
                    found += 1
                    ctx.violation(f'search:monotone-in-y:{fam}', f'{fam} theta={th}: percent_point decreases in y between {ys[k]!r} and {ys[k+1]!r} (v={vv[0]!r})',
                                  {'family': fam, 'theta': th, 'y': [ys[k], ys[k + 1]], 'v': vv[0], 'u': [ub[k], ub[k + 1]],
                                   'repro': repro(fam, th, ys[k:k + 2], vv[k:k + 2])})
                if np.any(up != ub[perm]) or np.any(ul != ub):
                    found += 1
                    ctx.violation(f'search:elementwise:{fam}', f'{fam} theta={th}: percent_point lane results depend on the other lanes / order',
                                  {'family': fam, 'theta': th, 'y': ys.tolist(), 'v': vv.tolist(), 'repro': repro(fam, th, ys, vv)})
            except Exception as ex:
                if not any(in_f17_corner(fam, th, a, b) for a, b in zip(ys, vv)):
                    found += 1
                    ctx.violation(f'search:percent_point-raises:{fam}:{type(ex).__name__}', f'{fam} theta={th}: percent_point raised {type(ex).__name__}: {ex}',
                                  {'family': fam, 'theta': th, 'error': repr(ex), 'repro': repro(fam, th, ys, vv)})
            ctx.case(f'search:{fam}:{round(th, 6)}', None)
    ctx.rule('search: per family thetas x (y,v) in [1e-4,1-1e-4]^2 (a quarter on the box edges): |h(ppf(y,v),v)-y| <= 1e-8, u in [0,1], '
             'monotone in y, lane-vs-batch and permutation invariance on the implementation')
    return found


def _run(ctx):
    quick = ctx.tier == 'quick'
    status = biv.generate(ctx)
    needed = ['bivariate_percent_point'] + [f'{f}_percent_point' for f in FAMS] + [f'{f}_partial_derivative' for f in FAMS]
    bad = {k: v for k, v in status.items() if k in needed and v}
    for k in needed:
        ctx.obligation(f'translate:{k}', k not in bad, 'translation', bad.get(k, ''))
    if not bad:
        ctx.copy_src('Bridge/Bridge_biv.v')
        ctx.copy_src('Props/C08.v')
        ctx.compile(['Gen_biv.v', 'Bridge_biv.v', 'C08.v'])
    ctx.rule('correspondence: vectors (1..5 lanes) of (y,v) in [1e-4,1-1e-4]^2, theta over the |tau|<=0.8 range; Clayton: Interval certifies '
             '|Gen.ppf - impl| <= 1e-7(1+|impl|); Frank/Gumbel: Brent calls recorded (bracket, objective, one per lane) and Interval certifies '
             '|Gen.h(theta, u_impl, v) - y| <= 1e-9 (round trip through the generated h)')
    if not bad:
        goals = corr(ctx, 30 if quick else 400)
        for g, err in cases.run_interval_cases(ctx, 'Cases_C08', IMPORTS, goals):
            m = g['meta']
            ctx.violation(f"corr:roundtrip:{m['family']}", f"certified round trip / closed form fails for {m}",
                          {'meta': m, 'coq_error': err[-300:], 'repro': repro(m['family'], m['theta'], [m['y']], [m['v']])})
    ctx.extra['witness_search_hits'] = search(ctx, 4 if quick else 30, 60 if quick else 600)
    ctx.trusted.append('scipy.optimize.brentq is an oracle: theorems assume it returns an exact root inside a valid bracket (real tolerance xtol=2e-12)')
    ctx.assumptions.append('Frank/Gumbel inverse theorems are conditional on the lower bracket end being valid: h(EPSILON,v) <= y')


def run(ctx):
    """the check proper, then the history / memory-layout oracles on the real classes (always, also after a broken translation)"""
    from .. import extra_oracles
    try:
        _run(ctx)
    finally:
        try:
            extra_oracles.biv_extra(ctx, 'C08')
        except Exception as ex:       # the oracle itself must never hide the result of the check proper
            ctx.obligation('oracle:extra:raised', False, 'correspondence', repr(ex))
            ctx.violation('oracle:extra:raised:' + type(ex).__name__, 'history/layout oracle raised ' + repr(ex), {'repro': '# see tools/vf/extra_oracles.py'})
